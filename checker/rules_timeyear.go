package main

import (
	"fmt"
	"go/ast"
	"go/token"
	"go/types"
)

// TIME.year-range — C15 ("format-rfc3339 of a parsed instant parses back to an
// equal instant"): RFC 3339's date-fullyear is four digits, 0000 to 9999, and
// both parsers of the library accept exactly that (year 0000 included).  A
// formatter or arithmetic builtin that refuses instants by year must draw the
// same line; `year < 1` looks natural (Go's zero time is year 1) and refuses a
// value the parsers produce.
func init() {
	register(&Rule{ID: "TIME.year-range", Floor: 0,
		Doc: "every comparison in libtime of a time's Year() (or a local holding it) with an integer constant leaves the whole range the RFC 3339 parsers accept, 0 through 9999, on the accepting side: a lower bound refuses only negative years (`y < 0`), an upper bound only years above 9999",
		Run: func(c *Ctx) []Obligation {
			const rid = "TIME.year-range"
			var obs []Obligation
			for _, u := range c.Funcs(func(p string) bool { return rel(p) == "lisp/lisplib/libtime" }) {
				if u.Decl == nil || u.Decl.Body == nil {
					continue
				}
				info := u.Pkg.TypesInfo
				isYearCall := func(e ast.Expr) bool {
					ce, ok := ast.Unparen(e).(*ast.CallExpr)
					return ok && methodCalled(info, ce, "time", "Time", "Year")
				}
				yearLocals := map[types.Object]bool{}
				ast.Inspect(u.Decl.Body, func(n ast.Node) bool {
					if as, ok := n.(*ast.AssignStmt); ok && len(as.Lhs) == len(as.Rhs) {
						for i, r := range as.Rhs {
							if isYearCall(r) {
								if o := identObj(info, as.Lhs[i]); o != nil {
									yearLocals[o] = true
								}
							}
						}
					}
					return true
				})
				isYear := func(e ast.Expr) bool {
					if isYearCall(e) {
						return true
					}
					o := identObj(info, e)
					return o != nil && yearLocals[o]
				}
				ord := &ordinal{}
				ast.Inspect(u.Decl.Body, func(n ast.Node) bool {
					be, ok := n.(*ast.BinaryExpr)
					if !ok {
						return true
					}
					op := be.Op
					var kexpr ast.Expr
					switch {
					case isYear(be.X):
						kexpr = be.Y
					case isYear(be.Y):
						kexpr = be.X
						switch op {
						case token.LSS:
							op = token.GTR
						case token.GTR:
							op = token.LSS
						case token.LEQ:
							op = token.GEQ
						case token.GEQ:
							op = token.LEQ
						}
					default:
						return true
					}
					k, isC := intConst(info, kexpr)
					if !isC {
						return true
					}
					// the set of years on the TRUE side of `year OP k`, intersected with [0, 9999]:
					// it must be empty or the whole interval
					lo, hi := 0, 9999
					inTrue := func(y int) bool {
						switch op {
						case token.LSS:
							return y < k
						case token.LEQ:
							return y <= k
						case token.GTR:
							return y > k
						case token.GEQ:
							return y >= k
						case token.EQL:
							return y == k
						case token.NEQ:
							return y != k
						}
						return false
					}
					construct := ord.next("year compared with a constant")
					if op == token.EQL || op == token.NEQ {
						return true
					}
					if inTrue(lo) == inTrue(hi) {
						obs = append(obs, mkOb(c, rid, u, construct, be, Proved, "does not split the years 0..9999", true))
					} else {
						obs = append(obs, mkOb(c, rid, u, construct, be, Violated, fmt.Sprintf("`%s` puts some of the years 0..9999 on one side and some on the other: the RFC 3339 parsers accept every four-digit year (0000 included), so an instant they produce is treated differently here (refused by a formatter, or formatted when it cannot be read back)", types.ExprString(be)), true))
					}
					return true
				})
			}
			return obs
		}})
}
