package main

import (
	"go/ast"
	"go/token"
	"go/types"
)

// SCHEMA.bound-compare-exact (C14) — s:gt / s:gte / s:lt / s:lte declare a numeric bound; "the value
// satisfies the constraint as documented" is the language's own ordering of numbers, which compares two
// ints as ints.  A comparison of the two values AS float64 is exact only while one of them is not an
// int: above 2^53 float64 no longer tells neighbouring integers apart, so (s:gt 9007199254740992)
// refuses 9007199254740993 and (s:gte 9007199254740993) accepts 9007199254740992.  The structural half:
// in the validators these four constraints build (and the helpers they call), an ordered comparison of two
// float64 variables is reachable only over an edge establishing that one of the two lisp values is not
// an LInt.

func init() {
	register(&Rule{ID: "SCHEMA.bound-compare-exact", Floor: 4,
		Doc: "in the validator closures of s:gt, s:gte, s:lt and s:lte (and the same-package helpers they call) every ordered comparison of two float64 variables is reachable only over an edge that entails `X.Type != LInt` for one of the lisp values in play: two ints are compared as ints, exactly, also above 2^53 — the float64 comparison decides only when a float is involved",
		Run: func(c *Ctx) []Obligation {
			const rid = "SCHEMA.bound-compare-exact"
			typeFld := c.LookupField("lisp.LVal.Type")
			lint := c.LookupConst("lisp.LInt")
			if typeFld == nil || lint == nil {
				return []Obligation{anchorMissing(rid, "LVal.Type / LInt")}
			}
			var obs []Obligation
			for _, name := range []string{"gt", "gte", "lt", "lte"} {
				ent := c.RegistryByName(schemaPkg, name)
				if ent == nil {
					obs = append(obs, anchorMissing(rid, "the registered builtin s:"+name))
					continue
				}
				body, u, _, ok := c.BodyOf(*ent)
				if !ok || u.Decl == nil {
					obs = append(obs, anchorMissing(rid, "the implementation of s:"+name))
					continue
				}
				body, u, _ = c.followForwarder(body, u)
				info := u.Pkg.TypesInfo
				type unit struct {
					u   FuncUnit
					lit *ast.FuncLit
					n   ast.Node
				}
				var units []unit
				ast.Inspect(body, func(n ast.Node) bool {
					if fl, ok := n.(*ast.FuncLit); ok {
						units = append(units, unit{u, fl, fl.Body})
						for _, ce := range callsIn(fl.Body, true) {
							h := originOf(Callee(info, ce))
							if h == nil || h.Pkg() != u.Obj.Pkg() {
								continue
							}
							if hd := c.declOf[h]; hd != nil && hd.Body != nil {
								units = append(units, unit{FuncUnit{h, hd, c.pkgOf[hd]}, nil, hd.Body})
							}
						}
						return false
					}
					return true
				})
				found := 0
				seenUnit := map[ast.Node]bool{}
				for _, un := range units {
					if seenUnit[un.n] {
						continue
					}
					seenUnit[un.n] = true
					ui := un.u.Pkg.TypesInfo
					fc := c.cfgOf(un.u, un.lit)
					cls := func(e ast.Expr) (string, bool) {
						be, ok := ast.Unparen(e).(*ast.BinaryExpr)
						if !ok || (be.Op != token.EQL && be.Op != token.NEQ) {
							return "", false
						}
						var tsel, other ast.Expr
						switch {
						case FieldOfSelector(ui, be.X) == typeFld:
							tsel, other = be.X, be.Y
						case FieldOfSelector(ui, be.Y) == typeFld:
							tsel, other = be.Y, be.X
						default:
							return "", false
						}
						if identObjOrSel(ui, other) != lint {
							return "", false
						}
						se := ast.Unparen(tsel).(*ast.SelectorExpr)
						return "int:" + types.ExprString(se.X), be.Op == token.NEQ
					}
					cut := fc.edgesEntailing(cls, func(v map[string]bool) bool {
						for k, val := range v {
							if len(k) > 4 && k[:4] == "int:" && !val && v["$has:"+k] {
								return true
							}
						}
						return false
					})
					ord := &ordinal{}
					for _, b := range fc.G.Blocks {
						if !fc.Live(b) {
							continue
						}
						for _, n := range b.Nodes {
							ast.Inspect(n, func(m ast.Node) bool {
								if _, isLit := m.(*ast.FuncLit); isLit && m != ast.Node(un.lit) {
									return false
								}
								cmp, ok := m.(*ast.BinaryExpr)
								if !ok {
									return true
								}
								switch cmp.Op {
								case token.LSS, token.LEQ, token.GTR, token.GEQ:
								default:
									return true
								}
								isFloatVar := func(e ast.Expr) bool {
									o := identObj(ui, e)
									if o == nil {
										return false
									}
									bt, ok := o.Type().Underlying().(*types.Basic)
									return ok && bt.Kind() == types.Float64
								}
								if !isFloatVar(cmp.X) || !isFloatVar(cmp.Y) {
									return true
								}
								found++
								construct := ord.next("s:" + name + ": float64 comparison")
								if len(cut) > 0 && !fc.reachableAvoiding(b, cut) {
									obs = append(obs, mkOb(c, rid, un.u, construct, cmp, Proved, "reached only when one of the two values is not an int", true))
								} else {
									obs = append(obs, mkOb(c, rid, un.u, construct, cmp, Violated, "the bound is decided by comparing the two values as float64 also when both are ints: above 2^53 neighbouring integers share one float64, so (s:"+name+" …) misjudges them — (s:gt 9007199254740992) refuses 9007199254740993, (s:gte 9007199254740993) accepts 9007199254740992 — where the language's own > and >= get them right", true))
								}
								return true
							})
						}
					}
				}
				if found == 0 {
					obs = append(obs, mkOb(c, rid, u, "s:"+name+": comparison", u.Decl, Proved, "no float64 comparison of two variables decides this bound", false))
				}
			}
			return obs
		}})
}
