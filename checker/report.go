package main

import (
	"regexp"
	"crypto/sha1"
	"encoding/hex"
	"encoding/json"
	"fmt"
	"os"
	"path/filepath"
	"sort"
	"strings"
)

// Verdicts a rule can give an obligation.  Anything that is not Proved is a
// candidate violation: it is matched against the audited table and the known
// findings file by its key (rule|func|construct), never by line.
const (
	Proved    = "proved"
	Undecided = "undecided" // idiom not recognised: reported, never waved through
	Violated  = "violated"
)

type Obligation struct {
	Rule       string `json:"rule"`
	Func       string `json:"func"`
	Construct  string `json:"construct"`
	Pos        string `json:"pos,omitempty"`
	Verdict    string `json:"verdict"`
	Detail     string `json:"detail,omitempty"`
	Nontrivial bool   `json:"nontrivial,omitempty"`
	Config     string `json:"config,omitempty"`
	// filled by the framework
	Status string `json:"status,omitempty"` // proved | audited | known-finding | violation
	Reason string `json:"reason,omitempty"`
}

func (o Obligation) Key() string { return o.Rule + "|" + o.Func + "|" + o.Construct }

// Rule is one repository-specific rule; Floor is the minimum number of
// obligations it must produce (a rule matching fewer sites than were confirmed
// by hand fails: it must never pass vacuously).
type Rule struct {
	ID    string
	Doc   string
	Floor int
	Run   func(c *Ctx) []Obligation
	// Thorough-only rules are skipped in the quick tier.
	ThoroughOnly bool
}

type AuditEntry struct {
	Rule      string `json:"rule"`
	Func      string `json:"func"`
	Construct string `json:"construct"`
	Reason    string `json:"reason"`
	// Members: for an audited recursion cycle, every member on the audited tree (the construct shows three)
	Members []string `json:"members,omitempty"`
}

type FindingEntry struct {
	Property  string `json:"property"`
	Rule      string `json:"rule"`
	Func      string `json:"func"`
	Construct string `json:"construct"`
	What      string `json:"what"`
	Commit    string `json:"commit,omitempty"`
}

type KnownFindings struct {
	Findings []FindingEntry `json:"findings"`
	Fixed    []FindingEntry `json:"fixed"`
}

type Tables struct {
	Audited map[string]AuditEntry
	Known   map[string]FindingEntry
	usedAud map[string]bool
}

func verifDir() string {
	if d := os.Getenv("VERIF_DIR"); d != "" {
		return d
	}
	return "/verif"
}

// evidenceDir is where evidence and replay files go; selftest.sh redirects it so
// that runs over mutated scratch trees do not overwrite the real evidence.
func evidenceDir() string {
	if d := os.Getenv("VERIF_EVIDENCE_DIR"); d != "" {
		return d
	}
	return filepath.Join(verifDir(), "evidence")
}

func loadTables() (*Tables, error) {
	t := &Tables{Audited: map[string]AuditEntry{}, Known: map[string]FindingEntry{}, usedAud: map[string]bool{}}
	files, _ := filepath.Glob(filepath.Join(verifDir(), "tables", "audited*.json"))
	sort.Strings(files)
	for _, f := range files {
		b, err := os.ReadFile(f)
		if err != nil {
			return nil, err
		}
		var es []AuditEntry
		if err := json.Unmarshal(b, &es); err != nil {
			return nil, fmt.Errorf("%s: %v", f, err)
		}
		for _, e := range es {
			if strings.TrimSpace(e.Reason) == "" {
				return nil, fmt.Errorf("%s: audited entry %s|%s|%s has no reason", f, e.Rule, e.Func, e.Construct)
			}
			t.Audited[e.Rule+"|"+e.Func+"|"+e.Construct] = e
		}
	}
	b, err := os.ReadFile(filepath.Join(verifDir(), "known_findings.json"))
	if err == nil {
		var kf KnownFindings
		if err := json.Unmarshal(b, &kf); err != nil {
			return nil, fmt.Errorf("known_findings.json: %v", err)
		}
		for _, e := range kf.Findings {
			t.Known[e.Property+"|"+e.Rule+"|"+e.Func+"|"+e.Construct] = e
		}
	}
	return t, nil
}

// Result of checking one property.
type PropResult struct {
	Property    string
	Obligations []Obligation
	RuleStats   map[string]int
	Problems    []string // framework-level failures (floors, anchors)
	Funcs       int
	Pkgs        int
}

var ordinalSuffix = regexp.MustCompile(`#\d+$`)
var paramRef = regexp.MustCompile(`\$\d+`)

// inheritedAudit: an audited entry of function F also covers the same
// construct found in a private helper that only F (transitively) calls — the
// audited statement was moved, not added.  An entry is consumed by at most one
// obligation and only when F itself no longer produces it.
func inheritedAudit(c *Ctx, o *Obligation, t *Tables, produced map[string]bool, consumed map[string]bool) (AuditEntry, bool) {
	if c == nil {
		return AuditEntry{}, false
	}
	fn, _, _ := c.LookupFunc(o.Func)
	if fn == nil {
		return AuditEntry{}, false
	}
	// ordinals and parameter positions differ between a function and its helper
	loose := func(s string) string {
		return paramRef.ReplaceAllString(ordinalSuffix.ReplaceAllString(s, ""), "_")
	}
	want := loose(o.Construct)
	var keys []string
	for k, e := range t.Audited {
		if e.Rule == o.Rule && e.Func != o.Func && loose(e.Construct) == want && !produced[k] && !consumed[k] {
			keys = append(keys, k)
		}
	}
	sort.Strings(keys)
	for _, k := range keys {
		e := t.Audited[k]
		if via, ok := c.privateHelperOf(fn, func(name string) bool { return name == e.Func }, 0); ok {
			consumed[k] = true
			e.Reason = "moved into a private helper of " + via + "; audited there: " + e.Reason
			return e, true
		}
	}
	// two (or more) audited siblings merged into ONE helper (`select` and `reject` both became
	// `filterSeq(env, args, keepWhen)`): every caller of the helper is a function that had this
	// construct audited; all those entries are consumed together
	if len(keys) > 1 {
		funcs := map[string]bool{}
		for _, k := range keys {
			funcs[t.Audited[k].Func] = true
		}
		if via, ok := c.privateHelperOf(fn, func(name string) bool { return funcs[name] }, 0); ok {
			e := t.Audited[keys[0]]
			for _, k := range keys {
				consumed[k] = true
			}
			e.Reason = "moved into a helper shared by " + via + ", each of which had it audited: " + e.Reason
			return e, true
		}
	}
	// the audited construct respelled inside the SAME function: the value moved from a parameter into a
	// local (`list, quoteLevel := stripQuotes(v)` … `list.Cells[1]` where `v.Cells[1]` was audited) or
	// the ordinal shifted; each audited entry is consumed once and only while F no longer produces it,
	// so the number of excused sites cannot grow
	{
		var ks []string
		for k, e := range t.Audited {
			if e.Rule == o.Rule && e.Func == o.Func && loose(e.Construct) == want && !produced[k] && !consumed[k] {
				ks = append(ks, k)
			}
		}
		sort.Strings(ks)
		if len(ks) > 0 {
			e := t.Audited[ks[0]]
			consumed[ks[0]] = true
			e.Reason = "the audited construct " + e.Construct + " of this function, respelled: " + e.Reason
			return e, true
		}
	}
	// the audited access moved into a private ACCESSOR of the same function and its obligation was
	// lifted back to the call: `m[i].Cells[0].Str` became `entryKeyName(m[i])` with the index inside
	// the helper — the obligation `call entryKeyName with $0[…]` stands where `$0[…].Cells[0]` stood
	if m := liftedCall.FindStringSubmatch(o.Construct); m != nil {
		arg := loose(m[2])
		var ks []string
		for k, e := range t.Audited {
			if e.Rule == o.Rule && e.Func == o.Func && strings.HasPrefix(loose(e.Construct), arg+".Cells[") && !produced[k] && !consumed[k] {
				ks = append(ks, k)
			}
		}
		sort.Strings(ks)
		for _, k := range ks {
			helperOK := false
			for _, u := range c.Funcs(nil) {
				if u.Obj.Name() == m[1] && u.Pkg == c.pkgOf[c.declOf[fn]] {
					if _, ok := c.privateHelperOf(u.Obj, func(name string) bool { return name == o.Func }, 0); ok {
						helperOK = true
					}
				}
			}
			if helperOK {
				e := t.Audited[k]
				consumed[k] = true
				e.Reason = "the access moved into the private accessor " + m[1] + " and was lifted back to this call; audited here: " + e.Reason
				return e, true
			}
		}
	}
	return AuditEntry{}, false
}

var liftedCall = regexp.MustCompile(`^call (\S+) with (.*?)(#\d+)?$`)

var closureSuffix = regexp.MustCompile(`(\$\d+)+$`)

// composedAudit: a recursion cycle all of whose members already recurse in audited cycles.
// Restructuring (a shared helper taking a callback, siblings funnelled through one
// dispatcher) merges audited cycles of one family into a larger one and adds closures,
// method-expression thunks and freshly extracted private helpers to it; the recursion is
// still the audited functions calling each other over the structure the audits describe.
// Every member that is a declared function of the audited tree must be a member of some
// audited cycle; closures count as their enclosing function; interface-method thunks and
// unexported functions that did not exist on the audited tree are read through.
func composedAudit(c *Ctx, o *Obligation, t *Tables) (string, bool) {
	if c == nil || o.Rule != "REC.guarded" || !strings.HasPrefix(o.Construct, "unguarded cycle") {
		return "", false
	}
	i := strings.Index(o.Detail, "members: ")
	if i < 0 {
		return "", false
	}
	audited := map[string]string{} // member -> audited entry key
	for k, e := range t.Audited {
		if e.Rule != "REC.guarded" {
			continue
		}
		j := strings.Index(e.Construct, "): ")
		if j < 0 {
			continue
		}
		for _, nm := range strings.Split(e.Construct[j+3:], " -> ") {
			if !strings.HasPrefix(nm, "+") {
				audited[nm] = k
			}
		}
		// a cycle that lost members (a validator that no longer applies a nested constraint) is the
		// audited recursion with an edge removed
		for _, nm := range e.Members {
			audited[closureSuffix.ReplaceAllString(nm, "")] = k
		}
	}
	used := map[string]bool{}
	n := 0
	for _, m := range strings.Split(o.Detail[i+len("members: "):], ", ") {
		m = closureSuffix.ReplaceAllString(strings.TrimSpace(m), "")
		if k, ok := audited[m]; ok {
			used[k] = true
			n++
			continue
		}
		fn, fd, _ := c.LookupFunc(m)
		if fn == nil || fd == nil || fd.Body == nil {
			continue // an interface method / thunk: no body of its own
		}
		if _, existed := loadAnchorFPs().Funcs[m]; !existed && !fn.Exported() {
			continue // extracted on this tree
		}
		return "", false
	}
	if n == 0 || len(used) == 0 {
		return "", false
	}
	var ks []string
	for k := range used {
		e := t.Audited[k]
		ks = append(ks, e.Func)
		t.usedAud[k] = true
	}
	sort.Strings(ks)
	return "composed of audited cycles (every member recurses in one of them; merged by restructuring): " + strings.Join(ks, ", ") + " — " + t.Audited[func() string {
		for k := range used {
			return k
		}
		return ""
	}()].Reason, true
}

func classify(prop string, obs []Obligation, t *Tables, c *Ctx) []Obligation {
	produced := map[string]bool{}
	for i := range obs {
		produced[obs[i].Key()] = true
	}
	consumed := map[string]bool{}
	for i := range obs {
		o := &obs[i]
		if o.Verdict == Proved {
			o.Status = "proved"
			continue
		}
		if e, ok := t.Audited[o.Key()]; ok {
			o.Status = "audited"
			o.Reason = e.Reason
			t.usedAud[o.Key()] = true
			continue
		}
		if e, ok := inheritedAudit(c, o, t, produced, consumed); ok {
			o.Status = "audited"
			o.Reason = e.Reason
			continue
		}
		if why, ok := composedAudit(c, o, t); ok {
			o.Status = "audited"
			o.Reason = why
			continue
		}
		if e, ok := t.Known[prop+"|"+o.Key()]; ok {
			o.Status = "known-finding"
			o.Reason = e.What
			continue
		}
		o.Status = "violation"
	}
	return obs
}

func shortHash(s string) string {
	h := sha1.Sum([]byte(s))
	return hex.EncodeToString(h[:])[:10]
}

type replayRecord struct {
	Property   string     `json:"property"`
	Tier       string     `json:"tier"`
	Obligation Obligation `json:"obligation"`
	Replay     string     `json:"replay_cmd"`
	RuleDoc    string     `json:"rule_doc,omitempty"`
}

func writeReplay(prop, tier string, o Obligation, doc string) string {
	dir := filepath.Join(evidenceDir(), "replay")
	_ = os.MkdirAll(dir, 0o755)
	p := filepath.Join(dir, fmt.Sprintf("%s-%s.json", prop, shortHash(o.Key()+o.Config)))
	rec := replayRecord{Property: prop, Tier: tier, Obligation: o, RuleDoc: doc,
		Replay: fmt.Sprintf("./run.sh replay %s", p)}
	b, _ := json.MarshalIndent(rec, "", " ")
	_ = os.WriteFile(p, b, 0o644)
	return p
}

type evidence struct {
	PropertyID  string         `json:"property_id"`
	Tier        string         `json:"tier"`
	Seed        int            `json:"seed"`
	Level       string         `json:"level"`
	Coverage    map[string]any `json:"coverage"`
	Assumptions []string       `json:"assumptions"`
	WallS       float64        `json:"wall_s"`
	Violations  int            `json:"violations"`
}

func writeEvidence(path string, ev evidence) error {
	_ = os.MkdirAll(filepath.Dir(path), 0o755)
	b, err := json.MarshalIndent(ev, "", " ")
	if err != nil {
		return err
	}
	tmp := path + ".tmp"
	if err := os.WriteFile(tmp, b, 0o644); err != nil {
		return err
	}
	return os.Rename(tmp, path)
}
