package main

import (
	"fmt"
	"go/ast"
	"go/token"
	"go/types"
	"strings"

	"golang.org/x/tools/go/cfg"
)

// C14 — libschema validators.

const schemaPkg = "lisp/lisplib/libschema"

// fieldDomain: LTypes for which a field of LVal carries meaning.
var fieldDomain = map[string]typeSet{
	"Str":   ts("LString", "LSymbol", "LQSymbol", "LError", "LTaggedVal", "LFun"),
	"Int":   ts("LInt"),
	"Float": ts("LFloat"),
	"Cells": ts("LSExpr", "LArray", "LQuote", "LError", "LTaggedVal", "LFun", "LMarkTerminal", "LMarkTailRec", "LMarkMacExpand"),
}

func init() {
	register(&Rule{ID: "SCHEMA.field-guard", Floor: 5,
		Doc: "inside a libschema validator closure a field of the value under test (input.Str/.Int/.Float/.Cells) is read only where dominating tests have established a type for which that field is meaningful; an unguarded read decides on bytes that belong to another type (the string \"true\" passing as the boolean true, a map's always-empty Cells)",
		Run: func(c *Ctx) []Obligation {
			nv := c.LookupPkgFunc(schemaPkg + ".newValidator")
			nnv := c.LookupPkgFunc(schemaPkg + ".newNamedValidator")
			if nv == nil {
				return []Obligation{anchorMissing("SCHEMA.field-guard", "libschema.newValidator")}
			}
			lvalT := c.LookupType("lisp.LVal")
			fields := map[*types.Var]string{}
			st := lvalT.Underlying().(*types.Struct)
			for i := 0; i < st.NumFields(); i++ {
				if _, ok := fieldDomain[st.Field(i).Name()]; ok {
					fields[st.Field(i)] = st.Field(i).Name()
				}
			}
			var obs []Obligation
			for _, u := range c.Funcs(func(p string) bool { return rel(p) == schemaPkg }) {
				info := u.Pkg.TypesInfo
				a := newOwnAnalysis(c, u)
				ord := &ordinal{}
				// validator literals: the function-literal argument of newValidator / newNamedValidator
				ast.Inspect(u.Decl.Body, func(n ast.Node) bool {
					ce, ok := n.(*ast.CallExpr)
					if !ok {
						return true
					}
					fn := originOf(Callee(info, ce))
					if fn != nv && fn != nnv {
						return true
					}
					lit, ok := ast.Unparen(ce.Args[len(ce.Args)-1]).(*ast.FuncLit)
					if !ok || lit.Type.Params == nil || len(lit.Type.Params.List) < 2 {
						return true
					}
					var inputObj types.Object
					last := lit.Type.Params.List[len(lit.Type.Params.List)-1]
					if len(last.Names) > 0 {
						inputObj = info.Defs[last.Names[len(last.Names)-1]]
					}
					if inputObj == nil {
						return true
					}
					fc := c.cfgOf(u, lit)
					var stack []ast.Node
					ast.Inspect(lit.Body, func(m ast.Node) bool {
						if m == nil {
							stack = stack[:len(stack)-1]
							return true
						}
						stack = append(stack, m)
						se, ok := m.(*ast.SelectorExpr)
						if !ok {
							return true
						}
						fname, isField := fields[FieldOfSelector(info, se)]
						if !isField || identObj(info, se.X) != inputObj {
							return true
						}
						stk := make([]ast.Node, len(stack))
						copy(stk, stack)
						construct := ord.next("read input." + fname)
						facts := a.typeFactsAt(fc, se, stk)
						key := a.resolvedKey(se.X, 0)
						if s, ok := facts[key]; ok && s.subsetOf(fieldDomain[fname]) {
							obs = append(obs, mkOb(c, "SCHEMA.field-guard", u, construct, se, Proved, "read under type "+s.String(), true))
						} else {
							got := "not established"
							if s, ok := facts[key]; ok {
								got = s.String()
							}
							obs = append(obs, mkOb(c, "SCHEMA.field-guard", u, construct, se, Undecided,
								"validator reads input."+fname+" although the input's type here is "+got+" (field meaningful only for "+fieldDomain[fname].String()+"): values of other types are judged by a field that does not describe them", true))
						}
						return true
					})
					return true
				})
			}
			return obs
		}})

	register(&Rule{ID: "SCHEMA.funnel", Floor: 1,
		Doc: "a constraint's native implementation (X.Builtin()) is invoked in libschema only inside applyConstraint, after the isValidator credential check",
		Run: func(c *Ctx) []Obligation {
			bm := c.LookupMethod("lisp.LVal.Builtin")
			if bm == nil {
				return []Obligation{anchorMissing("SCHEMA.funnel", "LVal.Builtin")}
			}
			var obs []Obligation
			for _, u := range c.Funcs(func(p string) bool { return rel(p) == schemaPkg }) {
				info := u.Pkg.TypesInfo
				ord := &ordinal{}
				ast.Inspect(u.Decl.Body, func(n ast.Node) bool {
					ce, ok := n.(*ast.CallExpr)
					if !ok {
						return true
					}
					inner, ok := ast.Unparen(ce.Fun).(*ast.CallExpr)
					if !ok || originOf(Callee(info, inner)) != bm {
						return true
					}
					construct := ord.next("invoke X.Builtin()(...)")
					if u.Name() == schemaPkg+".applyConstraint" {
						obs = append(obs, mkOb(c, "SCHEMA.funnel", u, construct, ce, Proved, "the single invocation funnel", false))
					} else {
						obs = append(obs, mkOb(c, "SCHEMA.funnel", u, construct, ce, Violated, "a constraint is invoked outside applyConstraint, bypassing the validator credential check (a user lambda in a constraint slot would be called with libschema's convention)", true))
					}
					return true
				})
			}
			return obs
		}})

	register(&Rule{ID: "SCHEMA.key-lookup", Floor: 2,
		Doc: "every map lookup in libschema goes through schemaKey and binds the `found` result of Map.Get (presence is decided by the flag, not by the value being nil)",
		Run: func(c *Ctx) []Obligation {
			sk := c.LookupPkgFunc(schemaPkg + ".schemaKey")
			var obs []Obligation
			for _, u := range c.Funcs(func(p string) bool { return rel(p) == schemaPkg }) {
				info := u.Pkg.TypesInfo
				ord := &ordinal{}
				var stack []ast.Node
				ast.Inspect(u.Decl.Body, func(n ast.Node) bool {
					if n == nil {
						stack = stack[:len(stack)-1]
						return true
					}
					stack = append(stack, n)
					ce, ok := n.(*ast.CallExpr)
					if !ok {
						return true
					}
					fn := Callee(info, ce)
					if fn == nil || fn.Name() != "Get" || fn.Pkg() == nil || rel(fn.Pkg().Path()) != "lisp" {
						return true
					}
					sig := fn.Type().(*types.Signature)
					if sig.Results().Len() != 2 {
						return true
					}
					construct := ord.next("call Map.Get")
					// key through schemaKey
					keyOK := false
					if len(ce.Args) == 1 {
						if kc, ok := ast.Unparen(ce.Args[0]).(*ast.CallExpr); ok && sk != nil && originOf(Callee(info, kc)) == sk {
							keyOK = true
						}
						if o := identObj(info, ce.Args[0]); o != nil && sk != nil {
							if dc, _, cnt := definingCall(info, u.Decl.Body, o); dc != nil && cnt == 1 && originOf(Callee(info, dc)) == sk {
								keyOK = true
							}
						}
					}
					// found flag bound
					flagOK := false
					if len(stack) >= 2 {
						if as, ok := stack[len(stack)-2].(*ast.AssignStmt); ok && len(as.Lhs) == 2 {
							if id, ok := as.Lhs[1].(*ast.Ident); ok && id.Name != "_" {
								flagOK = true
							}
						}
					}
					switch {
					case keyOK && flagOK:
						obs = append(obs, mkOb(c, "SCHEMA.key-lookup", u, construct, ce, Proved, "key built by schemaKey, found flag bound", true))
					case !flagOK:
						obs = append(obs, mkOb(c, "SCHEMA.key-lookup", u, construct, ce, Violated, "the `found` result of Map.Get is discarded: a key that is present with a nil / null value is taken for absent", true))
					default:
						obs = append(obs, mkOb(c, "SCHEMA.key-lookup", u, construct, ce, Violated, "the lookup key is not built by schemaKey: symbol- and string-keyed (JSON-decoded) maps would be looked up differently", true))
					}
					return true
				})
			}
			return obs
		}})

	register(&Rule{ID: "SCHEMA.number-accessor", Floor: 4,
		Doc: "the numeric comparison constraints read both the bound and the input through lisp.GoFloat64; lisp.GoInt (which truncates a float) is used in libschema only by the length constraints",
		Run: func(c *Ctx) []Obligation {
			gi := c.LookupPkgFunc("lisp.GoInt")
			if gi == nil {
				return []Obligation{anchorMissing("SCHEMA.number-accessor", "lisp.GoInt")}
			}
			sites, _ := c.CallsTo(func(p string) bool { return rel(p) == schemaPkg }, gi)
			var obs []Obligation
			ord := map[string]*ordinal{}
			for _, s := range sites {
				name := s.Unit.Name()
				if ord[name] == nil {
					ord[name] = &ordinal{}
				}
				construct := ord[name].next("call lisp.GoInt")
				if strings.HasSuffix(name, ".lenConstraint") {
					obs = append(obs, mkOb(c, "SCHEMA.number-accessor", s.Unit, construct, s.Call, Proved, "length bound (lengths are integers)", false))
					// GoInt truncates a float: a fractional bound must have been refused before it is read
					// — the call is reachable only over an edge on which the bound is known not to be a
					// fractional float (a test of its Type against LFloat / LInt, or of its Float against
					// math.Trunc / a round trip through int, whose failing edge returns)
					info := s.Unit.Pkg.TypesInfo
					fc := c.cfgOf(s.Unit, s.Lit)
					loc, lok := fc.Locate(s.Call)
					argKey := ""
					if len(s.Call.Args) == 1 {
						argKey = aliasResolvedString(info, s.Unit.Decl.Body, s.Call.Args[0])
					}
					guarded := false
					if lok && argKey != "" {
						for _, b := range fc.G.Blocks {
							cond := fc.CondOf(b)
							if !fc.Live(b) || cond == nil {
								continue
							}
							mentionsFloat := false
							fc.inspectCond(cond, func(e ast.Expr) {
								ast.Inspect(e, func(m ast.Node) bool {
									if se, ok := m.(*ast.SelectorExpr); ok && se.Sel.Name == "Float" && aliasResolvedString(info, s.Unit.Decl.Body, se.X) == argKey {
										mentionsFloat = true
									}
									return true
								})
							}, 0)
							if !mentionsFloat {
								continue
							}
							for k := 0; k < 2; k++ {
								if fc.edgeReturns(cfgEdge{b, k}, nil) && fc.Dominates(Loc{b, len(b.Nodes) - 1}, loc) {
									guarded = true
								}
							}
						}
					}
					fconstruct := ord[name].next("fractional bound refused before GoInt")
					if guarded {
						obs = append(obs, mkOb(c, "SCHEMA.number-accessor", s.Unit, fconstruct, s.Call, Proved, "a test of the bound's Float value, one edge of which returns, dominates the read", true))
					} else {
						obs = append(obs, mkOb(c, "SCHEMA.number-accessor", s.Unit, fconstruct, s.Call, Violated, "the length bound is read through GoInt, which truncates a float, and nothing refuses a fractional bound first: (s:len 2.5) is built as (s:len 2) and accepts \"ab\", although no value has length 2.5 — a malformed schema is not rejected when it is built", true))
					}
				} else {
					obs = append(obs, mkOb(c, "SCHEMA.number-accessor", s.Unit, construct, s.Call, Violated, "a numeric constraint reads a number through GoInt, which truncates a fractional value: (s:gte 4.5) would accept 4", true))
				}
			}
			// the four comparison constraints use GoFloat64 on both sides
			gf := c.LookupPkgFunc("lisp.GoFloat64")
			for _, e := range c.Registry() {
				if rel(e.Pkg.PkgPath) != schemaPkg {
					continue
				}
				switch e.Name {
				case "gt", "gte", "lt", "lte", "positive", "negative":
				default:
					continue
				}
				body, u, _, ok := c.BodyOf(e)
				if !ok {
					continue
				}
				// count GoFloat64 reads in the body and in the package-local helpers it calls (two levels)
				n := 0
				var count func(b ast.Node, info *types.Info, depth int)
				seen := map[*types.Func]bool{}
				count = func(b ast.Node, info *types.Info, depth int) {
					for _, ce := range callsIn(b, true) {
						fn := originOf(Callee(info, ce))
						if fn == gf {
							n++
						}
						if fn != nil && depth < 2 && !seen[fn] && fn.Pkg() != nil && rel(fn.Pkg().Path()) == schemaPkg {
							if fd := c.declOf[fn]; fd != nil && fd.Body != nil {
								seen[fn] = true
								count(fd.Body, c.pkgOf[fd].TypesInfo, depth+1)
							}
						}
					}
				}
				count(body, u.Pkg.TypesInfo, 0)
				want := 2
				if e.Name == "positive" || e.Name == "negative" {
					want = 1
				}
				if n >= want {
					obs = append(obs, mkOb(c, "SCHEMA.number-accessor", u, "constraint "+e.Name, body, Proved, "bound and input are both read with GoFloat64", false))
				} else {
					obs = append(obs, mkOb(c, "SCHEMA.number-accessor", u, "constraint "+e.Name, body, Violated, "the comparison does not read both operands with GoFloat64", true))
				}
			}
			return obs
		}})
}

func init() {
	register(&Rule{ID: "SCHEMA.constraints-at-build", Floor: 8,
		Doc: "a type's constraint list is validated when the type is built: in getHandler (the one function through which s:deftype, s:make-validator and every composite constraint obtain a type handler) a loop over the constraints returns an error for any element that is not a validator (isValidator), and that loop's exit dominates every call that hands the list to a handler constructor; the handler constructors have no other callers — so a malformed constraint is refused before an inverting combinator (s:not, s:when) can read its application-time error as a verdict",
		Run: func(c *Ctx) []Obligation {
			fn, fd, pkg := c.LookupFunc("lisp/lisplib/libschema.getHandler")
			isVal := c.LookupPkgFunc("lisp/lisplib/libschema.isValidator")
			if fn == nil || isVal == nil {
				return []Obligation{anchorMissing("SCHEMA.constraints-at-build", "libschema.getHandler / isValidator")}
			}
			u := FuncUnit{fn, fd, pkg}
			info := pkg.TypesInfo
			fc := c.cfgOf(u, nil)
			// the constraints parameter: the []*LVal parameter
			var consP types.Object
			for _, p := range paramObjs(u) {
				if sl, ok := p.Type().(*types.Slice); ok && isLValPtr(c, sl.Elem()) {
					consP = p
				}
			}
			if consP == nil {
				return []Obligation{mkOb(c, "SCHEMA.constraints-at-build", u, "constraint list parameter", fd, Undecided, "getHandler has no []*LVal parameter", false)}
			}
			// the validating loop: a loop over the whole list in which some test either returns or
			// continues over an edge that establishes isValidator(<element>) — decided on the flow graph,
			// so an if-chain, a tagless switch or a named condition are all the same test.  A test weakened
			// by a conjunction (`!isValidator(c) && x`) establishes nothing on its continuing edge.
			var loop ast.Stmt
			var loopBlock *cfg.Block
			isElem := func(rangeVal types.Object, e ast.Expr) bool {
				if rangeVal != nil && identObj(info, e) == rangeVal {
					return true
				}
				if ie, ok := resolveLocal(info, fd.Body, e).(*ast.IndexExpr); ok && identObj(info, ie.X) == consP {
					return true
				}
				return false
			}
			for _, sl := range fc.loopsOver(func(e ast.Expr) bool { return identObj(info, e) == consP }) {
				var rangeVal types.Object
				if rs, ok := sl.Stmt.(*ast.RangeStmt); ok && rs.Value != nil {
					rangeVal = identObj(info, rs.Value)
				}
				for _, b := range fc.G.Blocks {
					cond := fc.CondOf(b)
					if !fc.Live(b) || cond == nil || len(b.Nodes) == 0 {
						continue
					}
					// the test sits in the loop body (a synthesized switch condition has no extent
					// of its own: the block's last node is its case expression)
					last := b.Nodes[len(b.Nodes)-1]
					if last.Pos() < sl.Body.Pos() || last.End() > sl.Body.End() {
						continue
					}
					for k := 0; k < 2; k++ {
						if !fc.edgeReturns(cfgEdge{b, k}, nil) {
							continue
						}
						for _, a := range impliedAtoms(cond, (1-k) == 0) {
							ce, ok := ast.Unparen(a.E).(*ast.CallExpr)
							if ok && a.Positive && originOf(Callee(info, ce)) == isVal && len(ce.Args) == 1 && isElem(rangeVal, ce.Args[0]) {
								loop, loopBlock = sl.Stmt, sl.Head
							}
						}
					}
				}
			}
			var obs []Obligation
			if loop == nil {
				obs = append(obs, mkOb(c, "SCHEMA.constraints-at-build", u, "validating loop", fd, Violated, "getHandler does not refuse a non-constraint in the constraint list when the type is built: (s:deftype \"T\" \"any\" (s:not (s:make-validator \"X\" s:int 5))) then approves every value", true))
			} else {
				obs = append(obs, mkOb(c, "SCHEMA.constraints-at-build", u, "validating loop", loop, Proved, "a loop over the constraint list returns an error for any element that is not a validator", true))
			}
			// every call passing the list on
			ord := &ordinal{}
			ctors := map[*types.Func]bool{}
			for _, b := range fc.G.Blocks {
				if !fc.Live(b) {
					continue
				}
				for _, n := range b.Nodes {
					for _, ce := range callsIn(n, false) {
						passes := false
						for _, a := range ce.Args {
							if identObj(info, a) == consP {
								passes = true
							}
						}
						callee := originOf(Callee(info, ce))
						if !passes || callee == nil {
							continue
						}
						ctors[callee] = true
						construct := ord.next("hands the list to " + shortName(callee))
						if loopBlock != nil && fc.BlockDominates(loopBlock, b) && b != loopBlock {
							obs = append(obs, mkOb(c, "SCHEMA.constraints-at-build", u, construct, ce, Proved, "dominated by the validating loop", true))
						} else {
							obs = append(obs, mkOb(c, "SCHEMA.constraints-at-build", u, construct, ce, Violated, "the constraint list reaches a handler constructor without having been validated", true))
						}
					}
				}
			}
			// the constructors have no other callers (besides each other and getHandler)
			for callee := range ctors {
				if callee == fn {
					continue
				}
				sites, refs := c.CallsTo(func(p string) bool { return rel(p) == "lisp/lisplib/libschema" }, callee)
				for _, s := range append(sites, refs...) {
					caller := s.Unit.Obj
					if caller == fn || ctors[caller] {
						continue
					}
					obs = append(obs, mkOb(c, "SCHEMA.constraints-at-build", s.Unit, "other caller of "+callee.Name(), s.Unit.Decl, Violated, "a handler constructor is called from outside getHandler: its constraint list bypasses the construction-time validation", true))
				}
			}
			return obs
		}})
}

func init() {
	register(&Rule{ID: "SCHEMA.success-not-error", Floor: 5,
		Doc: "every decision taken on the result of applyConstraint in libschema is a test of `.Type == LError` / `!= LError`: success is \"not an error\", not \"nil\" — a key constraint (s:has-key, s:may-have-key) returns the key's name on success (s:no-other-keys collects it), so an IsNil() test reads a successful nested key constraint as a failure",
		Run: func(c *Ctx) []Obligation {
			apply := c.LookupPkgFunc("lisp/lisplib/libschema.applyConstraint")
			isNil := c.LookupMethod("lisp.LVal.IsNil")
			typeFld := c.LookupField("lisp.LVal.Type")
			strFldS := c.LookupField("lisp.LVal.Str")
			if apply == nil || isNil == nil || typeFld == nil {
				return []Obligation{anchorMissing("SCHEMA.success-not-error", "libschema.applyConstraint / LVal.IsNil / LVal.Type")}
			}
			var obs []Obligation
			for _, u := range c.Funcs(func(p string) bool { return rel(p) == "lisp/lisplib/libschema" }) {
				info := u.Pkg.TypesInfo
				ord := &ordinal{}
				// locals holding an applyConstraint result
				res := map[types.Object]bool{}
				ast.Inspect(u.Decl.Body, func(n ast.Node) bool {
					if as, ok := n.(*ast.AssignStmt); ok && len(as.Lhs) == len(as.Rhs) {
						for i, r := range as.Rhs {
							if ce, ok := ast.Unparen(r).(*ast.CallExpr); ok && originOf(Callee(info, ce)) == apply {
								if o := identObj(info, as.Lhs[i]); o != nil {
									res[o] = true
								}
							}
						}
					}
					return true
				})
				isResult := func(e ast.Expr) bool {
					e = ast.Unparen(e)
					if ce, ok := e.(*ast.CallExpr); ok && originOf(Callee(info, ce)) == apply {
						return true
					}
					if o := identObj(info, e); o != nil && res[o] {
						return true
					}
					return false
				}
				ast.Inspect(u.Decl.Body, func(n ast.Node) bool {
					switch x := n.(type) {
					case *ast.CallExpr:
						if se, ok := ast.Unparen(x.Fun).(*ast.SelectorExpr); ok && originOf(Callee(info, x)) == isNil && isResult(se.X) {
							obs = append(obs, mkOb(c, "SCHEMA.success-not-error", u, ord.next("IsNil on a constraint result"), x, Violated,
								"the result of applyConstraint is tested with IsNil(): a nested key constraint that succeeded returns the key's name, which this reads as a failure ((s:has-key \"a\" (s:has-key \"b\" s:int)) can never match)", true))
						}
					case *ast.BinaryExpr:
						if (x.Op == token.EQL || x.Op == token.NEQ) && strFldS != nil && FieldOfSelector(info, x.X) == strFldS {
							if se, ok := ast.Unparen(x.X).(*ast.SelectorExpr); ok && isResult(se.X) {
								obs = append(obs, mkOb(c, "SCHEMA.success-not-error", u, ord.next("condition test on a constraint result"), x, Violated,
									"the decision depends on WHICH condition the inner constraint signalled (`"+types.ExprString(x)+"`): an inverting constraint (s:not, s:is-falsy) is then no longer the negation of its inner constraint for values the inner one refuses with another condition", true))
							}
						}
						if (x.Op == token.EQL || x.Op == token.NEQ) && FieldOfSelector(info, x.X) == typeFld {
							if se, ok := ast.Unparen(x.X).(*ast.SelectorExpr); ok && isResult(se.X) {
								if o, ok := identObjOrSel(info, x.Y).(*types.Const); ok && o.Name() == "LError" {
									obs = append(obs, mkOb(c, "SCHEMA.success-not-error", u, ord.next("error test on a constraint result"), x, Proved, "decides on Type "+x.Op.String()+" LError", false))
								} else if ok && o.Name() == "LString" {
									obs = append(obs, mkOb(c, "SCHEMA.success-not-error", u, ord.next("key-name test on a constraint result"), x, Proved, "reads the key name a successful key constraint returns (the other half of the protocol)", false))
								} else {
									obs = append(obs, mkOb(c, "SCHEMA.success-not-error", u, ord.next("type test on a constraint result"), x, Undecided, "the result of applyConstraint is compared with a type other than LError: `"+types.ExprString(x)+"`", true))
								}
							}
						}
					}
					return true
				})
			}
			return obs
		}})
}

func init() {
	register(&Rule{ID: "SCHEMA.build-errors", Floor: 10,
		Doc: "an error a libschema constructor raises while a schema is being BUILT (any ErrorConditionf in a registered s: builtin or its helpers that is not inside a validator closure) carries the bad-arguments condition; wrong-type and failed-constraint are raised only inside validator closures, i.e. when a value is being validated — so a handler for failed-constraint never reads a broken schema as invalid data",
		Run: func(c *Ctx) []Obligation {
			errc := c.LookupPkgFunc("lisp.ErrorConditionf")
			p := c.Pkg("lisp/lisplib/libschema")
			if errc == nil || p == nil {
				return []Obligation{anchorMissing("SCHEMA.build-errors", "lisp.ErrorConditionf / libschema")}
			}
			badArgs := p.Types.Scope().Lookup("BadArgs")
			if badArgs == nil {
				return []Obligation{anchorMissing("SCHEMA.build-errors", "libschema.BadArgs")}
			}
			mkVal := map[string]bool{"newValidator": true, "newNamedValidator": true, "NewValidator": true}
			var obs []Obligation
			inSchema := func(pp string) bool { return rel(pp) == "lisp/lisplib/libschema" }
			// validation-time helpers: unexported functions every one of whose call sites lies inside a
			// validator closure or inside another validation-time function (checkKeyType, matchesAny)
			allClosures := map[*ast.FuncLit]bool{}
			for _, u := range c.Funcs(inSchema) {
				info := u.Pkg.TypesInfo
				ast.Inspect(u.Decl.Body, func(n ast.Node) bool {
					if ce, ok := n.(*ast.CallExpr); ok {
						if fn := Callee(info, ce); fn != nil && mkVal[shortName(originOf(fn))] {
							for _, a := range ce.Args {
								if fl, ok := ast.Unparen(a).(*ast.FuncLit); ok {
									allClosures[fl] = true
								}
							}
						}
					}
					return true
				})
			}
			validationTime := map[*types.Func]bool{}
			// validation-time callbacks: a function-typed parameter that its function only ever
			// CALLS inside a validator closure (or hands to another such parameter) —
			// `numericConstraint(bound, holds, failure)` runs holds and failure when a value is
			// validated.  The literals, and the literals returned by the functions, passed for
			// such a parameter are validator closures too; a named function passed for one is
			// validation-time code.
			vtParams := map[types.Object]bool{}
			for round := 0; round < 4; round++ {
				grew := false
				for _, u := range c.Funcs(inSchema) {
					info := u.Pkg.TypesInfo
					for _, po := range paramObjs(u) {
						if vtParams[po] {
							continue
						}
						if _, isFn := po.Type().Underlying().(*types.Signature); !isFn {
							continue
						}
						nuse, good := 0, 0
						var stack []ast.Node
						ast.Inspect(u.Decl.Body, func(n ast.Node) bool {
							if n == nil {
								stack = stack[:len(stack)-1]
								return true
							}
							stack = append(stack, n)
							id, ok := n.(*ast.Ident)
							if !ok || info.Uses[id] != po {
								return true
							}
							nuse++
							inVal := false
							for _, a := range stack {
								if fl, ok := a.(*ast.FuncLit); ok && allClosures[fl] {
									inVal = true
								}
							}
							if len(stack) >= 2 {
								if ce, ok := stack[len(stack)-2].(*ast.CallExpr); ok {
									if ast.Unparen(ce.Fun) == ast.Expr(id) && inVal {
										good++
										return true
									}
									if h := originOf(Callee(info, ce)); h != nil {
										if hd := c.declOf[h]; hd != nil {
											hps := paramObjs(FuncUnit{h, hd, c.pkgOf[hd]})
											for j, a := range ce.Args {
												if ast.Unparen(a) == ast.Expr(id) && j < len(hps) && vtParams[hps[j]] {
													good++
													return true
												}
											}
										}
									}
								}
							}
							return true
						})
						if nuse > 0 && nuse == good {
							vtParams[po] = true
							grew = true
						}
					}
				}
				for _, u := range c.Funcs(inSchema) {
					info := u.Pkg.TypesInfo
					for _, ce := range callsIn(u.Decl.Body, true) {
						h := originOf(Callee(info, ce))
						hd := c.declOf[h]
						if h == nil || hd == nil {
							continue
						}
						hps := paramObjs(FuncUnit{h, hd, c.pkgOf[hd]})
						for j, a := range ce.Args {
							if j >= len(hps) || !vtParams[hps[j]] {
								continue
							}
							switch x := ast.Unparen(a).(type) {
							case *ast.FuncLit:
								if !allClosures[x] {
									allClosures[x] = true
									grew = true
								}
							case *ast.CallExpr:
								if g := originOf(Callee(info, x)); g != nil {
									if gd := c.declOf[g]; gd != nil && gd.Body != nil {
										for _, rs := range returnsOf(gd.Body) {
											for _, r := range rs.Results {
												if fl, ok := ast.Unparen(r).(*ast.FuncLit); ok && !allClosures[fl] {
													allClosures[fl] = true
													grew = true
												}
											}
										}
									}
								}
							case *ast.Ident:
								if g, ok := info.Uses[x].(*types.Func); ok && !validationTime[originOf(g)] {
									validationTime[originOf(g)] = true
									grew = true
								}
							}
						}
					}
				}
				if !grew {
					break
				}
			}
			for changed := true; changed; {
				changed = false
				for _, u := range c.Funcs(inSchema) {
					if validationTime[u.Obj] || u.Obj.Exported() {
						continue
					}
					sites, refs := c.CallsTo(inSchema, u.Obj)
					if len(refs) > 0 || len(sites) == 0 {
						continue
					}
					all := true
					for _, st := range sites {
						in := validationTime[st.Unit.Obj]
						for _, anc := range st.Stack {
							if fl, ok := anc.(*ast.FuncLit); ok && allClosures[fl] {
								in = true
							}
						}
						if !in {
							all = false
						}
					}
					if all {
						validationTime[u.Obj] = true
						changed = true
					}
				}
			}
			for _, u := range c.Funcs(inSchema) {
				info := u.Pkg.TypesInfo
				if validationTime[u.Obj] {
					continue
				}
				// validator closures: function literals passed to a validator constructor
				closures := map[*ast.FuncLit]bool{}
				ast.Inspect(u.Decl.Body, func(n ast.Node) bool {
					if ce, ok := n.(*ast.CallExpr); ok {
						if fn := Callee(info, ce); fn != nil && mkVal[shortName(originOf(fn))] {
							for _, a := range ce.Args {
								if fl, ok := ast.Unparen(a).(*ast.FuncLit); ok {
									closures[fl] = true
								}
							}
						}
					}
					return true
				})
				// functions that ARE validation-time code entirely: applyConstraint and helpers called from closures only
				if shortName(u.Obj) == "applyConstraint" || shortName(u.Obj) == "builtinValidate" {
					continue
				}
				ord := &ordinal{}
				var walk func(n ast.Node, inClosure bool)
				walk = func(n ast.Node, inClosure bool) {
					ast.Inspect(n, func(m ast.Node) bool {
						if fl, ok := m.(*ast.FuncLit); ok && m != n {
							walk(fl.Body, inClosure || closures[fl] || allClosures[fl])
							return false
						}
						ce, ok := m.(*ast.CallExpr)
						if !ok || originOf(Callee(info, ce)) != errc || len(ce.Args) < 1 {
							return true
						}
						cond := identObjOrSel(info, ce.Args[0])
						name := types.ExprString(ce.Args[0])
						if inClosure {
							return true
						}
						construct := ord.next("construction-time error")
						if cond == badArgs {
							obs = append(obs, mkOb(c, "SCHEMA.build-errors", u, construct, ce, Proved, "bad-arguments", false))
						} else {
							obs = append(obs, mkOb(c, "SCHEMA.build-errors", u, construct, ce, Violated, "a malformed schema is refused while it is built with condition `"+name+"` instead of bad-arguments: a handler for that condition around construction and validation reads a broken schema as invalid data", true))
						}
						return true
					})
				}
				walk(u.Decl.Body, false)
			}
			return obs
		}})
}

func init() {
	register(&Rule{ID: "SCHEMA.children-applied", Floor: 2,
		Doc: "a validator closure that applies a whole list of child constraints to its own input (the type handlers' shared tail, s:no-other-keys) reaches a success return only through that loop: no `return lisp.Nil()` comes before every child was applied — an early success (an `empty map` or `nothing to check` shortcut) would skip a required s:has-key or any other child constraint",
		Run: func(c *Ctx) []Obligation {
			apply := c.LookupPkgFunc("lisp/lisplib/libschema.applyConstraint")
			nilFn := c.LookupPkgFunc("lisp.Nil")
			if apply == nil || nilFn == nil {
				return []Obligation{anchorMissing("SCHEMA.children-applied", "libschema.applyConstraint / lisp.Nil")}
			}
			mkVal := map[string]bool{"newValidator": true, "newNamedValidator": true, "NewValidator": true}
			var obs []Obligation
			for _, u := range c.Funcs(func(p string) bool { return rel(p) == "lisp/lisplib/libschema" }) {
				info := u.Pkg.TypesInfo
				ord := &ordinal{}
				ast.Inspect(u.Decl.Body, func(n ast.Node) bool {
					ce, ok := n.(*ast.CallExpr)
					if !ok {
						return true
					}
					fn := Callee(info, ce)
					if fn == nil || !mkVal[shortName(originOf(fn))] {
						return true
					}
					for _, a := range ce.Args {
						lit, ok := ast.Unparen(a).(*ast.FuncLit)
						if !ok || lit.Type.Params == nil || len(lit.Type.Params.List) < 2 {
							continue
						}
						// the closure's input parameter: the last *LVal parameter
						var inputObj types.Object
						for _, f := range lit.Type.Params.List {
							for _, nm := range f.Names {
								if o := info.Defs[nm]; o != nil && isLValPtr(c, o.Type()) {
									inputObj = o
								}
							}
						}
						if inputObj == nil {
							continue
						}
						// a range over a slice captured from outside whose body applies each element to input
						var loop *ast.RangeStmt
						ast.Inspect(lit.Body, func(m ast.Node) bool {
							rs, ok := m.(*ast.RangeStmt)
							if !ok || rs.Value == nil {
								return true
							}
							so := identObj(info, rs.X)
							if so == nil || (so.Pos() >= lit.Pos() && so.Pos() <= lit.End()) {
								return true // not captured
							}
							elem := identObj(info, rs.Value)
							applies := false
							ast.Inspect(rs.Body, func(k ast.Node) bool {
								if ac, ok := k.(*ast.CallExpr); ok && originOf(Callee(info, ac)) == apply && len(ac.Args) == 3 {
									if identObj(info, ac.Args[1]) == elem && identObj(info, ac.Args[2]) == inputObj {
										applies = true
									}
								}
								return true
							})
							if applies {
								loop = rs
							}
							return true
						})
						if loop == nil {
							continue
						}
						fc := c.cfgOf(u, lit)
						var loopBlock *cfg.Block
						for _, b := range fc.G.Blocks {
							if b.Stmt == loop && b.Kind == cfg.KindRangeLoop && fc.Live(b) {
								loopBlock = b
							}
						}
						construct := ord.next("success returns of a list-applying validator")
						if loopBlock == nil {
							obs = append(obs, mkOb(c, "SCHEMA.children-applied", u, construct, lit, Undecided, "child loop not located in the closure's CFG", false))
							continue
						}
						bad := ""
						for _, b := range fc.G.Blocks {
							if !fc.Live(b) {
								continue
							}
							for _, nd := range b.Nodes {
								rs, ok := nd.(*ast.ReturnStmt)
								if !ok || len(rs.Results) != 1 {
									continue
								}
								rc, ok := ast.Unparen(rs.Results[0]).(*ast.CallExpr)
								if !ok || originOf(Callee(info, rc)) != nilFn {
									continue
								}
								if !fc.BlockDominates(loopBlock, b) {
									bad = c.Pos(rs.Pos())
								}
							}
						}
						if bad == "" {
							obs = append(obs, mkOb(c, "SCHEMA.children-applied", u, construct, loop, Proved, "every `return lisp.Nil()` is dominated by the loop that applies each child constraint to the input", true))
						} else {
							obs = append(obs, mkOb(c, "SCHEMA.children-applied", u, construct, loop, Violated, "the validator can return success ("+bad+") without having applied its child constraints to the input: a required key constraint nested in it is not enforced on that path", true))
						}
					}
					return true
				})
			}
			return obs
		}})
}

// SCHEMA.lookup-error-refused — C14 ("a malformed schema is refused when it is
// built, with bad-arguments; it never silently approves a value"): a type slot
// that names an unbound symbol is malformed.  The lookup's error must leave the
// constructor as an error.  Turning it into a constraint that is resolved
// later moves the refusal to validation time, where the combinators read it
// as data: s:when skips the clause, s:not approves every value.
func init() {
	register(&Rule{ID: "SCHEMA.lookup-error-refused", Floor: 1,
		Doc: "in libschema, a branch taken because a symbol lookup failed (`x := env.Get(sym)` … `x.Type == lisp.LError`) returns an error — x itself or an Errorf / ErrorConditionf construction — never a validator or another non-error value; and where the lookup result is not tested it flows on under the same variable so the type dispatch that follows refuses it",
		Run: func(c *Ctx) []Obligation {
			const rid = "SCHEMA.lookup-error-refused"
			get := c.LookupMethod("lisp.LEnv.Get")
			if get == nil {
				return []Obligation{anchorMissing(rid, "LEnv.Get")}
			}
			var obs []Obligation
			for _, u := range c.Funcs(func(p string) bool { return rel(p) == "lisp/lisplib/libschema" }) {
				if u.Decl == nil || u.Decl.Body == nil {
					continue
				}
				info := u.Pkg.TypesInfo
				// locals assigned from env.Get(...)
				looked := map[types.Object]bool{}
				ast.Inspect(u.Decl.Body, func(n ast.Node) bool {
					as, ok := n.(*ast.AssignStmt)
					if !ok || len(as.Lhs) != len(as.Rhs) {
						return true
					}
					for i, r := range as.Rhs {
						if ce, ok := ast.Unparen(r).(*ast.CallExpr); ok && originOf(Callee(info, ce)) == get {
							if o := identObj(info, as.Lhs[i]); o != nil {
								looked[o] = true
							}
						}
					}
					return true
				})
				if len(looked) == 0 {
					continue
				}
				ord := &ordinal{}
				ast.Inspect(u.Decl.Body, func(n ast.Node) bool {
					is, ok := n.(*ast.IfStmt)
					if !ok {
						return true
					}
					// condition implies X.Type == LError for a looked-up X
					var X types.Object
					for _, a := range impliedAtoms(is.Cond, true) {
						be, ok := ast.Unparen(a.E).(*ast.BinaryExpr)
						if !ok || !a.Positive || be.Op != token.EQL {
							continue
						}
						for _, pair := range [][2]ast.Expr{{be.X, be.Y}, {be.Y, be.X}} {
							se, ok := ast.Unparen(pair[0]).(*ast.SelectorExpr)
							if !ok || se.Sel.Name != "Type" || !looked[identObj(info, se.X)] {
								continue
							}
							if o := identObjOrSel(info, pair[1]); o != nil && o.Name() == "LError" {
								X = identObj(info, se.X)
							}
						}
					}
					if X == nil {
						return true
					}
					for _, st := range is.Body.List {
						rs, ok := st.(*ast.ReturnStmt)
						if !ok || len(rs.Results) == 0 {
							continue
						}
						construct := ord.next("return on failed lookup of " + X.Name())
						r := ast.Unparen(rs.Results[0])
						okRet := identObj(info, r) == X
						if ce, isCall := r.(*ast.CallExpr); isCall {
							if f := Callee(info, ce); f != nil && (strings.HasSuffix(f.Name(), "Errorf") || strings.HasSuffix(f.Name(), "Conditionf") || f.Name() == "Error") {
								okRet = true
							}
						}
						if okRet {
							obs = append(obs, mkOb(c, rid, u, construct, rs, Proved, "an error leaves the constructor", true))
						} else {
							obs = append(obs, mkOb(c, rid, u, construct, rs, Violated, "a failed symbol lookup is answered with `"+types.ExprString(r)+"`, not with an error: a schema naming an unbound type is accepted when it is built, and at validation time the failure is data to the combinators — an s:when guard on it skips its clause, s:not over it approves every value", true))
						}
					}
					return true
				})
				if len(ord.seen) == 0 {
					// untested lookup results: recorded so that the rule has a site (the dispatch that
					// follows is SCHEMA.build-errors' business)
					obs = append(obs, mkOb(c, rid, u, "lookup result flows on untested", u.Decl, Proved, "no branch converts a failed lookup into a non-error value", false))
				}
			}
			return obs
		}})
}

// SCHEMA.float-bound-positive — C14 ("a numeric bound accepts exactly the
// numbers on its side of the bound"): every ordering comparison with NaN is
// false.  A bound written "fail if the OPPOSITE relation holds" therefore
// accepts NaN — on both sides of the bound, and for (s:positive) and
// (s:negative) at once.  The failing branch of a float bound must be guarded by
// the NEGATION of the required relation (`!(x > bound)`), or NaN must be
// excluded explicitly.
func init() {
	register(&Rule{ID: "SCHEMA.float-bound-positive", Floor: 6,
		Doc: "in libschema every validator closure that decides on an ordering comparison of two float64 operands (s:gt, s:gte, s:lt, s:lte, s:positive, s:negative) reaches its failure return through the negation of a comparison — `if !(x OP bound) { fail }` — or after a math.IsNaN test of the operand: a value that compares false to everything (NaN) fails the bound instead of passing every bound",
		Run: func(c *Ctx) []Obligation {
			const rid = "SCHEMA.float-bound-positive"
			var obs []Obligation
			isF64 := func(info *types.Info, e ast.Expr) bool {
				tv, ok := info.Types[e]
				if !ok {
					return false
				}
				b, ok := tv.Type.Underlying().(*types.Basic)
				return ok && (b.Kind() == types.Float64 || b.Kind() == types.UntypedFloat || b.Kind() == types.UntypedInt)
			}
			for _, u := range c.Funcs(func(p string) bool { return rel(p) == "lisp/lisplib/libschema" }) {
				if u.Decl == nil || u.Decl.Body == nil {
					continue
				}
				info := u.Pkg.TypesInfo
				ord := &ordinal{}
				ast.Inspect(u.Decl.Body, func(n ast.Node) bool {
					lit, ok := n.(*ast.FuncLit)
					if !ok {
						return true
					}
					hasNaNTest := false
					for _, ce := range callsIn(lit.Body, false) {
						if stdFuncCalled(info, ce, "math", "IsNaN") {
							hasNaNTest = true
						}
					}
					ast.Inspect(lit.Body, func(m ast.Node) bool {
						is, ok := m.(*ast.IfStmt)
						if !ok || len(is.Body.List) == 0 {
							return true
						}
						ret, ok := is.Body.List[len(is.Body.List)-1].(*ast.ReturnStmt)
						if !ok || len(ret.Results) != 1 {
							return true
						}
						if ce, ok := ast.Unparen(ret.Results[0]).(*ast.CallExpr); !ok || (!strings.Contains(types.ExprString(ce.Fun), "ErrorCondition") && !isFuncParamCall(info, u, ce)) {
							return true
						}
						cond := ast.Unparen(is.Cond)
						negated := false
						if ue, ok := cond.(*ast.UnaryExpr); ok && ue.Op == token.NOT {
							negated = true
							cond = ast.Unparen(ue.X)
						}
						// the relation handed in as a function: `if !holds(value, bound) { return failure(…) }`
						if rc, ok := cond.(*ast.CallExpr); ok && isFuncParamCall(info, u, rc) && len(rc.Args) == 2 && isF64(info, rc.Args[0]) && isF64(info, rc.Args[1]) {
							po := identObj(info, rc.Fun)
							vals, resolved := c.funcParamValues(u, po, 0)
							if !resolved || len(vals) == 0 {
								obs = append(obs, mkOb(c, rid, u, ord.next("bound "+types.ExprString(is.Cond)), is, Undecided, "the relation is a function value that cannot be traced to the functions passed for it", true))
								return true
							}
							for _, fv := range vals {
								construct := ord.next("bound " + types.ExprString(is.Cond) + " with " + fv.name)
								switch {
								case !fv.ordering:
									obs = append(obs, mkOb(c, rid, u, construct, is, Undecided, "the function passed as the relation is not a single ordering comparison of its two operands", true))
								case negated:
									obs = append(obs, mkOb(c, rid, u, construct, is, Proved, "fails unless the relation "+fv.name+" holds (NaN fails)", true))
								case hasNaNTest:
									obs = append(obs, mkOb(c, rid, u, construct, is, Proved, "NaN is tested for explicitly in this validator", true))
								default:
									obs = append(obs, mkOb(c, rid, u, construct, is, Violated, "the validator fails when the relation "+fv.name+" holds and passes otherwise: NaN makes every comparison false, so it passes this bound and its opposite", true))
								}
							}
							return true
						}
						// the relations computed by an ordering helper: `if _, _, greater := numberOrder(input, bound, x, y);
						// !greater { fail }` / `!(less || equal)` — every result of the helper is a comparison of its
						// operands, so each flag is false for NaN exactly as the comparison written in place
						if as, ok := is.Init.(*ast.AssignStmt); ok && len(as.Rhs) == 1 {
							if hc, ok := ast.Unparen(as.Rhs[0]).(*ast.CallExpr); ok {
								h := originOf(Callee(info, hc))
								nf := 0
								for _, a := range hc.Args {
									if isF64(info, a) {
										nf++
									}
								}
								if h != nil && h.Pkg() == u.Obj.Pkg() && nf >= 2 && c.allResultsAreComparisons(h) {
									flags := map[types.Object]bool{}
									for _, l := range as.Lhs {
										if o := identObj(info, l); o != nil {
											flags[o] = true
										}
									}
									onlyFlags, nflag := true, 0
									var walk func(e ast.Expr)
									walk = func(e ast.Expr) {
										e = ast.Unparen(e)
										switch x := e.(type) {
										case *ast.BinaryExpr:
											if x.Op == token.LOR || x.Op == token.LAND {
												walk(x.X)
												walk(x.Y)
												return
											}
											onlyFlags = false
										case *ast.Ident:
											if flags[info.Uses[x]] {
												nflag++
											} else {
												onlyFlags = false
											}
										default:
											onlyFlags = false
										}
									}
									walk(cond)
									if onlyFlags && nflag > 0 {
										construct := ord.next("bound " + types.ExprString(is.Cond))
										switch {
										case negated:
											obs = append(obs, mkOb(c, rid, u, construct, is, Proved, "fails unless a relation computed by "+h.Name()+" holds (each is a comparison, false for NaN)", true))
										case hasNaNTest:
											obs = append(obs, mkOb(c, rid, u, construct, is, Proved, "NaN is tested for explicitly in this validator", true))
										default:
											obs = append(obs, mkOb(c, rid, u, construct, is, Violated, "the validator fails when `"+types.ExprString(is.Cond)+"` holds and passes otherwise: NaN makes every comparison false, so it passes this bound and its opposite", true))
										}
										return true
									}
								}
							}
						}
						be, ok := cond.(*ast.BinaryExpr)
						if !ok {
							return true
						}
						switch be.Op {
						case token.LSS, token.LEQ, token.GTR, token.GEQ:
						default:
							return true
						}
						if !isF64(info, be.X) || !isF64(info, be.Y) {
							return true
						}
						// at least one side must be a float64 variable (not both constants)
						tx, ty := info.Types[be.X], info.Types[be.Y]
						if tx.Value != nil && ty.Value != nil {
							return true
						}
						construct := ord.next("bound " + types.ExprString(is.Cond))
						switch {
						case negated:
							obs = append(obs, mkOb(c, rid, u, construct, is, Proved, "fails unless the relation holds (NaN fails)", true))
						case hasNaNTest:
							obs = append(obs, mkOb(c, rid, u, construct, is, Proved, "NaN is tested for explicitly in this validator", true))
						default:
							obs = append(obs, mkOb(c, rid, u, construct, is, Violated, "the validator fails when `"+types.ExprString(is.Cond)+"` holds and passes otherwise: NaN makes every comparison false, so it passes this bound and its opposite — (s:validate (s:make-validator \"n\" s:number (s:gt 10) (s:lt 0)) (/ 0.0 0.0)) is accepted", true))
						}
						return true
					})
					return false
				})
			}
			return obs
		}})

	// SCHEMA.typedef-tag-checked — C14 ("validate succeeds exactly when the value has
	// the declared type"): a validator made from a typedef declares THAT type.  A
	// tagged value of another type is not of the declared type even when what it
	// wraps would satisfy the constraints; the tag is the type.
	register(&Rule{ID: "SCHEMA.typedef-tag-checked", Floor: 1,
		Doc: "in builtinMakeValidator, when the first argument is a typedef, the validator that is returned compares the input's tag (LVal.Str of the tagged value) with the typedef's own name taken from its user data: (s:make-validator ta …) refuses (new tb …)",
		Run: func(c *Ctx) []Obligation {
			const rid = "SCHEMA.typedef-tag-checked"
			fn, fd, pkg := c.LookupFunc("lisp/lisplib/libschema.builtinMakeValidator")
			if fn == nil {
				return []Obligation{anchorMissing(rid, "libschema.builtinMakeValidator")}
			}
			u := FuncUnit{fn, fd, pkg}
			info := pkg.TypesInfo
			// locals that hold the typedef's name: assigned from an expression mentioning UserData()
			tagVars := map[types.Object]bool{}
			for pass := 0; pass < 4; pass++ {
				ast.Inspect(fd.Body, func(n ast.Node) bool {
					as, ok := n.(*ast.AssignStmt)
					if !ok || len(as.Lhs) != len(as.Rhs) {
						return true
					}
					for i, r := range as.Rhs {
						o := identObj(info, as.Lhs[i])
						if o == nil {
							continue
						}
						if strings.Contains(types.ExprString(r), "UserData()") {
							tagVars[o] = true
						}
						// … or from an expression that reads one of them (def := v.UserData(); name = def.Cells[0].Str)
						ast.Inspect(r, func(k ast.Node) bool {
							if id, ok := k.(*ast.Ident); ok && tagVars[info.Uses[id]] {
								tagVars[o] = true
							}
							return true
						})
					}
					return true
				})
			}
			found := ast.Node(nil)
			ast.Inspect(fd.Body, func(n ast.Node) bool {
				lit, ok := n.(*ast.FuncLit)
				if !ok || lit.Type.Params == nil {
					return true
				}
				params := map[types.Object]bool{}
				for _, f := range lit.Type.Params.List {
					for _, nm := range f.Names {
						params[info.Defs[nm]] = true
					}
				}
				ast.Inspect(lit.Body, func(m ast.Node) bool {
					be, ok := m.(*ast.BinaryExpr)
					if !ok || be.Op != token.EQL && be.Op != token.NEQ {
						return true
					}
					for _, pair := range [][2]ast.Expr{{be.X, be.Y}, {be.Y, be.X}} {
						se, ok := ast.Unparen(pair[0]).(*ast.SelectorExpr)
						if ok && se.Sel.Name == "Str" && params[identObj(info, se.X)] && tagVars[identObj(info, pair[1])] {
							found = be
						}
					}
					return true
				})
				return true
			})
			if found != nil {
				return []Obligation{mkOb(c, rid, u, "typedef validator", found, Proved, "the input's tag is compared with the typedef's name", true)}
			}
			return []Obligation{mkOb(c, rid, u, "typedef validator", fd, Violated, "the validator built from a typedef never looks at the input's tag: the typedef is used for the name in messages only, so (deftype ta (s) s) (deftype tb (s) s) (s:validate (s:make-validator ta s:string) (new tb \"x\")) accepts a value of a different type", true)}
		}})
}

// isFuncParamCall: ce calls a function-typed parameter of u (a callback).
func isFuncParamCall(info *types.Info, u FuncUnit, ce *ast.CallExpr) bool {
	o := identObj(info, ce.Fun)
	if o == nil {
		return false
	}
	if _, isFn := o.Type().Underlying().(*types.Signature); !isFn {
		return false
	}
	for _, p := range paramObjs(u) {
		if p == o {
			return true
		}
	}
	return false
}

type funcValue struct {
	name     string
	ordering bool // the body is `return a OP b` over its two parameters, OP an ordering comparison
}

// funcParamValues: every function the module passes for parameter po of u (through
// forwarding parameters of the callers, to depth 2); false when some call site passes
// anything but a declared function, a literal or its own such parameter, or when u's value
// is taken.
func (c *Ctx) funcParamValues(u FuncUnit, po types.Object, depth int) ([]funcValue, bool) {
	idx := -1
	for i, p := range paramObjs(u) {
		if p == po {
			idx = i
		}
	}
	if idx < 0 || depth > 2 {
		return nil, false
	}
	sites, refs := c.CallsTo(nil, u.Obj)
	if len(refs) > 0 || len(sites) == 0 {
		return nil, false
	}
	isOrdering := func(info *types.Info, ft *ast.FuncType, body *ast.BlockStmt) bool {
		if body == nil || len(body.List) != 1 {
			return false
		}
		rs, ok := body.List[0].(*ast.ReturnStmt)
		if !ok || len(rs.Results) != 1 {
			return false
		}
		be, ok := ast.Unparen(rs.Results[0]).(*ast.BinaryExpr)
		if !ok {
			return false
		}
		switch be.Op {
		case token.LSS, token.LEQ, token.GTR, token.GEQ:
		default:
			return false
		}
		var ps []types.Object
		if ft.Params != nil {
			for _, f := range ft.Params.List {
				for _, nm := range f.Names {
					ps = append(ps, info.Defs[nm])
				}
			}
		}
		if len(ps) != 2 {
			return false
		}
		x, y := identObj(info, be.X), identObj(info, be.Y)
		return (x == ps[0] && y == ps[1]) || (x == ps[1] && y == ps[0])
	}
	var out []funcValue
	seen := map[string]bool{}
	for _, s := range sites {
		if idx >= len(s.Call.Args) || s.Call.Ellipsis.IsValid() {
			return nil, false
		}
		info := s.Unit.Pkg.TypesInfo
		switch x := ast.Unparen(s.Call.Args[idx]).(type) {
		case *ast.FuncLit:
			nm := fmt.Sprintf("literal in %s", shortName(s.Unit.Obj))
			out = append(out, funcValue{nm, isOrdering(info, x.Type, x.Body)})
		case *ast.Ident:
			switch o := info.Uses[x].(type) {
			case *types.Func:
				fd := c.declOf[originOf(o)]
				if fd == nil {
					return nil, false
				}
				if !seen[o.Name()] {
					seen[o.Name()] = true
					out = append(out, funcValue{o.Name(), isOrdering(c.pkgOf[fd].TypesInfo, fd.Type, fd.Body)})
				}
			case *types.Var:
				vs, ok := c.funcParamValues(s.Unit, o, depth+1)
				if !ok {
					return nil, false
				}
				for _, v := range vs {
					if !seen[v.name] {
						seen[v.name] = true
						out = append(out, v)
					}
				}
			default:
				return nil, false
			}
		default:
			return nil, false
		}
	}
	return out, true
}

// allResultsAreComparisons: every return of the declared function h gives, in every result position, a
// comparison (< <= > >= == !=) of two operands — a helper that only computes relations.
func (c *Ctx) allResultsAreComparisons(h *types.Func) bool {
	hd := c.declOf[h]
	if hd == nil || hd.Body == nil {
		return false
	}
	rets := returnsOf(hd.Body)
	if len(rets) == 0 {
		return false
	}
	for _, rs := range rets {
		if len(rs.Results) == 0 {
			return false
		}
		for _, r := range rs.Results {
			be, ok := ast.Unparen(r).(*ast.BinaryExpr)
			if !ok {
				return false
			}
			switch be.Op {
			case token.LSS, token.LEQ, token.GTR, token.GEQ, token.EQL:
			default:
				return false
			}
		}
	}
	return true
}
