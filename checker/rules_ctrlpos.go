package main

import (
	"fmt"
	"go/ast"
	"go/types"
	"sort"
	"strings"
)

// ANALYZE.control-positions — C17 / C19 ("names resolved statically keep
// working"; "a call is reported only if evaluating it fails"): a special
// operator evaluates sub-forms at fixed places of a control list —
// (dotimes (var COUNT RESULT) body…).  The analyzer's handler for that operator
// must visit every such place the evaluator evaluates; a place it skips is code
// the tools never see: its references stay unresolved, the minifier renames
// the definition but not the call, and arity checks never look at it.
func init() {
	register(&Rule{ID: "ANALYZE.control-positions", Floor: 1,
		Doc: "for every special operator of the language that evaluates a sub-form found at a constant position inside one of its arguments (args.Cells[i].Cells[j], through any chain of locals), the analyzer's handler for that operator passes the form at the same position (node.Cells[i+1].Cells[j]) to analyzeExpr: every place the evaluator evaluates is a place the analysis visits",
		Run: func(c *Ctx) []Obligation {
			const rid = "ANALYZE.control-positions"
			analyze := c.LookupMethod("analysis.analyzer.analyzeExpr")
			terminal := c.LookupMethod("lisp.LEnv.Terminal")
			if analyze == nil {
				return []Obligation{anchorMissing(rid, "analysis.analyzer.analyzeExpr")}
			}
			evalLike := c.evalLikeSet()
			pathsOf := constPathsOf
			key := func(p []int) string {
				var s []string
				for _, k := range p {
					s = append(s, fmt.Sprint(k))
				}
				return strings.Join(s, ".")
			}
			var obs []Obligation
			// the analyzer's dispatch: single-string cases that hand `node` to one handler
			for _, u := range c.Funcs(func(p string) bool { return rel(p) == "analysis" }) {
				if u.Decl == nil || u.Decl.Body == nil {
					continue
				}
				info := u.Pkg.TypesInfo
				ast.Inspect(u.Decl.Body, func(n ast.Node) bool {
					cc, ok := n.(*ast.CaseClause)
					if !ok || len(cc.List) == 0 || len(cc.Body) == 0 {
						return true
					}
					// `case "dotimes", "dolist":` hands several operators of one shape to one handler
					for _, caseExpr := range cc.List {
					func() bool {
					opName, ok := constStringVal(info, caseExpr)
					if !ok {
						return true
					}
					var h *types.Func
					for _, ce := range callsIn(cc.Body[0], false) {
						if f := originOf(Callee(info, ce)); f != nil && f.Pkg() == u.Obj.Pkg() && strings.HasPrefix(f.Name(), "analyze") && f != analyze {
							h = f
						}
					}
					ent := c.RegistryByName("lisp", opName)
					if h == nil || ent == nil {
						return true
					}
					ebody, eu, elit, ok := c.BodyOf(*ent)
					if !ok || eu.Decl == nil {
						return true
					}
					einfo := eu.Pkg.TypesInfo
					argsP := argsParam(einfo, eu, elit)
					if argsP == nil {
						return true
					}
					// evaluator: control positions handed to Eval / Terminal
					evald := map[string]ast.Node{}
					for _, ce := range callsIn(ebody, false) {
						f := originOf(Callee(einfo, ce))
						if f == nil || !(evalLike[f] || f == terminal) {
							continue
						}
						for _, a := range ce.Args {
							for _, p := range pathsOf(einfo, ebody, a, argsP, 0) {
								if len(p) == 2 {
									evald[key(p)] = ce
								}
							}
						}
					}
					if len(evald) == 0 {
						return true
					}
					// analyzer handler: positions handed to analyzeExpr (node index = args index + 1)
					hd := c.declOf[h]
					if hd == nil || hd.Body == nil {
						return true
					}
					hu := FuncUnit{h, hd, c.pkgOf[hd]}
					hinfo := hu.Pkg.TypesInfo
					var nodeP types.Object
					for _, p := range paramObjs(hu) {
						if strings.HasSuffix(p.Type().String(), "lisp.LVal") && nodeP == nil && p.Name() != "" {
							if sig := h.Type().(*types.Signature); sig.Recv() == nil || sig.Recv() != p {
								nodeP = p
							}
						}
					}
					visited := map[string]bool{}
					for _, hh := range c.withHelpers(hu) {
						hi := hh.Pkg.TypesInfo
						_ = hi
					}
					for _, ce := range callsIn(hd.Body, true) {
						if originOf(Callee(hinfo, ce)) != analyze || len(ce.Args) == 0 {
							continue
						}
						for _, p := range pathsOf(hinfo, hd.Body, ce.Args[0], nodeP, 0) {
							if len(p) == 2 {
								visited[key([]int{p[0] - 1, p[1]})] = true
							}
						}
					}
					var ks []string
					for k := range evald {
						ks = append(ks, k)
					}
					sort.Strings(ks)
					for _, k := range ks {
						construct := opName + ": control position " + k
						if visited[k] {
							obs = append(obs, mkOb(c, rid, hu, construct, hd, Proved, "evaluated by "+eu.Name()+" and analysed by "+h.Name(), true))
						} else {
							obs = append(obs, mkOb(c, rid, hu, construct, hd, Violated, "the evaluator ("+eu.Name()+") evaluates the form at position "+k+" of its arguments, but "+h.Name()+" never passes that form to analyzeExpr: references inside it are invisible to the analysis (unresolved, not renamed with their definition by the minifier, never arity-checked)", true))
						}
					}
					return true
					}()
					}
					return true
				})
			}
			return obs
		}})
}
