package main

import (
	"go/ast"
	"go/constant"
	"go/token"
	"go/types"

	"golang.org/x/tools/go/cfg"
)

// FMT.comment-predicate-exhaustive (C16) — the formatter decides "may this form be rewritten to its
// shorthand / laid out on one line" with boolean predicates that answer whether the form carries comments
// the parent has to write (hasComments in front of the #' / #^ shorthand).  Answering `false` licenses a
// rewriting that has no place for a comment, so the predicate may say `false` only after it has looked at
// every child: each `return false` lies behind the exhausted loop over the children's comment fields.  A
// shortcut in front of the loop ("nothing starts a new line, so there is no comment") misses the comment
// that follows the last child, in front of the closing bracket.

func init() {
	register(&Rule{ID: "FMT.comment-predicate-exhaustive", Floor: 1,
		Doc: "in the formatter, a boolean predicate that loops over the children of a node reading their recorded comments (Meta.LeadingComments / Meta.TrailingComment inside a range over <node>.Cells) answers `false` only after that loop is exhausted — every `return false` is dominated by the loop's exit (or by a test that the node has no children): no shortcut in front of the loop declares a form comment-free on other evidence (layout, line breaks), because the rewriting that `false` licenses (#'x for (lisp:function x)) drops whatever comment the shortcut did not see",
		Run: func(c *Ctx) []Obligation {
			const rid = "FMT.comment-predicate-exhaustive"
			lead := c.LookupField("internal/fmtmeta.Meta.LeadingComments")
			trail := c.LookupField("internal/fmtmeta.Meta.TrailingComment")
			if lead == nil || trail == nil {
				return []Obligation{anchorMissing(rid, "the recorded comment fields LeadingComments / TrailingComment")}
			}
			var obs []Obligation
			for _, u := range c.Funcs(func(p string) bool { return rel(p) == "formatter" }) {
				if u.Decl == nil || u.Decl.Body == nil || u.Decl.Type.Results == nil || len(u.Decl.Type.Results.List) != 1 {
					continue
				}
				info := u.Pkg.TypesInfo
				if tv, ok := info.Types[u.Decl.Type.Results.List[0].Type]; !ok || !isBoolType(tv.Type) {
					continue
				}
				params := map[types.Object]bool{}
				for _, p := range paramObjs(u) {
					params[p] = true
				}
				// loops over <param>.Cells whose body reads a comment field
				var loops []*ast.RangeStmt
				ast.Inspect(u.Decl.Body, func(n ast.Node) bool {
					if _, isLit := n.(*ast.FuncLit); isLit {
						return false
					}
					rs, ok := n.(*ast.RangeStmt)
					if !ok {
						return true
					}
					se, ok := ast.Unparen(rs.X).(*ast.SelectorExpr)
					if !ok || se.Sel.Name != "Cells" || !params[identObj(info, se.X)] {
						return true
					}
					reads := false
					ast.Inspect(rs.Body, func(m ast.Node) bool {
						if s2, ok := m.(*ast.SelectorExpr); ok {
							if f := FieldOfSelector(info, s2); f != nil && (f == lead || f == trail) {
								reads = true
							}
						}
						return !reads
					})
					if reads {
						loops = append(loops, rs)
					}
					return true
				})
				if len(loops) == 0 {
					continue
				}
				fc := c.cfgOf(u, nil)
				var dones []*cfg.Block
				for _, b := range fc.G.Blocks {
					if !fc.Live(b) || b.Kind != cfg.KindRangeDone {
						continue
					}
					for _, l := range loops {
						if b.Stmt == l {
							dones = append(dones, b)
						}
					}
				}
				ord := &ordinal{}
				for _, b := range fc.G.Blocks {
					if !fc.Live(b) {
						continue
					}
					for _, n := range b.Nodes {
						rs, ok := n.(*ast.ReturnStmt)
						if !ok || len(rs.Results) != 1 {
							continue
						}
						tv, ok := info.Types[rs.Results[0]]
						if !ok || tv.Value == nil || tv.Value.Kind() != constant.Bool || constant.BoolVal(tv.Value) {
							continue
						}
						construct := ord.next("answer `no comments`")
						dominated := false
						for _, d := range dones {
							if d == b || fc.BlockDominates(d, b) {
								dominated = true
							}
						}
						if !dominated && noChildrenEdgeDominates(fc, info, b, params) {
							dominated = true
						}
						if dominated {
							obs = append(obs, mkOb(c, rid, u, construct, rs, Proved, "only after every child's recorded comments were looked at", true))
						} else {
							obs = append(obs, mkOb(c, rid, u, construct, rs, Violated, "the predicate can answer `no comments` before the loop over the children's recorded comments has run to its end: a comment the shortcut's evidence does not cover (the one after the last child, in front of the closing bracket) is dropped by the rewriting this answer licenses — (lisp:function f ; c\\n) becomes #'f", true))
						}
					}
				}
			}
			return obs
		}})
}

func isBoolType(t types.Type) bool {
	b, ok := t.Underlying().(*types.Basic)
	return ok && b.Kind() == types.Bool
}

// noChildrenEdgeDominates: b is dominated by an edge implying len(<param>.Cells) == 0.
func noChildrenEdgeDominates(fc *FCFG, info *types.Info, b *cfg.Block, params map[types.Object]bool) bool {
	for _, cb := range fc.G.Blocks {
		if !fc.Live(cb) || cb == b || fc.CondOf(cb) == nil {
			continue
		}
		for edge := 0; edge < 2; edge++ {
			if !fc.edgeDominates(cb, edge, b) {
				continue
			}
			for _, at := range impliedAtoms(fc.CondOf(cb), edge == 0) {
				be, ok := ast.Unparen(at.E).(*ast.BinaryExpr)
				if !ok {
					continue
				}
				isLenCells := func(e ast.Expr) bool {
					ce, ok := ast.Unparen(e).(*ast.CallExpr)
					if !ok || len(ce.Args) != 1 || types.ExprString(ce.Fun) != "len" {
						return false
					}
					se, ok := ast.Unparen(ce.Args[0]).(*ast.SelectorExpr)
					return ok && se.Sel.Name == "Cells" && params[identObj(info, se.X)]
				}
				if !isLenCells(be.X) {
					continue
				}
				k, ok := intConst(info, be.Y)
				if !ok || k != 0 {
					continue
				}
				if (be.Op == token.EQL && at.Positive) || (be.Op == token.NEQ && !at.Positive) || (be.Op == token.GTR && !at.Positive) {
					return true
				}
			}
		}
	}
	return false
}

