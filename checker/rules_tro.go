package main

import (
	"fmt"
	"go/ast"
	"go/token"
	"go/types"
	"strings"

	"golang.org/x/tools/go/cfg"
)

// E8 path rules for the tail-call protocol (C02) and the limit checks (C04).

// storesOf returns the census writes of a field that are plain assignments.
func storesOf(c *Ctx, field string) ([]FieldWrite, *types.Var) {
	fld := c.LookupField(field)
	if fld == nil {
		return nil, nil
	}
	var out []FieldWrite
	for _, w := range c.expandSetterWrites(c.censusFor(nil).WritersOf(fld), 0) {
		if w.Kind == "assign" {
			out = append(out, w)
		}
	}
	return out, fld
}

// evalCallsIn lists calls to evaluator funnels in the body of u (not inside
// function literals), with their CFG locations.
type locatedCall struct {
	Call   *ast.CallExpr
	Callee *types.Func
	Loc    Loc
}

func evalCallsIn(c *Ctx, u FuncUnit, fc *FCFG) []locatedCall {
	ev := c.evalLikeSet()
	var out []locatedCall
	for _, b := range fc.G.Blocks {
		if !fc.Live(b) {
			continue
		}
		for i, n := range b.Nodes {
			for _, ce := range callsIn(n, false) {
				if fn := originOf(Callee(u.Pkg.TypesInfo, ce)); fn != nil && ev[fn] {
					out = append(out, locatedCall{ce, fn, Loc{b, i}})
				}
			}
		}
	}
	return out
}

// staticReach computes the set of declared functions in keep-packages that
// have a chain of static calls to target.
func (c *Ctx) staticReach(keep func(string) bool, target *types.Func) map[*types.Func]bool {
	callees := map[*types.Func][]*types.Func{}
	for _, u := range c.Funcs(keep) {
		for _, ce := range callsIn(u.Decl.Body, true) {
			if fn := originOf(Callee(u.Pkg.TypesInfo, ce)); fn != nil {
				callees[u.Obj] = append(callees[u.Obj], fn)
			}
		}
	}
	reach := map[*types.Func]bool{target: true}
	changed := true
	for changed {
		changed = false
		for f, cs := range callees {
			if reach[f] {
				continue
			}
			for _, g := range cs {
				if reach[g] {
					reach[f] = true
					changed = true
					break
				}
			}
		}
	}
	delete(reach, target)
	return reach
}

// sccs of live CFG blocks (Tarjan); returns only non-trivial components
// (size > 1 or a self loop).
func (f *FCFG) cyclicSCCs(skip func(*cfg.Block) bool) [][]*cfg.Block {
	index := map[*cfg.Block]int{}
	low := map[*cfg.Block]int{}
	on := map[*cfg.Block]bool{}
	var stack []*cfg.Block
	var out [][]*cfg.Block
	n := 0
	var strong func(b *cfg.Block)
	strong = func(b *cfg.Block) {
		index[b], low[b] = n, n
		n++
		stack = append(stack, b)
		on[b] = true
		for _, s := range b.Succs {
			if skip != nil && skip(s) {
				continue
			}
			if _, seen := index[s]; !seen {
				strong(s)
				if low[s] < low[b] {
					low[b] = low[s]
				}
			} else if on[s] && index[s] < low[b] {
				low[b] = index[s]
			}
		}
		if low[b] == index[b] {
			var comp []*cfg.Block
			for {
				x := stack[len(stack)-1]
				stack = stack[:len(stack)-1]
				on[x] = false
				comp = append(comp, x)
				if x == b {
					break
				}
			}
			self := false
			for _, s := range b.Succs {
				if s == b {
					self = true
				}
			}
			if len(comp) > 1 || self {
				out = append(out, comp)
			}
		}
	}
	for _, b := range f.G.Blocks {
		if !f.Live(b) || (skip != nil && skip(b)) {
			continue
		}
		if _, seen := index[b]; !seen {
			strong(b)
		}
	}
	return out
}

func init() {
	register(&Rule{ID: "TRO.block-first", Floor: 6,
		Doc: "each TROBlock store writes the constant true and dominates every evaluator call of its function (no evaluation can run in a never-collapse frame before it is blocked)",
		Run: func(c *Ctx) []Obligation {
			ws, fld := storesOf(c, "lisp.CallFrame.TROBlock")
			if fld == nil {
				return []Obligation{anchorMissing("TRO.block-first", "CallFrame.TROBlock")}
			}
			var obs []Obligation
			for _, w := range ws {
				info := w.Unit.Pkg.TypesInfo
				construct := "store TROBlock"
				if w.Lit != nil {
					obs = append(obs, mkOb(c, "TRO.block-first", w.Unit, construct, w.Node, Undecided, "store inside a function literal", false))
					continue
				}
				if !isBoolConst(info, w.RHS, true) {
					obs = append(obs, mkOb(c, "TRO.block-first", w.Unit, construct, w.Node, Violated, "TROBlock is set to something other than the constant true", true))
					continue
				}
				fc := c.cfgOf(w.Unit, nil)
				loc, ok := fc.Locate(w.Node)
				if !ok {
					obs = append(obs, mkOb(c, "TRO.block-first", w.Unit, construct, w.Node, Undecided, "store not locatable", false))
					continue
				}
				calls := evalCallsIn(c, w.Unit, fc)
				bad := ""
				for _, ec := range calls {
					if !fc.Dominates(loc, ec.Loc) || (loc.B == ec.Loc.B && loc.I == ec.Loc.I) {
						bad = ec.Callee.Name() + " at " + c.Pos(ec.Call.Pos())
						break
					}
				}
				if len(calls) == 0 {
					obs = append(obs, mkOb(c, "TRO.block-first", w.Unit, construct, w.Node, Undecided, "no evaluator call found after the store (role of this setter unclear)", false))
				} else if bad != "" {
					obs = append(obs, mkOb(c, "TRO.block-first", w.Unit, construct, w.Node, Violated, "evaluator call "+bad+" is not dominated by the TROBlock store", true))
				} else {
					obs = append(obs, mkOb(c, "TRO.block-first", w.Unit, construct, w.Node, Proved, "store of true dominates all evaluator calls in the function", true))
				}
			}
			return obs
		}})

	register(&Rule{ID: "TRO.blocked-never-terminal", Floor: 6,
		Doc: "a function that sets TROBlock has no static call chain to (*LEnv).Terminal (it can never hand back a terminal expression from a never-collapse frame)",
		Run: func(c *Ctx) []Obligation {
			ws, fld := storesOf(c, "lisp.CallFrame.TROBlock")
			term := c.LookupMethod("lisp.LEnv.Terminal")
			if fld == nil || term == nil {
				return []Obligation{anchorMissing("TRO.blocked-never-terminal", "CallFrame.TROBlock / LEnv.Terminal")}
			}
			reach := c.staticReach(func(p string) bool { return rel(p) == "lisp" }, term)
			var obs []Obligation
			seen := map[string]bool{}
			for _, w := range ws {
				if seen[w.Unit.Name()] {
					continue
				}
				seen[w.Unit.Name()] = true
				if reach[w.Unit.Obj] {
					obs = append(obs, mkOb(c, "TRO.blocked-never-terminal", w.Unit, "TROBlock setter", w.Node, Violated, "function sets TROBlock and can statically reach (*LEnv).Terminal: TerminalFID would meet a terminal, blocked frame", true))
				} else {
					obs = append(obs, mkOb(c, "TRO.blocked-never-terminal", w.Unit, "TROBlock setter", w.Node, Proved, "no static call chain to (*LEnv).Terminal", true))
				}
			}
			return obs
		}})

	register(&Rule{ID: "TRO.terminal-then-tail", Floor: 4,
		Doc: "after a store of true to CallFrame.Terminal, every evaluator call reachable in the function is the operand of a return statement (the frame returns that value verbatim)",
		Run: func(c *Ctx) []Obligation {
			ws, fld := storesOf(c, "lisp.CallFrame.Terminal")
			if fld == nil {
				return []Obligation{anchorMissing("TRO.terminal-then-tail", "CallFrame.Terminal")}
			}
			var obs []Obligation
			ord := map[string]*ordinal{}
			for _, w := range ws {
				info := w.Unit.Pkg.TypesInfo
				if !isBoolConst(info, w.RHS, true) {
					continue
				}
				if w.Lit != nil && isDeferredLit(w.Unit.Decl, w.Lit) {
					continue // the deferred restore in evalSExprCells (PAIR.terminal-reset)
				}
				name := w.Unit.Name()
				if ord[name] == nil {
					ord[name] = &ordinal{}
				}
				construct := ord[name].next("store Terminal=true")
				if w.Lit != nil {
					obs = append(obs, mkOb(c, "TRO.terminal-then-tail", w.Unit, construct, w.Node, Undecided, "store inside a non-deferred function literal", false))
					continue
				}
				fc := c.cfgOf(w.Unit, nil)
				loc, ok := fc.Locate(w.Node)
				if !ok {
					obs = append(obs, mkOb(c, "TRO.terminal-then-tail", w.Unit, construct, w.Node, Undecided, "store not locatable", false))
					continue
				}
				ev := c.evalLikeSet()
				bad := ""
				ntail := 0
				visit := func(l Loc, n ast.Node) searchVerdict {
					for _, ce := range callsIn(n, false) {
						fn := originOf(Callee(info, ce))
						if fn == nil || !ev[fn] {
							continue
						}
						rs, isRet := n.(*ast.ReturnStmt)
						if isRet && len(rs.Results) == 1 && ast.Unparen(rs.Results[0]) == ce {
							ntail++
							continue
						}
						bad = fn.Name() + " at " + c.Pos(ce.Pos())
						return svBad
					}
					if _, isRet := n.(*ast.ReturnStmt); isRet {
						return svStop
					}
					return svContinue
				}
				_, isBad := fc.ForwardSearch(loc, visit, nil, nil)
				if isBad {
					obs = append(obs, mkOb(c, "TRO.terminal-then-tail", w.Unit, construct, w.Node, Violated, "non-tail evaluator call "+bad+" runs while the frame is marked terminal", true))
				} else if ntail == 0 {
					obs = append(obs, mkOb(c, "TRO.terminal-then-tail", w.Unit, construct, w.Node, Violated, "frame marked terminal but no tail evaluator call follows", true))
				} else {
					obs = append(obs, mkOb(c, "TRO.terminal-then-tail", w.Unit, construct, w.Node, Proved, "all evaluator calls after the store are returned verbatim", true))
				}
			}
			return obs
		}})

	register(&Rule{ID: "TRO.debugger-gate", Floor: 1,
		Doc: "every call of CallStack.TerminalFID is control-dependent on `Runtime.Debugger == nil`",
		Run: func(c *Ctx) []Obligation {
			tf := c.LookupMethod("lisp.CallStack.TerminalFID")
			dbg := c.LookupField("lisp.Runtime.Debugger")
			if tf == nil || dbg == nil {
				return []Obligation{anchorMissing("TRO.debugger-gate", "CallStack.TerminalFID / Runtime.Debugger")}
			}
			sites, _ := c.CallsTo(nil, tf)
			var obs []Obligation
			for _, s := range sites {
				info := s.Unit.Pkg.TypesInfo
				fc := c.cfgOf(s.Unit, s.Lit)
				loc, ok := fc.Locate(s.Call)
				if !ok {
					obs = append(obs, mkOb(c, "TRO.debugger-gate", s.Unit, "call TerminalFID", s.Call, Undecided, "not locatable", false))
					continue
				}
				nilDbg := fc.edgesImplying(func(a LitAtom) bool {
					be, isBin := ast.Unparen(a.E).(*ast.BinaryExpr)
					if !isBin || (be.Op != token.EQL && be.Op != token.NEQ) {
						return false
					}
					var side ast.Expr
					if isNilIdent(info, be.Y) {
						side = be.X
					} else if isNilIdent(info, be.X) {
						side = be.Y
					}
					if side == nil || FieldOfSelector(info, side) != dbg {
						return false
					}
					return (be.Op == token.EQL) == a.Positive
				})
				gated := len(nilDbg) > 0 && !fc.reachableAvoiding(loc.B, nilDbg)
				if gated {
					obs = append(obs, mkOb(c, "TRO.debugger-gate", s.Unit, "call TerminalFID", s.Call, Proved, "reachable only through the `Debugger == nil` edge", true))
				} else {
					obs = append(obs, mkOb(c, "TRO.debugger-gate", s.Unit, "call TerminalFID", s.Call, Violated, "tail-call recognition is not gated on the absence of a debugger", true))
				}
			}
			return obs
		}})

	register(&Rule{ID: "TRO.target-is-lisp-function", Floor: 1,
		Doc: "every call of CallStack.TerminalFID — the recognition of a tail call, whose answer makes the caller unwind to an earlier frame of the same function and re-invoke it THERE — is reachable only over an edge entailing that the callee is not a builtin (`fun.Builtin() == nil`): call() gives a lisp function its own package and scope wherever it is re-invoked, a builtin runs in the package and environment current at its invocation, so a builtin re-invoked at an outer frame (funcall / apply handed a SYMBOL in tail position of a function reached through funcall) resolves the symbol in the outer caller's package and the program's value depends on whether elimination happened",
		Run: func(c *Ctx) []Obligation {
			const rid = "TRO.target-is-lisp-function"
			tf := c.LookupMethod("lisp.CallStack.TerminalFID")
			bm := c.LookupMethod("lisp.LVal.Builtin")
			if tf == nil || bm == nil {
				return []Obligation{anchorMissing(rid, "CallStack.TerminalFID / LVal.Builtin")}
			}
			sites, _ := c.CallsTo(nil, tf)
			var obs []Obligation
			for _, s := range sites {
				info := s.Unit.Pkg.TypesInfo
				fc := c.cfgOf(s.Unit, s.Lit)
				loc, ok := fc.Locate(s.Call)
				if !ok {
					obs = append(obs, mkOb(c, rid, s.Unit, "call TerminalFID", s.Call, Undecided, "not locatable", false))
					continue
				}
				notBuiltin := fc.edgesImplying(func(a LitAtom) bool {
					be, isBin := ast.Unparen(a.E).(*ast.BinaryExpr)
					if !isBin || (be.Op != token.EQL && be.Op != token.NEQ) {
						return false
					}
					var side ast.Expr
					if isNilIdent(info, be.Y) {
						side = be.X
					} else if isNilIdent(info, be.X) {
						side = be.Y
					}
					if side == nil {
						return false
					}
					ce, isCall := ast.Unparen(side).(*ast.CallExpr)
					if !isCall || originOf(Callee(info, ce)) != bm {
						// a local defined once as X.Builtin()
						d := soleDef(info, s.Unit.Decl.Body, side)
						if d == nil {
							return false
						}
						ce, isCall = ast.Unparen(d).(*ast.CallExpr)
						if !isCall || originOf(Callee(info, ce)) != bm {
							return false
						}
					}
					return (be.Op == token.EQL) == a.Positive
				})
				if len(notBuiltin) > 0 && !fc.reachableAvoiding(loc.B, notBuiltin) {
					obs = append(obs, mkOb(c, rid, s.Unit, "call TerminalFID", s.Call, Proved, "reachable only through the `Builtin() == nil` edge: only lisp functions are tail-call targets", true))
				} else {
					obs = append(obs, mkOb(c, rid, s.Unit, "call TerminalFID", s.Call, Violated, "a builtin can be recognised as the target of a tail call and re-invoked at an outer frame, in the outer caller's package: (in-package 'a) (defun helper (x) (list 'a-helper x)) (defun f (x) (funcall 'helper x)) (in-package 'user) (defun helper (x) (list 'user-helper x)) (funcall 'a:f 1) answers '('user-helper 1) with elimination and '('a-helper 1) without", true))
				}
			}
			return obs
		}})

	register(&Rule{ID: "TRO.mark-consumed", Floor: 2,
		Doc: "in the two call loops a finished tail-recursion mark re-enters the loop only after CheckTailCall and checkLimits were called and their errors returned",
		Run: func(c *Ctx) []Obligation {
			var obs []Obligation
			dec := c.LookupPkgFunc("lisp.decrementMarkTailRec")
			ctc := c.LookupMethod("lisp.CallStack.CheckTailCall")
			cl := c.LookupMethod("lisp.LEnv.checkLimits")
			call := c.LookupMethod("lisp.LEnv.call")
			if dec == nil || ctc == nil || cl == nil || call == nil {
				return []Obligation{anchorMissing("TRO.mark-consumed", "decrementMarkTailRec/CheckTailCall/checkLimits/call")}
			}
			for _, fname := range []string{"lisp.(*LEnv).funCall", "lisp.(*LEnv).specialOpCall"} {
				fn, fd, pkg := c.LookupFunc(fname)
				if fn == nil {
					obs = append(obs, anchorMissing("TRO.mark-consumed", fname))
					continue
				}
				u := FuncUnit{fn, fd, pkg}
				fc := c.cfgOf(u, nil)
				var hasCall func(b *cfg.Block, target *types.Func) bool
				hasCall = func(b *cfg.Block, target *types.Func) bool {
					callsTarget := func(info *types.Info, n ast.Node) bool {
						for _, ce := range callsIn(n, false) {
							if originOf(Callee(info, ce)) == target {
								return true
							}
						}
						return false
					}
					for _, n := range b.Nodes {
						// directly, or through a helper every non-error path of which makes the call
						if c.nodeMust(pkg.TypesInfo, pkg.Types, n, callsTarget) {
							return true
						}
					}
					return false
				}
				// flagGuaranteed: b is entered only over the true edge of `if <flag>` where <flag> is a boolean
				// result of a helper of the package — `reenter, lerr := env.unwindTailRec(ctx, r)` — and the
				// helper hands back anything but the constant false in that position only after a node
				// accepted by pred: what the helper did before saying `go on` was done on this path
				flagGuaranteed := func(b *cfg.Block, pred func(info *types.Info, n ast.Node) bool) bool {
					info := pkg.TypesInfo
					for _, pb := range fc.G.Blocks {
						if !fc.Live(pb) || len(pb.Succs) != 2 || pb.Succs[0] != b {
							continue
						}
						cond := fc.CondOf(pb)
						if cond == nil {
							continue
						}
						flag := identObj(info, ast.Unparen(cond))
						if flag == nil {
							continue
						}
						dc, idx, ndef := definingCall(info, fd.Body, flag)
						if dc == nil || ndef != 1 {
							continue
						}
						h := originOf(Callee(info, dc))
						hd := c.declOf[h]
						if h == nil || hd == nil || hd.Body == nil || h.Pkg() != fn.Pkg() {
							continue
						}
						hu := FuncUnit{h, hd, c.pkgOf[hd]}
						hinfo := hu.Pkg.TypesInfo
						hfc := c.cfgOf(hu, nil)
						through := hfc.blocksWith(func(n ast.Node) bool { return c.nodeMust(hinfo, hu.Pkg.Types, n, pred) })
						if len(through) == 0 {
							continue
						}
						good, ntrue := true, 0
						for _, hb := range hfc.G.Blocks {
							if !hfc.Live(hb) {
								continue
							}
							for _, nd := range hb.Nodes {
								rs, ok := nd.(*ast.ReturnStmt)
								if !ok {
									continue
								}
								if idx >= len(rs.Results) {
									good = false // bare return of named results: not followed
									continue
								}
								if isBoolConst(hinfo, rs.Results[idx], false) {
									continue
								}
								ntrue++
								if !through[hb] && hfc.reachableFromAvoidingBlocks(hfc.G.Blocks[0], hb, through) {
									good = false
								}
							}
						}
						if good && ntrue > 0 {
							return true
						}
					}
					return false
				}
				hasCall0 := hasCall
				hasCall = func(b *cfg.Block, target *types.Func) bool {
					if hasCall0(b, target) {
						return true
					}
					if target == call {
						return false
					}
					return flagGuaranteed(b, func(info *types.Info, n ast.Node) bool {
						for _, ce := range callsIn(n, false) {
							if originOf(Callee(info, ce)) == target {
								return true
							}
						}
						return false
					})
				}
				// cycles through the block calling env.call
				cyc := fc.cyclicSCCs(nil)
				found := false
				for _, comp := range cyc {
					in := false
					for _, b := range comp {
						if hasCall(b, call) {
							in = true
						}
					}
					if !in {
						continue
					}
					found = true
					// the reused frame must be reset to non-terminal on every turn
					termFld := c.LookupField("lisp.CallFrame.Terminal")
					storesFalse := func(info *types.Info, n ast.Node) bool {
						as, ok := n.(*ast.AssignStmt)
						return ok && len(as.Lhs) == 1 && len(as.Rhs) == 1 && termFld != nil && FieldOfSelector(info, as.Lhs[0]) == termFld && isBoolConst(info, as.Rhs[0], false)
					}
					resets := fc.blocksWith(func(n ast.Node) bool {
						return c.nodeMust(pkg.TypesInfo, pkg.Types, n, storesFalse)
					})
					for _, b := range fc.G.Blocks {
						if fc.Live(b) && !resets[b] && flagGuaranteed(b, storesFalse) {
							resets[b] = true
						}
					}
					{
						rest := fc.cyclicSCCs(func(b *cfg.Block) bool { return resets[b] })
						still := false
						for _, comp2 := range rest {
							for _, b := range comp2 {
								if hasCall(b, call) {
									still = true
								}
							}
						}
						if still {
							obs = append(obs, mkOb(c, "TRO.mark-consumed", u, "tail loop resets Terminal", fd, Violated, "the frame reused by a tail call keeps its Terminal flag: a call from a non-final body form of the next iteration is mistaken for a tail call and its mark is discarded", true))
						} else {
							obs = append(obs, mkOb(c, "TRO.mark-consumed", u, "tail loop resets Terminal", fd, Proved, "every cycle through env.call stores Terminal=false on the reused frame", true))
						}
					}
					for _, req := range []*types.Func{dec, ctc, cl} {
						rest := fc.cyclicSCCs(func(b *cfg.Block) bool { return hasCall(b, req) })
						still := false
						for _, comp2 := range rest {
							for _, b := range comp2 {
								if hasCall(b, call) {
									still = true
								}
							}
						}
						construct := "tail loop passes " + req.Name()
						if still {
							obs = append(obs, mkOb(c, "TRO.mark-consumed", u, construct, fd, Violated, "a cycle through env.call exists that does not pass "+req.Name(), true))
						} else {
							obs = append(obs, mkOb(c, "TRO.mark-consumed", u, construct, fd, Proved, "removing the blocks that call "+req.Name()+" breaks every cycle through env.call", true))
						}
					}
				}
				if !found {
					obs = append(obs, mkOb(c, "TRO.mark-consumed", u, "tail loop", fd, Undecided, "no CFG cycle through env.call found: the tail loop has changed shape", false))
				}
			}
			return obs
		}})
}

func isNilIdent(info *types.Info, e ast.Expr) bool {
	id, ok := ast.Unparen(e).(*ast.Ident)
	if !ok {
		return false
	}
	_, isNil := info.Uses[id].(*types.Nil)
	return isNil
}

// edgeDominates: every path from entry to target goes through edge b->Succs[k].
func (f *FCFG) edgeDominates(b *cfg.Block, k int, target *cfg.Block) bool {
	if len(b.Succs) <= k {
		return false
	}
	// target must be unreachable from entry when the edge is removed
	seen := map[*cfg.Block]bool{}
	var dfs func(x *cfg.Block) bool
	dfs = func(x *cfg.Block) bool {
		if x == target {
			return true
		}
		seen[x] = true
		for i, s := range x.Succs {
			if x == b && i == k {
				continue
			}
			if !seen[s] && dfs(s) {
				return true
			}
		}
		return false
	}
	if len(f.G.Blocks) == 0 {
		return false
	}
	return !dfs(f.G.Blocks[0])
}

func init() {
	register(&Rule{ID: "TRO.tail-forwarders", Floor: 12,
		Doc: "the constructs documented as preserving tail position hand their last expression on instead of evaluating it: funcall/apply return an evaluator call only after marking the frame terminal; if, cond, progn, let, let*, flet, labels, macrolet, or, thread-first, thread-last and dotimes never return the result of an evaluator call but reach (*LEnv).Terminal",
		Run: func(c *Ctx) []Obligation {
			term := c.LookupMethod("lisp.LEnv.Terminal")
			termFld := c.LookupField("lisp.CallFrame.Terminal")
			if term == nil || termFld == nil {
				return []Obligation{anchorMissing("TRO.tail-forwarders", "LEnv.Terminal / CallFrame.Terminal")}
			}
			reach := c.staticReach(func(p string) bool { return rel(p) == "lisp" }, term)
			ev := c.evalLikeSet()
			var obs []Obligation
			byFlag := map[string]bool{"funcall": true, "apply": true}
			byMark := map[string]bool{"if": true, "cond": true, "progn": true, "let": true, "let*": true, "flet": true, "labels": true,
				"macrolet": true, "or": true, "thread-first": true, "thread-last": true, "dotimes": true}
			for _, e := range c.Registry() {
				if rel(e.Pkg.PkgPath) != "lisp" || (!byFlag[e.Name] && !byMark[e.Name]) {
					continue
				}
				body, u, lit, ok := c.BodyOf(e)
				if !ok {
					obs = append(obs, Obligation{Rule: "TRO.tail-forwarders", Func: "lisp." + e.Table, Construct: "construct " + e.Name, Verdict: Undecided, Detail: "no body"})
					continue
				}
				bad := ""
				nret := 0
				// checkBody judges the returns of one body; a return that hands back the result of a
				// same-package helper (funcall and apply sharing `terminalFunCall`) is judged in the helper
				var checkBody func(u FuncUnit, lit *ast.FuncLit, body ast.Node, depth int)
				checkBody = func(u FuncUnit, lit *ast.FuncLit, body ast.Node, depth int) {
					info := u.Pkg.TypesInfo
					fc := c.cfgOf(u, lit)
					stores := fc.blocksWith(func(n ast.Node) bool {
						rhs, rinfo, ok := c.storeNodeOf(info, n, termFld)
						return ok && isBoolConst(rinfo, rhs, true)
					})
					ast.Inspect(body, func(n ast.Node) bool {
						if _, isLit := n.(*ast.FuncLit); isLit {
							return false
						}
						rs, ok := n.(*ast.ReturnStmt)
						if !ok || len(rs.Results) != 1 {
							return true
						}
						ce, ok := ast.Unparen(rs.Results[0]).(*ast.CallExpr)
						if !ok {
							return true
						}
						fn := originOf(Callee(info, ce))
						if fn == nil {
							return true
						}
						loc, found := fc.Locate(rs)
						marked := found && len(stores) > 0 && (stores[loc.B] || !fc.reachableAvoidingBlocks(loc.B, nil, stores))
						if !ev[fn] {
							if byFlag[e.Name] && depth < 2 && !marked && fn.Pkg() == u.Obj.Pkg() {
								if hd := c.declOf[fn]; hd != nil && hd.Body != nil {
									checkBody(FuncUnit{fn, hd, c.pkgOf[hd]}, nil, hd.Body, depth+1)
								}
							}
							return true
						}
						nret++
						if byFlag[e.Name] {
							if !marked {
								bad = "returns " + fn.Name() + "(...) on a path that has not set Top().Terminal = true"
							}
						} else {
							bad = "returns the result of " + fn.Name() + "(...) instead of env.Terminal(expr): the last form is evaluated on a new Go/elps frame"
						}
						return true
					})
				}
				checkBody(u, lit, body, 0)
				construct := "construct " + e.Name
				switch {
				case bad != "":
					obs = append(obs, mkOb(c, "TRO.tail-forwarders", u, construct, body, Violated, bad+" — a loop through this construct grows the stack with every iteration", true))
				case byMark[e.Name] && !reach[u.Obj]:
					obs = append(obs, mkOb(c, "TRO.tail-forwarders", u, construct, body, Violated, "no static call chain to (*LEnv).Terminal: the construct cannot hand on its tail expression", true))
				case byFlag[e.Name] && nret == 0:
					obs = append(obs, mkOb(c, "TRO.tail-forwarders", u, construct, body, Violated, "no tail evaluator call", true))
				default:
					obs = append(obs, mkOb(c, "TRO.tail-forwarders", u, construct, body, Proved, "tail expression is handed on (terminal mark / Terminal flag) on every return that evaluates", true))
				}
			}
			return obs
		}})

	register(&Rule{ID: "TRO.scan-complete", Floor: 3,
		Doc: "TerminalFID scans the whole frame chain: its loop runs from len(Frames)-1 down to 0 and every early exit inside it is decided only by fields of Frames[i] (Terminal, TROBlock, FID)",
		Run: func(c *Ctx) []Obligation {
			fn, fd, pkg := c.LookupFunc("lisp.(*CallStack).TerminalFID")
			frames := c.LookupField("lisp.CallStack.Frames")
			if fn == nil || frames == nil {
				return []Obligation{anchorMissing("TRO.scan-complete", "TerminalFID/Frames")}
			}
			u := FuncUnit{fn, fd, pkg}
			info := pkg.TypesInfo
			var loop *ast.ForStmt
			ast.Inspect(fd.Body, func(n ast.Node) bool {
				if f, ok := n.(*ast.ForStmt); ok && loop == nil {
					loop = f
				}
				return true
			})
			var obs []Obligation
			if loop == nil {
				return []Obligation{mkOb(c, "TRO.scan-complete", u, "scan loop", fd, Undecided, "no for loop", false)}
			}
			// The scan is decided over affine terms a*L + b*v + c, with L = len(Frames) and v the
			// loop variable: the frame index at the first turn must be L-1, it must decrease by
			// one per turn, and at the last turn the condition admits it must be 0.  Locals
			// defined once as len(Frames) or as such a term are expanded.
			type aff struct {
				l, v, c int
				ok      bool
			}
			var iObj types.Object
			var term func(e ast.Expr, depth int) aff
			singleDef := func(o types.Object) ast.Expr {
				var def ast.Expr
				n := 0
				ast.Inspect(fd.Body, func(m ast.Node) bool {
					switch x := m.(type) {
					case *ast.AssignStmt:
						for i, l := range x.Lhs {
							if identObj(info, l) == o {
								n++
								if len(x.Lhs) == len(x.Rhs) && (x.Tok == token.DEFINE || x.Tok == token.ASSIGN) {
									def = x.Rhs[i]
								} else {
									n++
								}
							}
						}
					case *ast.IncDecStmt:
						if identObj(info, x.X) == o {
							n += 2
						}
					}
					return true
				})
				if n == 1 {
					return def
				}
				return nil
			}
			term = func(e ast.Expr, depth int) aff {
				e = ast.Unparen(e)
				if depth > 6 {
					return aff{}
				}
				if k, okc := intConst(info, e); okc {
					return aff{0, 0, k, true}
				}
				switch x := e.(type) {
				case *ast.Ident:
					o := identObj(info, x)
					if o != nil && o == iObj {
						return aff{0, 1, 0, true}
					}
					if o != nil {
						if d := singleDef(o); d != nil {
							return term(d, depth+1)
						}
					}
				case *ast.CallExpr:
					if id, ok := ast.Unparen(x.Fun).(*ast.Ident); ok && id.Name == "len" && len(x.Args) == 1 && FieldOfSelector(info, x.Args[0]) == frames {
						return aff{1, 0, 0, true}
					}
				case *ast.BinaryExpr:
					l, r := term(x.X, depth+1), term(x.Y, depth+1)
					if l.ok && r.ok {
						switch x.Op {
						case token.ADD:
							return aff{l.l + r.l, l.v + r.v, l.c + r.c, true}
						case token.SUB:
							return aff{l.l - r.l, l.v - r.v, l.c - r.c, true}
						}
					}
				}
				return aff{}
			}
			// loop variable, first value, step
			var first aff
			step := 0
			if as, ok := loop.Init.(*ast.AssignStmt); ok && len(as.Lhs) == 1 && len(as.Rhs) == 1 {
				o := identObj(info, as.Lhs[0])
				first = term(as.Rhs[0], 0) // evaluated before iObj is set: cannot mention v
				iObj = o
			}
			if id, ok := loop.Post.(*ast.IncDecStmt); ok && iObj != nil && identObj(info, id.X) == iObj {
				if id.Tok == token.DEC {
					step = -1
				} else {
					step = 1
				}
			}
			// last value of v admitted by the condition
			var last aff
			if be, ok := ast.Unparen(loop.Cond).(*ast.BinaryExpr); ok && iObj != nil && step != 0 {
				op, x, y := be.Op, be.X, be.Y
				if identObj(info, ast.Unparen(y)) == iObj { // mirrored: e OP v
					x, y = y, x
					switch op {
					case token.LSS:
						op = token.GTR
					case token.LEQ:
						op = token.GEQ
					case token.GTR:
						op = token.LSS
					case token.GEQ:
						op = token.LEQ
					}
				}
				if identObj(info, ast.Unparen(x)) == iObj {
					save := iObj
					iObj = nil
					bound := term(y, 0)
					iObj = save
					if bound.ok {
						switch {
						case step < 0 && op == token.GEQ, step > 0 && op == token.LEQ:
							last = bound
						case step < 0 && op == token.GTR:
							last = aff{bound.l, 0, bound.c + 1, true}
						case step > 0 && op == token.LSS:
							last = aff{bound.l, 0, bound.c - 1, true}
						}
					}
				}
			}
			// the frame index: every index into Frames inside the loop body
			var idxs []aff
			idxLocals := map[types.Object]bool{}
			isFrameIndex := func(e ast.Expr) (*ast.IndexExpr, bool) {
				e = ast.Unparen(e)
				if ue, ok := e.(*ast.UnaryExpr); ok && ue.Op == token.AND {
					e = ast.Unparen(ue.X)
				}
				ix, ok := e.(*ast.IndexExpr)
				if ok && FieldOfSelector(info, ix.X) == frames {
					return ix, true
				}
				return nil, false
			}
			ast.Inspect(loop.Body, func(n ast.Node) bool {
				if ix, ok := n.(*ast.IndexExpr); ok && FieldOfSelector(info, ix.X) == frames {
					idxs = append(idxs, term(ix.Index, 0))
				}
				if as, ok := n.(*ast.AssignStmt); ok && len(as.Lhs) == len(as.Rhs) {
					for i, r := range as.Rhs {
						if _, ok := isFrameIndex(r); ok {
							if o := identObj(info, as.Lhs[i]); o != nil && singleDef(o) != nil {
								idxLocals[o] = true
							}
						}
					}
				}
				return true
			})
			covers := first.ok && last.ok && step != 0 && len(idxs) > 0
			why := ""
			for _, ix := range idxs {
				if !covers {
					break
				}
				if !ix.ok {
					covers, why = false, "a frame index is not an affine term of the loop variable"
					break
				}
				at := func(v aff) aff { return aff{ix.l + ix.v*v.l, 0, ix.c + ix.v*v.c, true} }
				f, l := at(first), at(last)
				if !(f.l == 1 && f.c == -1) {
					covers, why = false, "the first frame examined is not the top frame (index len(Frames)-1)"
				} else if ix.v*step != -1 {
					covers, why = false, "the scan does not move one frame towards the bottom per turn"
				} else if !(l.l == 0 && l.c == 0) {
					covers, why = false, "the last frame the loop condition admits is not the bottom frame (index 0)"
				}
			}
			if covers {
				obs = append(obs, mkOb(c, "TRO.scan-complete", u, "scan range", loop, Proved, "the frame index runs from len(Frames)-1 down to 0, one frame per turn", true))
			} else {
				if why == "" {
					why = "loop variable, bound or step not recognised"
				}
				obs = append(obs, mkOb(c, "TRO.scan-complete", u, "scan range", loop, Violated, "the terminal-chain scan does not cover every frame from the top to the bottom of the stack: "+why, true))
			}
			// conditions inside the loop mention only fields of the frame under the index against
			// constants / fid
			ord := &ordinal{}
			var recv types.Object
			if fd.Recv != nil && len(fd.Recv.List) > 0 && len(fd.Recv.List[0].Names) > 0 {
				recv = info.Defs[fd.Recv.List[0].Names[0]]
			}
			checkCond := func(cond ast.Expr, at ast.Node) {
				good := true
				ast.Inspect(cond, func(m ast.Node) bool {
					id, ok := m.(*ast.Ident)
					if !ok {
						return true
					}
					o := info.Uses[id]
					if v, ok := o.(*types.Var); ok && !v.IsField() {
						// allowed variables: the loop variable and locals defined from it / from
						// len(Frames) (as index), a local holding the frame, the receiver, a parameter
						if o == iObj || idxLocals[o] || o == recv {
							return true
						}
						if t := term(id, 0); t.ok {
							return true
						}
						sig := fn.Type().(*types.Signature)
						for i := 0; i < sig.Params().Len(); i++ {
							if sig.Params().At(i) == o {
								return true
							}
						}
						good = false
					}
					return true
				})
				// the position must not be compared: `i < k`, `len(..)-i > k`
				ast.Inspect(cond, func(m ast.Node) bool {
					be, ok := m.(*ast.BinaryExpr)
					if !ok {
						return true
					}
					switch be.Op {
					case token.LSS, token.LEQ, token.GTR, token.GEQ:
						good = false
					}
					return true
				})
				construct := ord.next("exit condition " + types.ExprString(cond))
				if good {
					obs = append(obs, mkOb(c, "TRO.scan-complete", u, construct, at, Proved, "decided by fields of the frame under the index only", false))
				} else {
					obs = append(obs, mkOb(c, "TRO.scan-complete", u, construct, at, Violated, "an exit of the terminal-chain scan depends on something other than the frames' own flags (e.g. a distance bound): longer tail chains are no longer recognised and the stack grows", true))
				}
			}
			ast.Inspect(loop.Body, func(n ast.Node) bool {
				switch x := n.(type) {
				case *ast.IfStmt:
					checkCond(x.Cond, x)
				case *ast.SwitchStmt:
					if x.Tag == nil {
						for _, cl := range x.Body.List {
							if cc, ok := cl.(*ast.CaseClause); ok {
								for _, e := range cc.List {
									checkCond(e, cc)
								}
							}
						}
					}
				}
				return true
			})
			return obs
		}})
}

// FRAME.pointer-not-held — C02 ("tail-call elimination is transparent"): the
// frames live in a slice, CallStack.Frames, and Stack.Top() hands out a
// pointer INTO that slice.  Any evaluator call in between may push frames;
// when the push reallocates the slice the pointer refers to the old copy, and
// a store through it (Terminal = false between tail iterations) no longer
// reaches the live frame.  Nothing notices until the stack first grows past
// its capacity inside such a loop.
func init() {
	register(&Rule{ID: "FRAME.pointer-not-held", Floor: 2,
		Doc: "a local that holds the result of CallStack.Top() (a pointer into the Frames slice) is never used on a path that passed an evaluator call (eval, call, funCall, Eval, Load…) after the local was assigned: frame fields are reached through a fresh Top() after anything that can push",
		Run: func(c *Ctx) []Obligation {
			const rid = "FRAME.pointer-not-held"
			top := c.LookupMethod("lisp.CallStack.Top")
			if top == nil {
				return []Obligation{anchorMissing(rid, "CallStack.Top")}
			}
			evalLike := c.evalLikeSet()
			var obs []Obligation
			for _, u := range c.Funcs(func(p string) bool { return rel(p) == "lisp" }) {
				if u.Decl == nil || u.Decl.Body == nil {
					continue
				}
				info := u.Pkg.TypesInfo
				var fc *FCFG
				ord := &ordinal{}
				ast.Inspect(u.Decl.Body, func(n ast.Node) bool {
					if _, ok := n.(*ast.FuncLit); ok {
						return false
					}
					as, ok := n.(*ast.AssignStmt)
					if !ok || len(as.Lhs) != 1 || len(as.Rhs) != 1 {
						return true
					}
					ce, ok := ast.Unparen(as.Rhs[0]).(*ast.CallExpr)
					if !ok || originOf(Callee(info, ce)) != top {
						return true
					}
					x := identObj(info, as.Lhs[0])
					if x == nil {
						return true
					}
					if fc == nil {
						fc = c.cfgOf(u, nil)
					}
					construct := ord.next("local " + x.Name() + " := Stack.Top()")
					def, ok := fc.Locate(as)
					if !ok {
						obs = append(obs, mkOb(c, rid, u, construct, as, Undecided, "assignment not located in the CFG", true))
						return true
					}
					// forward walk: state 0 = fresh, 1 = an evaluator call has happened
					type st struct {
						b     *cfg.Block
						i     int
						stale bool
					}
					seen := map[[2]interface{}]bool{}
					work := []st{{def.B, def.I + 1, false}}
					var badUse ast.Node
					for len(work) > 0 && badUse == nil {
						it := work[len(work)-1]
						work = work[:len(work)-1]
						stale := it.stale
						killed := false
						for i := it.i; i < len(it.b.Nodes) && !killed; i++ {
							n := it.b.Nodes[i]
							// re-assignment of x from a fresh Top() kills the old value
							if as2, ok := n.(*ast.AssignStmt); ok && len(as2.Lhs) == 1 && identObj(info, as2.Lhs[0]) == x {
								killed = true
								break
							}
							usesX := false
							ast.Inspect(n, func(m ast.Node) bool {
								if id, ok := m.(*ast.Ident); ok && info.Uses[id] == x {
									usesX = true
								}
								return true
							})
							if usesX && stale {
								badUse = n
								break
							}
							for _, c2 := range callsIn(n, false) {
								if f := originOf(Callee(info, c2)); f != nil && evalLike[f] {
									stale = true
								}
							}
						}
						if killed || badUse != nil {
							continue
						}
						for _, s := range it.b.Succs {
							key := [2]interface{}{s, stale}
							if !seen[key] {
								seen[key] = true
								work = append(work, st{s, 0, stale})
							}
						}
					}
					if badUse != nil {
						obs = append(obs, mkOb(c, rid, u, construct, badUse, Violated, "the frame pointer obtained from Stack.Top() is used after an evaluator call on the same path: the call can push frames and reallocate the Frames slice, after which stores through the pointer (Terminal, TailIterations, HeightLogical) update a dead copy — the live frame keeps the previous iteration's Terminal flag, so a call from a non-final body form is taken for a tail call and never runs", true))
					} else {
						obs = append(obs, mkOb(c, rid, u, construct, as, Proved, "every use precedes any evaluator call", true))
					}
					return true
				})
			}
			return obs
		}})
}

// TRO.last-turn-terminal — C02 ("constant stack through every construct that
// preserves tail position"): thread-first and thread-last evaluate their
// steps in a loop and hand the LAST step to Terminal instead of evaluating it.
// "Last" is an index comparison; if it can never be true the value is still
// right (the loop evaluates every step) but each turn of a loop written with
// the operator now costs a frame.
func init() {
	register(&Rule{ID: "TRO.last-turn-terminal", Floor: 2,
		Doc: "in thread-first and thread-last the return of env.Terminal(<call>) inside the loop over the step forms is guarded by `<index> == len(<the ranged slice>) - 1` (locals with a single definition expanded): the comparison is true on the final turn, so the final step is forwarded in tail position",
		Run: func(c *Ctx) []Obligation {
			const rid = "TRO.last-turn-terminal"
			term := c.LookupMethod("lisp.LEnv.Terminal")
			if term == nil {
				return []Obligation{anchorMissing(rid, "LEnv.Terminal")}
			}
			var obs []Obligation
			for _, e := range c.Registry() {
				if rel(e.Pkg.PkgPath) != "lisp" || (e.Name != "thread-first" && e.Name != "thread-last") {
					continue
				}
				body, u, _, ok := c.BodyOf(e)
				if !ok {
					obs = append(obs, Obligation{Rule: rid, Func: "lisp." + e.Table, Construct: "construct " + e.Name, Verdict: Undecided, Detail: "no body"})
					continue
				}
				info := u.Pkg.TypesInfo
				// expand single-definition locals
				var expand func(e ast.Expr, depth int) string
				expand = func(e ast.Expr, depth int) string {
					e = ast.Unparen(e)
					if depth < 4 {
						if o := identObj(info, e); o != nil {
							var def ast.Expr
							n := 0
							ast.Inspect(body, func(m ast.Node) bool {
								if as, ok := m.(*ast.AssignStmt); ok && len(as.Lhs) == len(as.Rhs) {
									for i, l := range as.Lhs {
										if identObj(info, l) == o {
											n++
											def = as.Rhs[i]
										}
									}
								}
								return true
							})
							if n == 1 && def != nil {
								if _, isCall := ast.Unparen(def).(*ast.CallExpr); !isCall || strings.HasPrefix(types.ExprString(def), "len(") {
									if _, isBin := ast.Unparen(def).(*ast.BinaryExpr); isBin || strings.HasPrefix(types.ExprString(def), "len(") {
										return expand(def, depth+1)
									}
								}
							}
						}
					}
					if be, ok := e.(*ast.BinaryExpr); ok {
						return "(" + expand(be.X, depth+1) + " " + be.Op.String() + " " + expand(be.Y, depth+1) + ")"
					}
					if ce, ok := e.(*ast.CallExpr); ok && len(ce.Args) == 1 {
						if id, ok := ast.Unparen(ce.Fun).(*ast.Ident); ok && id.Name == "len" {
							return "len(" + expand(ce.Args[0], depth+1) + ")"
						}
					}
					return types.ExprString(e)
				}
				found := false
				ast.Inspect(body, func(n ast.Node) bool {
					rs, ok := n.(*ast.RangeStmt)
					if !ok || rs.Key == nil {
						return true
					}
					idx := types.ExprString(rs.Key)
					ranged := expand(rs.X, 0)
					ast.Inspect(rs.Body, func(m ast.Node) bool {
						is, ok := m.(*ast.IfStmt)
						if !ok {
							return true
						}
						returnsTerminal := false
						for _, st := range is.Body.List {
							if ret, ok := st.(*ast.ReturnStmt); ok && len(ret.Results) == 1 {
								if ce, ok := ast.Unparen(ret.Results[0]).(*ast.CallExpr); ok && originOf(Callee(info, ce)) == term {
									returnsTerminal = true
								}
							}
						}
						if !returnsTerminal {
							return true
						}
						found = true
						got := expand(is.Cond, 0)
						want1 := "(" + idx + " == (len(" + ranged + ") - 1))"
						want2 := "((len(" + ranged + ") - 1) == " + idx + ")"
						want3 := "((" + idx + " + 1) == len(" + ranged + "))"
						construct := "construct " + e.Name + ": final step forwarded"
						if got == want1 || got == want2 || got == want3 {
							obs = append(obs, mkOb(c, rid, u, construct, is, Proved, "guard is "+got, true))
						} else {
							obs = append(obs, mkOb(c, rid, u, construct, is, Violated, "the Terminal return is guarded by "+got+", which is not `"+idx+" == len("+ranged+") - 1`: if it is never true on the final turn the last step is evaluated with Eval like the others, so a loop written through "+e.Name+" grows the stack by a frame per turn (values stay right, which is why no test notices)", true))
						}
						return true
					})
					return true
				})
				if !found {
					obs = append(obs, mkOb(c, rid, u, "construct "+e.Name+": final step forwarded", body, Undecided, "no `if … { return env.Terminal(…) }` inside a range loop over the steps found", true))
				}
			}
			return obs
		}})
}

// TRO.designator-global — C02: funcall and apply are builtins (they run with
// the CALLER's environment) and mark their own frame terminal, so when a tail
// call through funcall is collapsed the call loop re-enters the builtin with
// the environment of an OLDER call site.  That is harmless as long as
// resolving a function designator does not depend on the lexical environment.
// The resolver the functional builtins share, GetFunGlobal, must therefore
// stay global-only: a lexical fallback makes `(funcall 'step …)` find a
// different `step` — or none — depending on whether tail calls are eliminated.
func init() {
	register(&Rule{ID: "TRO.designator-global", Floor: 1,
		Doc: "LEnv.GetFunGlobal — the function-designator resolver behind funcall, apply and the other functional builtins, which the tail-call loop re-enters with an older call site's environment — reaches no function that reads the lexical chain (the LEnv.scope / LEnv.parent fields): what a symbol designator names does not depend on which environment the builtin happens to run in",
		Run: func(c *Ctx) []Obligation {
			const rid = "TRO.designator-global"
			fn, fd, pkg := c.LookupFunc("lisp.(*LEnv).GetFunGlobal")
			scopeF := c.LookupField("lisp.LEnv.scope")
			parentF := c.LookupField("lisp.LEnv.parent")
			if fn == nil || scopeF == nil || parentF == nil {
				return []Obligation{anchorMissing(rid, "LEnv.GetFunGlobal / LEnv.scope / LEnv.parent")}
			}
			u := FuncUnit{fn, fd, pkg}
			decls := map[*types.Func]FuncUnit{}
			for _, fu := range c.Funcs(func(p string) bool { return rel(p) == "lisp" }) {
				if fu.Decl != nil && fu.Decl.Body != nil {
					decls[fu.Obj] = fu
				}
			}
			readsLexical := func(fu FuncUnit) ast.Node {
				var hit ast.Node
				ast.Inspect(fu.Decl.Body, func(n ast.Node) bool {
					if se, ok := n.(*ast.SelectorExpr); ok && hit == nil {
						if f := FieldOfSelector(fu.Pkg.TypesInfo, se); f == scopeF || f == parentF {
							hit = se
						}
					}
					return true
				})
				return hit
			}
			// closure of static callees
			seen := map[*types.Func]bool{fn: true}
			work := []*types.Func{fn}
			var bad *types.Func
			var via = map[*types.Func]*types.Func{}
			for len(work) > 0 && bad == nil {
				f := work[len(work)-1]
				work = work[:len(work)-1]
				fu, ok := decls[f]
				if !ok {
					continue
				}
				if readsLexical(fu) != nil {
					bad = f
					break
				}
				for _, ce := range callsIn(fu.Decl.Body, true) {
					if g := originOf(Callee(fu.Pkg.TypesInfo, ce)); g != nil && !seen[g] {
						// error construction (Errorf → location bookkeeping) is not a lookup
						if strings.HasSuffix(g.Name(), "Errorf") || g.Name() == "ErrorAssociate" || g.Name() == "Error" {
							continue
						}
						seen[g] = true
						via[g] = f
						work = append(work, g)
					}
				}
			}
			if bad != nil {
				chain := FuncName(bad)
				for p := via[bad]; p != nil; p = via[p] {
					chain = FuncName(p) + " → " + chain
				}
				return []Obligation{mkOb(c, rid, u, "resolver is environment-free", fd, Violated, "GetFunGlobal reaches a read of the lexical chain ("+chain+"): a symbol designator can now name a flet/labels/let-bound function, and because a collapsed tail call re-enters funcall/apply with the environment of an older call site the name is resolved in the wrong scope — the program's value (or an unbound-symbol error) differs between eliminated and non-eliminated runs", true)}
			}
			return []Obligation{mkOb(c, rid, u, "resolver is environment-free", fd, Proved, fmt.Sprintf("%d functions reachable, none reads LEnv.scope / LEnv.parent", len(seen)), true)}
		}})
}
