package main

import (
	"go/ast"
	"go/types"
)

// PKGTRACK.in-package-stateless — C08 / C17: the static tools re-implement "the
// current package is whatever the last in-package said" in several top-level
// scanners.  in-package has no memory: every occurrence switches the package,
// the third as much as the first.  A scanner arm that records the package only
// under a condition on what it recorded before ("if none recorded yet") tracks
// the FIRST package of a file and attributes everything after a second
// in-package to the wrong one.
func init() {
	register(&Rule{ID: "PKGTRACK.in-package-stateless", Floor: 3,
		Doc: "in every scanner of the minifier and the analysis package that has a case for the head `in-package`, the conditions inside that case mention only values derived from the form being scanned (locals declared inside the case, the scanned expression) — never a variable declared outside it: what an in-package form does to the tracked package does not depend on which packages were seen before",
		Run: func(c *Ctx) []Obligation {
			const rid = "PKGTRACK.in-package-stateless"
			var obs []Obligation
			for _, u := range c.Funcs(func(p string) bool { r := rel(p); return r == "minifier" || r == "analysis" }) {
				if u.Decl == nil || u.Decl.Body == nil {
					continue
				}
				info := u.Pkg.TypesInfo
				ord := &ordinal{}
				ast.Inspect(u.Decl.Body, func(n ast.Node) bool {
					cc, ok := n.(*ast.CaseClause)
					if !ok {
						return true
					}
					isArm := false
					for _, e := range cc.List {
						if s, ok := constStringVal(info, e); ok && s == "in-package" {
							isArm = true
						}
					}
					if !isArm || len(cc.List) != 1 {
						return true
					}
					// the scanned expression: range value / parameter variables used in the arm whose
					// type is *lisp.LVal or a slice of it are "the form"
					isForm := func(o types.Object) bool {
						t := o.Type().String()
						return hasSuffix(t, "lisp.LVal") || hasSuffix(t, "]*github.com/luthersystems/elps/lisp.LVal")
					}
					for _, st := range cc.Body {
						ast.Inspect(st, func(m ast.Node) bool {
							is, ok := m.(*ast.IfStmt)
							if !ok {
								return true
							}
							construct := ord.next("condition in the in-package case")
							foreign := ""
							ast.Inspect(is.Cond, func(k ast.Node) bool {
								id, ok := k.(*ast.Ident)
								if !ok {
									return true
								}
								v, ok := info.Uses[id].(*types.Var)
								if !ok || v.IsField() && false {
									return true
								}
								if v.Pos() >= cc.Pos() && v.Pos() <= cc.End() {
									return true // declared inside the case
								}
								if isForm(v) {
									return true
								}
								if v.Pkg() != nil && v.Parent() == v.Pkg().Scope() {
									return true // package-level configuration / constants
								}
								foreign = v.Name()
								return true
							})
							if foreign == "" {
								obs = append(obs, mkOb(c, rid, u, construct, is.Cond, Proved, "depends on the scanned form only", true))
							} else {
								obs = append(obs, mkOb(c, rid, u, construct, is.Cond, Violated, "what this in-package form does depends on `"+foreign+"`, state kept from earlier forms: the scanner treats the first in-package of a file differently from the later ones (e.g. records only the first), so definitions and references after a second in-package are attributed to the wrong package", true))
							}
							return true
						})
					}
					return true
				})
			}
			return obs
		}})
}
