package main

import (
	"fmt"
	"sort"
	"strings"

	"golang.org/x/tools/go/callgraph"
	"golang.org/x/tools/go/ssa"
)

// funcPkgPath returns the package path a (possibly synthetic) function
// belongs to, following thunks/bound wrappers to their target.
func funcPkgPath(f *ssa.Function) string {
	if f == nil {
		return ""
	}
	if f.Pkg != nil {
		return f.Pkg.Pkg.Path()
	}
	if f.Parent() != nil {
		return funcPkgPath(f.Parent())
	}
	if o := f.Object(); o != nil && o.Pkg() != nil {
		return o.Pkg().Path()
	}
	// synthetic wrapper: look at what it calls
	for _, b := range f.Blocks {
		for _, in := range b.Instrs {
			if c, ok := in.(ssa.CallInstruction); ok {
				if callee := c.Common().StaticCallee(); callee != nil && callee != f {
					return funcPkgPath(callee)
				}
			}
		}
	}
	return ""
}

// callSCCs computes the non-trivial strongly connected components of the call
// graph restricted to nodes accepted by keep.
func callSCCs(cg *callgraph.Graph, keep func(*ssa.Function) bool) [][]*callgraph.Node {
	index := map[*callgraph.Node]int{}
	low := map[*callgraph.Node]int{}
	on := map[*callgraph.Node]bool{}
	var stack []*callgraph.Node
	var out [][]*callgraph.Node
	n := 0
	type frame struct {
		node *callgraph.Node
		i    int
	}
	// iterative Tarjan (the graph is large)
	var nodes []*callgraph.Node
	for _, nd := range cg.Nodes {
		if nd.Func != nil && keep(nd.Func) {
			nodes = append(nodes, nd)
		}
	}
	sort.Slice(nodes, func(i, j int) bool { return nodes[i].ID < nodes[j].ID })
	for _, root := range nodes {
		if _, seen := index[root]; seen {
			continue
		}
		work := []frame{{root, 0}}
		index[root], low[root] = n, n
		n++
		stack = append(stack, root)
		on[root] = true
		for len(work) > 0 {
			fr := &work[len(work)-1]
			if fr.i < len(fr.node.Out) {
				e := fr.node.Out[fr.i]
				fr.i++
				w := e.Callee
				if w.Func == nil || !keep(w.Func) {
					continue
				}
				if _, seen := index[w]; !seen {
					index[w], low[w] = n, n
					n++
					stack = append(stack, w)
					on[w] = true
					work = append(work, frame{w, 0})
				} else if on[w] && index[w] < low[fr.node] {
					low[fr.node] = index[w]
				}
				continue
			}
			v := fr.node
			work = work[:len(work)-1]
			if len(work) > 0 {
				p := work[len(work)-1].node
				if low[v] < low[p] {
					low[p] = low[v]
				}
			}
			if low[v] == index[v] {
				var comp []*callgraph.Node
				for {
					x := stack[len(stack)-1]
					stack = stack[:len(stack)-1]
					on[x] = false
					comp = append(comp, x)
					if x == v {
						break
					}
				}
				self := false
				for _, e := range v.Out {
					if e.Callee == v {
						self = true
					}
				}
				if len(comp) > 1 || self {
					out = append(out, comp)
				}
			}
		}
	}
	return out
}

func debugSCCs(c *Ctx) {
	cg := c.CallGraph()
	keep := func(f *ssa.Function) bool {
		p := funcPkgPath(f)
		return p != "" && strings.HasPrefix(p, modPath)
	}
	comps := callSCCs(cg, keep)
	fmt.Println("nontrivial SCCs in module:", len(comps))
	for i, comp := range comps {
		kernel := false
		var names []string
		for _, nd := range comp {
			if isKernel(funcPkgPath(nd.Func)) {
				kernel = true
			}
			names = append(names, SSAFuncName(nd.Func))
		}
		if !kernel {
			continue
		}
		sort.Strings(names)
		if len(names) > 300 {
			names = append(names[:30], fmt.Sprintf("... +%d more", len(names)-30))
		}
		fmt.Printf("SCC %d size=%d: %s\n", i, len(comp), strings.Join(names, ", "))
	}
}
