package main

import (
	"go/ast"
	"go/types"

	"golang.org/x/tools/go/cfg"
)

// SEQ.progress-checked — C01 / C03 ("returns in bounded time"): a kernel loop
// that walks a lisp number towards a bound by adding a program-supplied step
// (`x = addNumeric(x, step)` under `lessNumeric(x, stop)`) does not terminate by
// itself: the int sum wraps past the maximum to a negative number, which is
// again below the bound, and a float step can be absorbed by a large x.  Every
// turn must therefore establish that the new value is greater than the old one,
// on an edge whose failure leaves the loop.
func init() {
	register(&Rule{ID: "SEQ.progress-checked", Floor: 1,
		Doc: "in the kernel, every loop that carries a lisp number from one turn to the next through the wrapping numeric add (lisp.addNumeric applied to the loop's own variable) compares the old value with the new one (lessNumeric(x, next)) on every turn, and the edge on which the comparison fails leaves the loop or the function: make-sequence near the maximum int, or with a step a float cannot represent, ends instead of appending wrapped values until the allocation limit stops it",
		Run: func(c *Ctx) []Obligation {
			const rid = "SEQ.progress-checked"
			add := c.LookupPkgFunc("lisp.addNumeric")
			less := c.LookupPkgFunc("lisp.lessNumeric")
			if add == nil || less == nil {
				return []Obligation{anchorMissing(rid, "lisp.addNumeric / lisp.lessNumeric")}
			}
			var obs []Obligation
			for _, u := range c.Funcs(isKernel) {
				if u.Decl == nil || u.Decl.Body == nil {
					continue
				}
				info := u.Pkg.TypesInfo
				var fc *FCFG
				ord := &ordinal{}
				for _, ce := range callsIn(u.Decl.Body, false) {
					if originOf(Callee(info, ce)) != add || len(ce.Args) != 2 {
						continue
					}
					if fc == nil {
						fc = c.cfgOf(u, nil)
					}
					loc, ok := fc.Locate(ce)
					if !ok || !fc.blockOnCycle(loc.B) {
						continue // not in a loop
					}
					// the loop-carried variable: an argument of the add that is (re)assigned from the
					// add's result — directly (`x = addNumeric(x, s)`) or through a local (`next := …; x = next`)
					var oldO types.Object
					var newE ast.Expr = ce
					var resLocal types.Object
					if as, ok := fc.Node(loc).(*ast.AssignStmt); ok && len(as.Lhs) == 1 && len(as.Rhs) == 1 && ast.Unparen(as.Rhs[0]) == ast.Expr(ce) {
						resLocal = identObj(info, as.Lhs[0])
					}
					for _, a := range ce.Args {
						ao := identObj(info, a)
						if ao == nil {
							continue
						}
						if resLocal == ao {
							oldO = ao // x = addNumeric(x, step)
						}
						// x = next somewhere in the loop
						ast.Inspect(u.Decl.Body, func(m ast.Node) bool {
							if as, ok := m.(*ast.AssignStmt); ok && len(as.Lhs) == len(as.Rhs) {
								for i, l := range as.Lhs {
									if identObj(info, l) == ao && resLocal != nil && identObj(info, as.Rhs[i]) == resLocal {
										oldO = ao
									}
								}
							}
							return true
						})
					}
					if oldO == nil {
						continue // the sum is not fed back: not a stepping loop
					}
					_ = newE
					construct := ord.next("loop stepping a lisp number")
					// a comparison lessNumeric(old, new) in the same cycle whose failing edge leaves the cycle
					cyc := map[*cfg.Block]bool{}
					for _, comp := range fc.cyclicSCCs(nil) {
						in := false
						for _, b := range comp {
							if b == loc.B {
								in = true
							}
						}
						if in {
							for _, b := range comp {
								cyc[b] = true
							}
						}
					}
					guarded := false
					for b := range cyc {
						cond := fc.CondOf(b)
						if cond == nil {
							continue
						}
						for k := 0; k < 2; k++ {
							// the edge on which "old < new" is known false must leave the cycle
							fails := false
							for _, at := range impliedAtoms(cond, k == 0) {
								lc, ok := ast.Unparen(at.E).(*ast.CallExpr)
								if !ok || originOf(Callee(info, lc)) != less || len(lc.Args) != 2 || at.Positive {
									continue
								}
								if identObj(info, lc.Args[0]) == oldO && (resLocal == nil || identObj(info, lc.Args[1]) == resLocal || ast.Unparen(lc.Args[1]) == ast.Expr(ce)) {
									fails = true
								}
							}
							if fails && !cyc[b.Succs[k]] {
								guarded = true
							}
						}
					}
					if guarded {
						obs = append(obs, mkOb(c, rid, u, construct, ce, Proved, "every turn compares the old value with the new one; when the sum did not grow the loop is left", true))
					} else {
						obs = append(obs, mkOb(c, rid, u, construct, ce, Violated, "the loop variable is replaced by the wrapping sum without a test that it grew: near the maximum int the sum wraps to a negative number that is again below the bound, so (make-sequence 9223372036854775800 9223372036854775807 3) keeps appending wrapped values until the allocation limit stops it instead of returning three elements", true))
					}
				}
			}
			if len(obs) == 0 {
				return []Obligation{{Rule: rid, Func: "lisp", Construct: "stepping loops", Verdict: Undecided, Detail: "no loop stepping a lisp number through addNumeric found: the recogniser matches nothing", Nontrivial: true}}
			}
			return obs
		}})
}
