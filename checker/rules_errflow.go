package main

import (
	"go/ast"
	"go/types"
)

// E3 — error-flow discipline.

func isLValPtr(c *Ctx, t types.Type) bool {
	n := c.LookupType("lisp.LVal")
	if n == nil {
		return false
	}
	p, ok := t.(*types.Pointer)
	return ok && types.Identical(p.Elem(), n)
}

func init() {
	register(&Rule{ID: "ERR.same", Floor: 100,
		Doc: "on an edge where X.Type == LError that immediately returns, every *LVal result is X itself, a value freshly built by a call (wrapper / new error), or nil — never another pre-existing value",
		Run: func(c *Ctx) []Obligation {
			lerr, typeFld := c.lerrorConst()
			if lerr == nil || typeFld == nil {
				return []Obligation{anchorMissing("ERR.same", "LError/LVal.Type")}
			}
			var obs []Obligation
			for _, u := range c.Funcs(isKernel) {
				info := u.Pkg.TypesInfo
				for _, bu := range bodiesOf(u.Decl) {
					fc := c.cfgOf(u, bu.Lit)
					ord := &ordinal{}
					seen := map[*ast.ReturnStmt]bool{}
					for _, ee := range errorEdges(fc, typeFld, lerr) {
						succ := ee.E.B.Succs[ee.E.K]
						if len(succ.Nodes) == 0 {
							continue
						}
						rs, ok := succ.Nodes[0].(*ast.ReturnStmt)
						if !ok || seen[rs] {
							continue
						}
						seen[rs] = true
						construct := ord.next("return on " + ee.Obj.Name() + ".Type==LError")
						if bu.Lit != nil {
							construct = "literal: " + construct
						}
						bad := ""
						hasLVal := false
						for _, r := range rs.Results {
							tv, ok := info.Types[r]
							if !ok || !isLValPtr(c, tv.Type) {
								continue
							}
							hasLVal = true
							o := identObj(info, r)
							if o == nil {
								continue // call, composite, nil...
							}
							if o == ee.Obj {
								continue
							}
							if _, isNil := o.(*types.Nil); isNil {
								continue
							}
							// another variable: accept only if it is itself known to be an error
							// on this edge (same condition mentions it) or is defined solely by calls
							// to error constructors
							if definedOnlyByErrorCtor(c, info, u.Decl, o) {
								continue
							}
							bad = o.Name()
						}
						if len(rs.Results) == 0 {
							continue // named results: not decided here
						}
						if !hasLVal {
							continue
						}
						if bad != "" {
							obs = append(obs, mkOb(c, "ERR.same", u, construct, rs, Violated,
								"when "+ee.Obj.Name()+" is an error the function returns the unrelated value `"+bad+"` instead of the error", true))
						} else {
							obs = append(obs, mkOb(c, "ERR.same", u, construct, rs, Proved, "returns the error itself or a fresh value", false))
						}
					}
				}
			}
			return obs
		}})
}

// definedOnlyByErrorCtor: every assignment to o in fd has as RHS a call to an
// Error* constructor (env.Errorf, lisp.Errorf, ErrorCondition...).
func definedOnlyByErrorCtor(c *Ctx, info *types.Info, fd *ast.FuncDecl, o types.Object) bool {
	n, good := 0, 0
	ast.Inspect(fd.Body, func(m ast.Node) bool {
		as, ok := m.(*ast.AssignStmt)
		if !ok {
			return true
		}
		for i, l := range as.Lhs {
			if identObj(info, l) != o {
				continue
			}
			n++
			if len(as.Rhs) == len(as.Lhs) {
				if ce, ok := ast.Unparen(as.Rhs[i]).(*ast.CallExpr); ok {
					if f := Callee(info, ce); f != nil {
						switch f.Name() {
						case "Errorf", "Error", "ErrorCondition", "ErrorConditionf":
							good++
						}
					}
				}
			}
		}
		return true
	})
	return n > 0 && n == good
}

func init() {
	register(&Rule{ID: "ERR.discarded", Floor: 10,
		Doc: "no kernel statement discards the *LVal result of a call that can be an error value (a call used as a statement, assigned to _, or deferred): a failed binding, lookup or package operation would go unnoticed",
		Run: func(c *Ctx) []Obligation {
			fresh := c.freshReturning()
			var obs []Obligation
			for _, u := range c.Funcs(isKernel) {
				info := u.Pkg.TypesInfo
				ord := &ordinal{}
				check := func(ce *ast.CallExpr, n ast.Node, how string) {
					tv, ok := info.Types[ce]
					if !ok || !isLValPtr(c, tv.Type) {
						return
					}
					fn := originOf(Callee(info, ce))
					name := "dynamic call"
					if fn != nil {
						name = FuncName(fn)
						// pure constructors cannot fail
						if fresh[fn] && !canReturnError(c, fn) {
							return
						}
						// a call-free accessor (cursor advance, stack pop) hands back a value
						// stored earlier: it has no failure of its own to report
						if callFree(c, fn) {
							return
						}
					}
					construct := ord.next(how + " " + name)
					obs = append(obs, mkOb(c, "ERR.discarded", u, construct, n, Undecided,
						"the *LVal result of "+name+" is dropped; if it is an error value the failure is silent", false))
				}
				ast.Inspect(u.Decl.Body, func(n ast.Node) bool {
					switch s := n.(type) {
					case *ast.ExprStmt:
						if ce, ok := ast.Unparen(s.X).(*ast.CallExpr); ok {
							check(ce, s, "statement")
						}
					case *ast.DeferStmt:
						check(s.Call, s, "defer")
					case *ast.AssignStmt:
						if len(s.Rhs) == 1 && len(s.Lhs) == 1 {
							if id, ok := s.Lhs[0].(*ast.Ident); ok && id.Name == "_" {
								if ce, ok := ast.Unparen(s.Rhs[0]).(*ast.CallExpr); ok {
									check(ce, s, "blank-assign")
								}
							}
						}
					}
					return true
				})
			}
			return obs
		}})
}

// callFree: the function is declared in this module and its body makes no
// call other than to Go builtins, type conversions and (to a small depth)
// functions of the module that are call-free in the same sense — an index
// helper such as `func (r *Runtime) topConditionIndex() int { return len(r.conditionStack) - 1 }`.
func callFree(c *Ctx, fn *types.Func) bool { return callFreeDepth(c, fn, 0) }

func callFreeDepth(c *Ctx, fn *types.Func, depth int) bool {
	fd := c.declOf[fn]
	if fd == nil || fd.Body == nil || depth > 3 {
		return false
	}
	info := c.pkgOf[fd].TypesInfo
	for _, ce := range callsIn(fd.Body, true) {
		if tv, ok := info.Types[ce.Fun]; ok && tv.IsType() {
			continue
		}
		if id, ok := ast.Unparen(ce.Fun).(*ast.Ident); ok {
			if _, isB := info.Uses[id].(*types.Builtin); isB {
				continue
			}
		}
		if h := originOf(Callee(info, ce)); h != nil && h != fn && callFreeDepth(c, h, depth+1) {
			continue
		}
		return false
	}
	return true
}

// canReturnError: the function contains a call to an Error* constructor.
func canReturnError(c *Ctx, fn *types.Func) bool {
	fd := c.declOf[fn]
	if fd == nil || fd.Body == nil {
		return true
	}
	info := c.pkgOf[fd].TypesInfo
	found := false
	for _, ce := range callsIn(fd.Body, true) {
		if f := Callee(info, ce); f != nil {
			switch f.Name() {
			case "Errorf", "Error", "ErrorCondition", "ErrorConditionf":
				found = true
			}
		}
	}
	return found
}
