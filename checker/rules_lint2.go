package main

import (
	"fmt"
	"go/ast"
	"go/token"
	"go/types"
	"golang.org/x/tools/go/cfg"
	"sort"
	"strings"
)

// bindingFormsTable reads lint.bindingForms: form -> funBinding.
func (c *Ctx) lintBindingForms() (map[string]bool, ast.Node, string) {
	return c.lintBindingFormsField("funBinding", 0)
}

// lintBindingFormsField reads one boolean field of lint.bindingForms' entries
// (by key, or by position for unkeyed literals).
func (c *Ctx) lintBindingFormsField(field string, position int) (map[string]bool, ast.Node, string) {
	p := c.Pkg("lint")
	if p == nil {
		return nil, nil, "package lint not loaded"
	}
	info := p.TypesInfo
	out := map[string]bool{}
	var node ast.Node
	for _, f := range p.Syntax {
		ast.Inspect(f, func(n ast.Node) bool {
			vs, ok := n.(*ast.ValueSpec)
			if !ok || len(vs.Names) != 1 || info.Defs[vs.Names[0]] == nil || info.Defs[vs.Names[0]] != c.LookupPkgObj("lint.bindingForms") || len(vs.Values) != 1 {
				return true
			}
			cl, ok := vs.Values[0].(*ast.CompositeLit)
			if !ok {
				return false
			}
			node = vs
			for _, el := range cl.Elts {
				kv, ok := el.(*ast.KeyValueExpr)
				if !ok {
					continue
				}
				name, ok := constStringVal(info, kv.Key)
				if !ok {
					continue
				}
				flag := false
				if vcl, ok := kv.Value.(*ast.CompositeLit); ok {
					// the field is identified by its POSITION in the entry struct (its name may change)
					var st *types.Struct
					if tv, ok := info.Types[vcl]; ok {
						st, _ = tv.Type.Underlying().(*types.Struct)
					}
					for i, fe := range vcl.Elts {
						if fkv, ok := fe.(*ast.KeyValueExpr); ok {
							if id, ok := fkv.Key.(*ast.Ident); ok {
								idx := -1
								for k := 0; st != nil && k < st.NumFields(); k++ {
									if st.Field(k) == info.Uses[id] || st.Field(k).Name() == id.Name {
										idx = k
									}
								}
								if idx == position || (idx < 0 && id.Name == field) {
									flag = isBoolConst(info, fkv.Value, true)
								}
							}
						} else if i == position && isBoolConst(info, fe, true) {
							flag = true
						}
					}
				}
				out[name] = flag
			}
			return false
		})
	}
	if node == nil {
		return nil, nil, "lint.bindingForms not found"
	}
	return out, node, ""
}

// evaluatorBindingShape inspects a special operator's implementation: does it
// walk args.Cells[0] as a list of entries (`for .. range bindlist.Cells` reading
// entry.Cells[..]), and does it build a function from each entry (.Lambda)?
func (c *Ctx) evaluatorBindingShape(e RegEntry) (entries bool, fun bool, binds bool) {
	body, u, _, ok := c.BodyOf(e)
	if !ok || u.Decl == nil {
		return false, false, false
	}
	info := u.Pkg.TypesInfo
	ps := paramObjs(u)
	if len(ps) != 2 {
		return false, false, false
	}
	argsP := ps[1]
	// does the operator store bindings at all?
	ast.Inspect(body, func(n ast.Node) bool {
		if ce, ok := n.(*ast.CallExpr); ok {
			if se, ok := ast.Unparen(ce.Fun).(*ast.SelectorExpr); ok && se.Sel.Name == "Put" {
				if tv, ok := info.Types[se.X]; ok && strings.HasSuffix(tv.Type.String(), "lisp.LEnv") {
					binds = true
				}
			}
		}
		return true
	})
	// locals assigned args.Cells[0]
	first := map[types.Object]bool{}
	ast.Inspect(body, func(n ast.Node) bool {
		if as, ok := n.(*ast.AssignStmt); ok && len(as.Lhs) == len(as.Rhs) {
			for i, l := range as.Lhs {
				if isCellsIndex(as.Rhs[i], argsP, info, 0) {
					if o := identObj(info, l); o != nil {
						first[o] = true
					}
				}
			}
		}
		return true
	})
	// the walk over the binding list may be written in this operator or in a same-package function the
	// operator hands the binding list to (`bindLet(env, letenv, bindlist, parallel)` shared by let and let*)
	var walkRanges func(info *types.Info, body ast.Node, first map[types.Object]bool, depth int)
	walkRanges = func(info *types.Info, body ast.Node, first map[types.Object]bool, depth int) {
		ast.Inspect(body, func(n ast.Node) bool {
			if ce, ok := n.(*ast.CallExpr); ok && depth < 2 {
				if h := originOf(Callee(info, ce)); h != nil && h.Pkg() == u.Obj.Pkg() {
					if hd := c.declOf[h]; hd != nil && hd.Body != nil {
						hu := FuncUnit{h, hd, c.pkgOf[hd]}
						hps := paramObjs(hu)
						hfirst := map[types.Object]bool{}
						for ai, a := range ce.Args {
							if o := identObj(info, a); o != nil && first[o] && ai < len(hps) {
								hfirst[hps[ai]] = true
							}
						}
						if len(hfirst) > 0 {
							hi := hu.Pkg.TypesInfo
							ast.Inspect(hd.Body, func(m ast.Node) bool {
								if c2, ok := m.(*ast.CallExpr); ok {
									if se, ok := ast.Unparen(c2.Fun).(*ast.SelectorExpr); ok && se.Sel.Name == "Put" {
										if tv, ok := hi.Types[se.X]; ok && strings.HasSuffix(tv.Type.String(), "lisp.LEnv") {
											binds = true
										}
									}
								}
								return true
							})
							walkRanges(hi, hd.Body, hfirst, depth+1)
						}
					}
				}
			}
			rs, ok := n.(*ast.RangeStmt)
			if !ok || rs.Value == nil {
				return true
			}
			se, ok := ast.Unparen(rs.X).(*ast.SelectorExpr)
			if !ok || se.Sel.Name != "Cells" {
				return true
			}
			o := identObj(info, se.X)
			if o == nil || !first[o] {
				return true
			}
			ent := identObj(info, rs.Value)
			// the entry is itself indexed as a list — in the loop body, or in a same-package helper the
			// body hands the entry to (one entry of the binding list handled by a shared function)
			var scan func(ui *types.Info, body ast.Node, entObj types.Object, depth int)
			scan = func(ui *types.Info, body ast.Node, entObj types.Object, depth int) {
				ast.Inspect(body, func(m ast.Node) bool {
					if s2, ok := m.(*ast.SelectorExpr); ok && s2.Sel.Name == "Cells" && identObj(ui, s2.X) == entObj {
						entries = true
					}
					if ce, ok := m.(*ast.CallExpr); ok {
						if s3, ok := ast.Unparen(ce.Fun).(*ast.SelectorExpr); ok {
							if s3.Sel.Name == "Lambda" {
								fun = true
							}
							if s3.Sel.Name == "Put" && depth > 0 {
								if tv, ok := ui.Types[s3.X]; ok && strings.HasSuffix(tv.Type.String(), "lisp.LEnv") {
									binds = true
								}
							}
						}
						if depth < 2 {
							if h := originOf(Callee(ui, ce)); h != nil && h.Pkg() == u.Obj.Pkg() {
								if hd := c.declOf[h]; hd != nil && hd.Body != nil {
									hu := FuncUnit{h, hd, c.pkgOf[hd]}
									hps := paramObjs(hu)
									off := 0
									for i, a := range ce.Args {
										if identObj(ui, a) == entObj && i+off < len(hps) {
											scan(hu.Pkg.TypesInfo, hd.Body, hps[i+off], depth+1)
										}
									}
								}
							}
						}
					}
					return true
				})
			}
			scan(info, rs.Body, ent, 0)
			return true
		})
	}
	walkRanges(info, body, first, 0)
	return entries, fun, binds
}

func init() {
	register(&Rule{ID: "ARITY.binding-forms", Floor: 5,
		Doc: "lint's table of binding forms (whose binding-list entries are excluded from call-shaped checks and whose names shadow builtins) lists exactly the special operators whose implementation walks its first argument as a list of entries, and marks as function bindings exactly those that build a lambda from each entry: let, let*, flet, labels, macrolet today; an operator with a different first argument (dotimes' control sequence) is not treated as a list of bindings",
		Run: func(c *Ctx) []Obligation {
			table, node, prob := c.lintBindingForms()
			if prob != "" {
				return []Obligation{anchorMissing("ARITY.binding-forms", prob)}
			}
			var obs []Obligation
			evalForms := map[string]bool{}
			evalFun := map[string]bool{}
			var entryOnly []string // walks a list of entries without binding names (handler-bind)
			for _, e := range c.Registry() {
				if rel(e.Pkg.PkgPath) != "lisp" || e.Kind != "op" {
					continue
				}
				if ent, fun, binds := c.evaluatorBindingShape(e); ent {
					if binds {
						evalForms[e.Name] = true
						evalFun[e.Name] = fun
					} else {
						entryOnly = append(entryOnly, e.Name)
					}
				}
			}
			names := map[string]bool{}
			for k := range table {
				names[k] = true
			}
			for k := range evalForms {
				names[k] = true
			}
			var ks []string
			for k := range names {
				ks = append(ks, k)
			}
			sort.Strings(ks)
			pos := c.Pos(node.Pos())
			for _, k := range ks {
				o := Obligation{Rule: "ARITY.binding-forms", Func: "lint.bindingForms", Construct: "form " + k, Pos: pos, Nontrivial: true}
				flag, inTable := table[k]
				switch {
				case inTable && !evalForms[k]:
					o.Verdict, o.Detail = Violated, "lint treats `"+k+"` as a form whose first argument is a list of binding entries, but the evaluator's implementation does not walk it as one: its sub-forms are wrongly exempt from (or wrongly shadow) the arity checks"
				case !inTable && evalForms[k]:
					o.Verdict, o.Detail = Violated, "the evaluator's `"+k+"` takes a list of binding entries but lint does not know it: its entries are checked as calls"
				case flag != evalFun[k]:
					o.Verdict, o.Detail = Violated, fmt.Sprintf("lint marks `%s` funBinding=%v but the evaluator builds a function from each entry: %v", k, flag, evalFun[k])
				default:
					o.Verdict, o.Detail = Proved, fmt.Sprintf("binding-entry form on both sides (function bindings: %v)", flag)
				}
				obs = append(obs, o)
			}
			// entry lists that bind no names: their entries are data too, and must be excluded by an
			// explicit case of aritySkipNodes (they must NOT be in bindingForms, which would also make
			// their first elements shadow builtins)
			sort.Strings(entryOnly)
			_, sfd, spkg := c.LookupFunc("lint.aritySkipNodes")
			for _, k := range entryOnly {
				o := Obligation{Rule: "ARITY.binding-forms", Func: "lint.aritySkipNodes", Construct: "entry list of " + k, Pos: pos, Nontrivial: true}
				if _, inTable := table[k]; inTable {
					o.Verdict, o.Detail = Violated, "`"+k+"` binds no names at run time but is listed in bindingForms: the first element of each entry would shadow the builtin of that name inside the form"
					obs = append(obs, o)
					continue
				}
				handled := false
				if sfd != nil {
					ast.Inspect(sfd.Body, func(n ast.Node) bool {
						if cc, ok := n.(*ast.CaseClause); ok {
							for _, e := range cc.List {
								if s, ok := constStringVal(spkg.TypesInfo, e); ok && s == k {
									// the clause must mark something as skipped
									ast.Inspect(cc, func(m ast.Node) bool {
										if as, ok := m.(*ast.AssignStmt); ok {
											for _, l := range as.Lhs {
												if ie, ok := ast.Unparen(l).(*ast.IndexExpr); ok && types.ExprString(ie.X) == "skip" {
													handled = true
												}
											}
										}
										return true
									})
								}
							}
						}
						return true
					})
				}
				if handled {
					o.Verdict, o.Detail = Proved, "aritySkipNodes has a case for `"+k+"` that excludes its entries from call-shaped checks"
				} else {
					o.Verdict, o.Detail = Violated, "the evaluator's `"+k+"` takes a list of entries (e.g. (condition-name handler)) that are not calls, but lint checks each entry as a call to its first element: ("+k+" ((get h)) ...) is reported as `get requires at least 2 arguments`"
				}
				obs = append(obs, o)
			}
			return obs
		}})

	register(&Rule{ID: "ARITY.shadow-superset", Floor: 5,
		Doc: "for every binding form the region in which lint exempts calls to a name the form binds IS the binding's run-time scope, as far as the value side of the entries goes: lint's table says valuesInScope exactly for the operators whose implementation evaluates the entries in the environment that receives the bindings (let*, labels), and the marking function walks the entries with the bound names only under that flag — always the body; never the binding list for let / flet / macrolet, whose entries are evaluated before the names exist (a call there reaches the builtin and must be checked)",
		Run: func(c *Ctx) []Obligation {
			const rid = "ARITY.shadow-superset"
			table, _, prob := c.lintBindingForms()
			if prob != "" {
				return []Obligation{anchorMissing(rid, prob)}
			}
			inScope, _, _ := c.lintBindingFormsField("valuesInScope", 1)
			fn, fd, pkg := c.LookupFunc("lint.markLocallyShadowedCalls")
			walk := c.LookupPkgFunc("lint.WalkSExprs")
			collect := c.LookupPkgFunc("lint.CollectFormals")
			if fn == nil || walk == nil {
				return []Obligation{anchorMissing(rid, "lint.markLocallyShadowedCalls / WalkSExprs")}
			}
			u := FuncUnit{fn, fd, pkg}
			info := pkg.TypesInfo
			var formP, bindsP types.Object
			var boolPs []types.Object
			// the body may arrive as its own parameter (`body []*lisp.LVal`, the forms after the binding
			// list): the one *LVal parameter is then the binding list
			var bodyP types.Object
			for _, p := range paramObjs(u) {
				if sl, ok := p.Type().Underlying().(*types.Slice); ok && strings.HasSuffix(sl.Elem().String(), "lisp.LVal") && bodyP == nil {
					bodyP = p
				}
			}
			for _, p := range paramObjs(u) {
				if _, isSl := p.Type().Underlying().(*types.Slice); isSl {
					continue
				}
				if strings.HasSuffix(p.Type().String(), "lisp.LVal") {
					if bodyP != nil {
						if bindsP == nil {
							bindsP = p
						}
					} else if formP == nil {
						formP = p
					} else if bindsP == nil {
						bindsP = p
					}
				}
				if types.Identical(p.Type(), types.Typ[types.Bool]) {
					boolPs = append(boolPs, p)
				}
			}
			var funP, scopeP types.Object
			// identified by position (bindingList hands its second and third results on in order):
			// the first boolean says "binds functions", the second "entries see the bindings"
			for i, p := range boolPs {
				switch {
				case p.Name() == "valuesInScope" || (i == 1 && len(boolPs) == 2):
					scopeP = p
				default:
					if funP == nil {
						funP = p
					}
				}
			}
			// local closures that forward (region, names) to WalkSExprs
			markers := map[types.Object]bool{}
			ast.Inspect(fd.Body, func(n ast.Node) bool {
				as, ok := n.(*ast.AssignStmt)
				if !ok || len(as.Lhs) != 1 || len(as.Rhs) != 1 {
					return true
				}
				lit, ok := as.Rhs[0].(*ast.FuncLit)
				if !ok || lit.Type.Params == nil || len(lit.Type.Params.List) < 2 {
					return true
				}
				first := info.Defs[lit.Type.Params.List[0].Names[0]]
				for _, ce := range callsIn(lit.Body, false) {
					if originOf(Callee(info, ce)) == walk && len(ce.Args) >= 1 && identObj(info, ce.Args[0]) == first {
						markers[identObj(info, as.Lhs[0])] = true
					}
				}
				return true
			})
			// ... or private functions of the package of the same shape
			markerFns := map[*types.Func]bool{}
			for _, hu := range c.withHelpers(u) {
				if hu.Obj == fn {
					continue
				}
				ps := paramObjs(hu)
				if len(ps) < 2 {
					continue
				}
				for _, ce := range callsIn(hu.Decl.Body, false) {
					if originOf(Callee(hu.Pkg.TypesInfo, ce)) == walk && len(ce.Args) >= 1 && identObj(hu.Pkg.TypesInfo, ce.Args[0]) == ps[0] {
						markerFns[hu.Obj] = true
					}
				}
			}
			// names maps that receive formals are "parameter" name sets
			paramNames := map[types.Object]bool{}
			ast.Inspect(fd.Body, func(n ast.Node) bool {
				if ce, ok := n.(*ast.CallExpr); ok && collect != nil && originOf(Callee(info, ce)) == collect && len(ce.Args) == 2 {
					if o := identObj(info, ce.Args[1]); o != nil {
						paramNames[o] = true
					}
				}
				return true
			})
			// entry variables: range values over binds.Cells
			entryVars := map[types.Object]bool{}
			ast.Inspect(fd.Body, func(n ast.Node) bool {
				if rs, ok := n.(*ast.RangeStmt); ok && rs.Value != nil {
					if se, ok := ast.Unparen(rs.X).(*ast.SelectorExpr); ok && se.Sel.Name == "Cells" && identObj(info, se.X) == bindsP {
						entryVars[identObj(info, rs.Value)] = true
					}
				}
				return true
			})
			// ... and range values over a local slice that only ever receives entries (`entries = append(entries,
			// bind)` with bind an entry variable: the well-formed entries, collected once)
			for pass := 0; pass < 2; pass++ {
				entrySlices := map[types.Object]bool{}
				notOnly := map[types.Object]bool{}
				ast.Inspect(fd.Body, func(n ast.Node) bool {
					as, ok := n.(*ast.AssignStmt)
					if !ok || len(as.Lhs) != 1 || len(as.Rhs) != 1 {
						return true
					}
					o := identObj(info, as.Lhs[0])
					if o == nil {
						return true
					}
					if _, isSlice := o.Type().Underlying().(*types.Slice); !isSlice {
						return true
					}
					ce, ok := ast.Unparen(as.Rhs[0]).(*ast.CallExpr)
					if ok && types.ExprString(ce.Fun) == "append" && len(ce.Args) >= 2 && identObj(info, ce.Args[0]) == o && !ce.Ellipsis.IsValid() {
						all := true
						for _, el := range ce.Args[1:] {
							if !entryVars[identObj(info, el)] {
								all = false
							}
						}
						if all {
							entrySlices[o] = true
						} else {
							notOnly[o] = true
						}
						return true
					}
					if as.Tok != token.DEFINE || !isNilIdent(info, as.Rhs[0]) {
						notOnly[o] = true
					}
					return true
				})
				ast.Inspect(fd.Body, func(n ast.Node) bool {
					if rs, ok := n.(*ast.RangeStmt); ok && rs.Value != nil {
						if o := identObj(info, rs.X); o != nil && entrySlices[o] && !notOnly[o] {
							entryVars[identObj(info, rs.Value)] = true
						}
					}
					return true
				})
			}
			// bodyParamIsBody: every call of the marking function passes, for the body parameter, the forms
			// of the binding form from position >= 2 on — `sexpr.Cells[k:]` with k >= 2 (or `at+1` with
			// at >= 1), written at the call or as the corresponding result of the helper that takes the
			// form apart (bindingList)
			bodyParamIsBody := false
			if bodyP != nil {
				isBodySlice := func(ri *types.Info, rbody ast.Node, e ast.Expr) bool {
					sl, ok := ast.Unparen(e).(*ast.SliceExpr)
					if !ok || sl.Low == nil || sl.High != nil {
						return false
					}
					if se, ok := ast.Unparen(sl.X).(*ast.SelectorExpr); !ok || se.Sel.Name != "Cells" {
						return false
					}
					if k, ok := intConst(ri, sl.Low); ok {
						return k >= 2
					}
					// at+1 with at a local whose every definition is a constant >= 1
					be, ok := ast.Unparen(sl.Low).(*ast.BinaryExpr)
					if !ok || be.Op != token.ADD {
						return false
					}
					k, okc := intConst(ri, be.Y)
					v := identObj(ri, be.X)
					if !okc || k < 1 || v == nil {
						return false
					}
					okDefs, n := true, 0
					ast.Inspect(rbody, func(m ast.Node) bool {
						if as, ok := m.(*ast.AssignStmt); ok && len(as.Lhs) == len(as.Rhs) {
							for i, l := range as.Lhs {
								if identObj(ri, l) == v {
									n++
									if c0, ok := intConst(ri, as.Rhs[i]); !ok || c0 < 1 {
										okDefs = false
									}
								}
							}
						}
						return true
					})
					return okDefs && n > 0
				}
				sites, refs := c.CallsTo(nil, fn)
				idxBody := -1
				for i, p := range paramObjs(u) {
					if p == bodyP {
						idxBody = i
					}
				}
				bodyParamIsBody = len(refs) == 0 && len(sites) > 0 && idxBody >= 0
				for _, st := range sites {
					if idxBody >= len(st.Call.Args) {
						bodyParamIsBody = false
						continue
					}
					sinfo := st.Unit.Pkg.TypesInfo
					arg := st.Call.Args[idxBody]
					if isBodySlice(sinfo, st.Unit.Decl.Body, arg) {
						continue
					}
					okArg := false
					if o := identObj(sinfo, arg); o != nil {
						if dc, ridx, ndef := definingCall(sinfo, st.Unit.Decl.Body, o); dc != nil && ndef == 1 {
							if h := originOf(Callee(sinfo, dc)); h != nil {
								if hd := c.declOf[h]; hd != nil && hd.Body != nil {
									hinfo := c.pkgOf[hd].TypesInfo
									good, nr := true, 0
									for _, rs := range returnsOf(hd.Body) {
										if ridx >= len(rs.Results) {
											good = false
											continue
										}
										if isNilIdent(hinfo, rs.Results[ridx]) {
											continue
										}
										nr++
										if !isBodySlice(hinfo, hd.Body, rs.Results[ridx]) {
											good = false
										}
									}
									okArg = good && nr > 0
								}
							}
						}
					}
					if !okArg {
						bodyParamIsBody = false
					}
				}
			}
			classify := func(e ast.Expr) string {
				e = ast.Unparen(e)
				if bodyP != nil && identObj(info, e) == bodyP && bodyParamIsBody {
					return "body"
				}
				if cl, ok := e.(*ast.CompositeLit); ok {
					for _, el := range cl.Elts {
						if identObj(info, el) == formP {
							return "form"
						}
						if identObj(info, el) == bindsP {
							return "entries"
						}
					}
					return "other"
				}
				cells := func(x ast.Expr) (types.Object, bool) {
					se, ok := ast.Unparen(x).(*ast.SelectorExpr)
					if !ok || se.Sel.Name != "Cells" {
						return nil, false
					}
					return identObj(info, se.X), true
				}
				if sl, ok := e.(*ast.SliceExpr); ok {
					if o, ok := cells(sl.X); ok {
						lo := 0
						if sl.Low != nil {
							if v, ok := intConst(info, sl.Low); ok {
								lo = v
							} else {
								return "other"
							}
						}
						switch {
						case o == formP && lo >= 2:
							return "body"
						case o == formP:
							return "form"
						case o == bindsP || entryVars[o]:
							return "entries"
						}
					}
					return "other"
				}
				if o, ok := cells(e); ok {
					switch {
					case o == formP:
						return "form"
					case o == bindsP || entryVars[o]:
						return "entries"
					}
				}
				return "other"
			}
			type region struct{ where, names string }
			regionsUnder := func(fun, scope bool) (rs []region, undecided string) {
				known := map[types.Object]bool{}
				if funP != nil {
					known[funP] = fun
				}
				if scopeP != nil {
					known[scopeP] = scope
				}
				s1 := condPruner(info, fd.Body, known)
				s2 := func(ast.Node) bool { return false }
				ast.Inspect(fd.Body, func(n ast.Node) bool {
					if n != nil && (s1(n) || s2(n)) {
						return false
					}
					if lit, ok := n.(*ast.FuncLit); ok {
						_ = lit
						return false // the marker closure itself
					}
					ce, ok := n.(*ast.CallExpr)
					if !ok {
						return true
					}
					var regionArg, namesArg ast.Expr
					if o := identObj(info, ce.Fun); o != nil && markers[o] && len(ce.Args) >= 2 {
						regionArg, namesArg = ce.Args[0], ce.Args[1]
					} else if f := originOf(Callee(info, ce)); f != nil && markerFns[f] && len(ce.Args) >= 2 {
						regionArg, namesArg = ce.Args[0], ce.Args[1]
					} else if originOf(Callee(info, ce)) == walk && len(ce.Args) >= 1 {
						regionArg = ce.Args[0]
					} else {
						return true
					}
					w := classify(regionArg)
					nm := "bound"
					if namesArg != nil && paramNames[identObj(info, namesArg)] {
						nm = "params"
					}
					if w == "other" {
						undecided = "walk over `" + types.ExprString(regionArg) + "` not classified"
					}
					rs = append(rs, region{w, nm})
					return true
				})
				return
			}
			var obs []Obligation
			var ks []string
			for k := range table {
				ks = append(ks, k)
			}
			sort.Strings(ks)
			for _, k := range ks {
				ev, eu, eprob := c.evaluatorValueScope(k)
				construct := "form " + k
				if eprob != "" {
					obs = append(obs, mkOb(c, rid, u, construct, fd, Undecided, eprob, false))
					continue
				}
				inner := ev.String() != "outer"
				rs, und := regionsUnder(table[k], inScope[k])
				body, entries := false, false
				for _, r := range rs {
					if r.names != "bound" {
						continue
					}
					switch r.where {
					case "body":
						body = true
					case "form":
						body, entries = true, true
					case "entries":
						entries = true
					}
				}
				switch {
				case und != "":
					obs = append(obs, mkOb(c, rid, u, construct, fd, Undecided, und, true))
				case inScope[k] != inner:
					obs = append(obs, mkOb(c, rid, u, construct, fd, Violated, fmt.Sprintf("lint's table says valuesInScope=%v for `%s` but the evaluator (%s) evaluates the entries in the %s environment", inScope[k], k, eu.Name(), ev.String()), true))
				case !body:
					obs = append(obs, mkOb(c, rid, u, construct, fd, Violated, "the body of the form is not walked with the bound names: a call in the body that reaches the local binding is reported against the builtin", true))
				case inner && !entries:
					obs = append(obs, mkOb(c, rid, u, construct, fd, Violated, "the evaluator ("+eu.Name()+") evaluates the entries of `"+k+"` in the environment that receives the bindings, but lint does not walk the entries: a call in a value form that reaches an earlier local binding is reported against the builtin", true))
				case !inner && entries:
					obs = append(obs, mkOb(c, rid, u, construct, fd, Violated, "the evaluator ("+eu.Name()+") evaluates the entries of `"+k+"` in the ENCLOSING environment, before the names exist, but lint exempts calls to the bound names inside the entries too: (let ((get f) (y (get 5))) y) calls the builtin get with one argument and is not reported", true))
				default:
					obs = append(obs, mkOb(c, rid, u, construct, fd, Proved, fmt.Sprintf("body walked; entries walked with the bound names: %v; evaluator %s: %s", entries, eu.Name(), ev.String()), true))
				}
			}
			return obs
		}})

	register(&Rule{ID: "ARITY.user-single-source", Floor: 2,
		Doc: "the user-arity analyzer takes both bounds straight from the analyzed signature (Signature.MinArity / MaxArity, the computation shared with the rest of the tooling): each bound variable has exactly one definition and it is that call — no local adjustment of a bound",
		Run: func(c *Ctx) []Obligation {
			p := c.Pkg("lint")
			minM := c.LookupMethod("analysis.Signature.MinArity")
			maxM := c.LookupMethod("analysis.Signature.MaxArity")
			if p == nil || minM == nil || maxM == nil {
				return []Obligation{anchorMissing("ARITY.user-single-source", "lint / analysis.Signature.MinArity / MaxArity")}
			}
			info := p.TypesInfo
			var lit *ast.FuncLit
			for _, f := range p.Syntax {
				ast.Inspect(f, func(n ast.Node) bool {
					vs, ok := n.(*ast.ValueSpec)
					if !ok || len(vs.Names) != 1 || vs.Names[0].Name != "AnalyzerUserArity" {
						return true
					}
					ast.Inspect(vs, func(m ast.Node) bool {
						if kv, ok := m.(*ast.KeyValueExpr); ok {
							if id, ok := kv.Key.(*ast.Ident); ok && id.Name == "Run" {
								lit, _ = kv.Value.(*ast.FuncLit)
							}
						}
						return true
					})
					return false
				})
			}
			if lit == nil {
				return []Obligation{anchorMissing("ARITY.user-single-source", "AnalyzerUserArity.Run")}
			}
			var obs []Obligation
			for _, m := range []*types.Func{minM, maxM} {
				// the variable defined from this call
				var v types.Object
				var def ast.Node
				ast.Inspect(lit.Body, func(n ast.Node) bool {
					as, ok := n.(*ast.AssignStmt)
					if !ok || len(as.Lhs) != len(as.Rhs) {
						return true
					}
					for i, r := range as.Rhs {
						if ce, ok := ast.Unparen(r).(*ast.CallExpr); ok && originOf(Callee(info, ce)) == m {
							v, def = identObj(info, as.Lhs[i]), as
						}
						// ... or the bound is put straight into a spec value: spec := aritySpec{min: sig.MinArity(), …}
						if cl, ok := ast.Unparen(r).(*ast.CompositeLit); ok {
							for _, el := range cl.Elts {
								val := el
								if kv, ok := el.(*ast.KeyValueExpr); ok {
									val = kv.Value
								}
								if ce, ok := ast.Unparen(val).(*ast.CallExpr); ok && originOf(Callee(info, ce)) == m {
									v, def = identObj(info, as.Lhs[i]), as
								}
							}
						}
					}
					return true
				})
				o := Obligation{Rule: "ARITY.user-single-source", Func: "lint.AnalyzerUserArity", Construct: "bound from " + m.Name(), Pos: c.Pos(lit.Pos()), Nontrivial: true}
				if v == nil {
					o.Verdict, o.Detail = Violated, "the analyzer no longer reads Signature."+m.Name()+"()"
					obs = append(obs, o)
					continue
				}
				o.Pos = c.Pos(def.Pos())
				nwrites := 0
				ast.Inspect(lit.Body, func(n ast.Node) bool {
					switch x := n.(type) {
					case *ast.AssignStmt:
						for _, l := range x.Lhs {
							if identObj(info, l) == v {
								nwrites++
							}
							// a field of the spec value written afterwards is an adjustment too
							if se, ok := ast.Unparen(l).(*ast.SelectorExpr); ok && identObj(info, se.X) == v {
								nwrites++
							}
						}
					case *ast.IncDecStmt:
						if identObj(info, x.X) == v {
							nwrites++
						}
						if se, ok := ast.Unparen(x.X).(*ast.SelectorExpr); ok && identObj(info, se.X) == v {
							nwrites++
						}
					case *ast.UnaryExpr:
						if x.Op == token.AND && identObj(info, x.X) == v {
							nwrites++
						}
					}
					return true
				})
				if nwrites == 1 {
					o.Verdict, o.Detail = Proved, "`"+v.Name()+"` is defined once, from Signature."+m.Name()+"()"
				} else {
					o.Verdict, o.Detail = Violated, fmt.Sprintf("`%s` is written %d times: the bound from Signature.%s() is adjusted locally, so lint and the binder no longer share one computation", v.Name(), nwrites, m.Name())
				}
				obs = append(obs, o)
			}
			return obs
		}})
}

// structuredArgs: which argument positions of a special operator / macro are
// read as syntax (their .Cells are taken apart by the implementation) rather
// than only handed to the evaluator.  "rest" means elements of a range over
// args.Cells (every remaining argument is a clause).
func (c *Ctx) structuredArgs(e RegEntry) (pos map[string]bool) {
	pos = map[string]bool{}
	body, u, _, ok := c.BodyOf(e)
	if !ok || u.Decl == nil {
		return
	}
	info := u.Pkg.TypesInfo
	ps := paramObjs(u)
	if len(ps) != 2 {
		return
	}
	argsP := ps[1]
	label := map[types.Object]string{}
	argIndex := func(x ast.Expr) (string, bool) {
		x = ast.Unparen(x)
		if ie, ok := x.(*ast.IndexExpr); ok {
			if se, ok := ast.Unparen(ie.X).(*ast.SelectorExpr); ok && se.Sel.Name == "Cells" && identObj(info, se.X) == argsP {
				if k, ok := intConst(info, ie.Index); ok {
					return fmt.Sprintf("arg%d", k), true
				}
			}
		}
		if o := identObj(info, x); o != nil {
			if l, ok := label[o]; ok {
				return l, true
			}
		}
		return "", false
	}
	// the args header may be re-sliced (args.Cells = args.Cells[1:]); indices
	// taken after that are shifted — only aliases defined BEFORE the first such
	// store are labelled
	var reslice token.Pos = token.NoPos
	ast.Inspect(body, func(n ast.Node) bool {
		if as, ok := n.(*ast.AssignStmt); ok {
			for _, l := range as.Lhs {
				if se, ok := ast.Unparen(l).(*ast.SelectorExpr); ok && se.Sel.Name == "Cells" && identObj(info, se.X) == argsP {
					if !reslice.IsValid() || as.Pos() < reslice {
						reslice = as.Pos()
					}
				}
			}
		}
		return true
	})
	for pass := 0; pass < 2; pass++ {
		ast.Inspect(body, func(n ast.Node) bool {
			switch x := n.(type) {
			case *ast.AssignStmt:
				if reslice.IsValid() && x.Pos() > reslice {
					return true
				}
				if len(x.Lhs) == len(x.Rhs) {
					for i, l := range x.Lhs {
						if lab, ok := argIndex(x.Rhs[i]); ok {
							if o := identObj(info, l); o != nil {
								label[o] = lab
							}
						}
					}
				}
			case *ast.RangeStmt:
				if reslice.IsValid() && x.Pos() > reslice {
					return true
				}
				if se, ok := ast.Unparen(x.X).(*ast.SelectorExpr); ok && se.Sel.Name == "Cells" && identObj(info, se.X) == argsP && x.Value != nil {
					if o := identObj(info, x.Value); o != nil {
						label[o] = "rest"
					}
				}
			}
			return true
		})
	}
	ast.Inspect(body, func(n ast.Node) bool {
		se, ok := n.(*ast.SelectorExpr)
		if !ok || se.Sel.Name != "Cells" {
			return true
		}
		if lab, ok := argIndex(se.X); ok {
			pos[lab] = true
		}
		return true
	})
	// an argument used as a FORMALS list: passed as the formals of <env>.Lambda(formals, body),
	// or placed right after a `lambda` head in a form the implementation builds
	ast.Inspect(body, func(n ast.Node) bool {
		switch x := n.(type) {
		case *ast.CallExpr:
			if se, ok := ast.Unparen(x.Fun).(*ast.SelectorExpr); ok && se.Sel.Name == "Lambda" && len(x.Args) == 2 {
				if lab, ok := argIndex(x.Args[0]); ok {
					pos[lab] = true
				}
			}
		case *ast.CompositeLit:
			for i := 0; i+1 < len(x.Elts); i++ {
				ce, ok := ast.Unparen(x.Elts[i]).(*ast.CallExpr)
				if !ok || len(ce.Args) != 1 {
					continue
				}
				if sv, ok := constStringVal(info, ce.Args[0]); ok && (sv == "lambda" || strings.HasSuffix(sv, ":lambda")) {
					if lab, ok := argIndex(x.Elts[i+1]); ok {
						pos[lab] = true
					}
				}
			}
		}
		return true
	})
	return
}

func init() {
	register(&Rule{ID: "ARITY.syntax-positions", Floor: 8,
		Doc: "every special operator or macro whose implementation takes one of its arguments apart as syntax (reads the .Cells of the argument instead of only evaluating it: binding lists, control sequences, clauses, formals) is known to lint's call-shaped checks: it is a bindingForms member or aritySkipNodes has a case for it that marks nodes as skipped — otherwise the list in that position is checked as a call to its first element",
		Run: func(c *Ctx) []Obligation {
			table, node, prob := c.lintBindingForms()
			if prob != "" {
				return []Obligation{anchorMissing("ARITY.syntax-positions", prob)}
			}
			_, sfd, spkg := c.LookupFunc("lint.aritySkipNodes")
			if sfd == nil {
				return []Obligation{anchorMissing("ARITY.syntax-positions", "lint.aritySkipNodes")}
			}
			handled := map[string]bool{}
			ast.Inspect(sfd.Body, func(n ast.Node) bool {
				cc, ok := n.(*ast.CaseClause)
				if !ok {
					return true
				}
				marks := false
				ast.Inspect(cc, func(m ast.Node) bool {
					if as, ok := m.(*ast.AssignStmt); ok {
						for _, l := range as.Lhs {
							if ie, ok := ast.Unparen(l).(*ast.IndexExpr); ok && types.ExprString(ie.X) == "skip" {
								marks = true
							}
						}
					}
					return true
				})
				if marks {
					for _, e := range cc.List {
						if s, ok := constStringVal(spkg.TypesInfo, e); ok {
							handled[s] = true
						}
					}
				}
				return true
			})
			var obs []Obligation
			pos := c.Pos(node.Pos())
			for _, e := range c.Registry() {
				if rel(e.Pkg.PkgPath) != "lisp" || (e.Kind != "op" && e.Kind != "macro") {
					continue
				}
				sp := c.structuredArgs(e)
				if len(sp) == 0 {
					continue
				}
				var ks []string
				for k := range sp {
					ks = append(ks, k)
				}
				sort.Strings(ks)
				o := Obligation{Rule: "ARITY.syntax-positions", Func: "lint.aritySkipNodes", Construct: "operator " + e.Name, Pos: pos, Nontrivial: true}
				_, inTable := table[e.Name]
				switch {
				case inTable:
					o.Verdict, o.Detail = Proved, "takes "+strings.Join(ks, ",")+" apart as syntax; bindingForms member"
				case handled[e.Name]:
					o.Verdict, o.Detail = Proved, "takes "+strings.Join(ks, ",")+" apart as syntax; aritySkipNodes has a case that excludes nodes"
				default:
					o.Verdict, o.Detail = Undecided, "the implementation of `"+e.Name+"` takes "+strings.Join(ks, ",")+" apart as syntax, but lint has no exclusion for it: the list in that position is checked as a call to its first element"
				}
				obs = append(obs, o)
			}
			return obs
		}})
}

func init() {
	register(&Rule{ID: "ARITY.shared-skip-set", Floor: 3,
		Doc: "the three arity analyzers (builtin-arity, if-arity, user-arity) consult the same set of excluded nodes: each one's Run computes aritySkipNodes over the pass's expressions and returns early for a node in that set — a list that is syntax (a formals list, a binding entry, a clause) is not a call for any of them (sibling agreement; found if-arity reporting the formals list `(if then else)`)",
		Run: func(c *Ctx) []Obligation {
			p := c.Pkg("lint")
			skipFn := c.LookupPkgFunc("lint.aritySkipNodes")
			if p == nil || skipFn == nil {
				return []Obligation{anchorMissing("ARITY.shared-skip-set", "lint / aritySkipNodes")}
			}
			info := p.TypesInfo
			var obs []Obligation
			lits := map[string]*ast.FuncLit{}
			for _, name := range []string{"AnalyzerBuiltinArity", "AnalyzerIfArity", "AnalyzerUserArity"} {
				var lit *ast.FuncLit
				for _, f := range p.Syntax {
					ast.Inspect(f, func(n ast.Node) bool {
						vs, ok := n.(*ast.ValueSpec)
						if !ok || len(vs.Names) != 1 || vs.Names[0].Name != name {
							return true
						}
						ast.Inspect(vs, func(m ast.Node) bool {
							if kv, ok := m.(*ast.KeyValueExpr); ok {
								if id, ok := kv.Key.(*ast.Ident); ok && id.Name == "Run" {
									lit, _ = kv.Value.(*ast.FuncLit)
								}
							}
							return true
						})
						return false
					})
				}
				o := Obligation{Rule: "ARITY.shared-skip-set", Func: "lint." + name, Construct: "consults the skip set", Nontrivial: true}
				if lit == nil {
					o.Verdict, o.Detail = Undecided, "analyzer not found"
					obs = append(obs, o)
					continue
				}
				o.Pos = c.Pos(lit.Pos())
				// skip := aritySkipNodes(..) ; and an `if skip[X] { return }` inside the walk callback
				var skipObj types.Object
				ast.Inspect(lit.Body, func(n ast.Node) bool {
					if as, ok := n.(*ast.AssignStmt); ok && len(as.Lhs) == 1 && len(as.Rhs) == 1 {
						if ce, ok := ast.Unparen(as.Rhs[0]).(*ast.CallExpr); ok && originOf(Callee(info, ce)) == skipFn {
							skipObj = identObj(info, as.Lhs[0])
						}
					}
					return true
				})
				guarded := false
				if skipObj != nil {
					ast.Inspect(lit.Body, func(n ast.Node) bool {
						is, ok := n.(*ast.IfStmt)
						if !ok || len(is.Body.List) == 0 {
							return true
						}
						uses := false
						ast.Inspect(is.Cond, func(m ast.Node) bool {
							if ie, ok := m.(*ast.IndexExpr); ok && identObj(info, ie.X) == skipObj {
								uses = true
							}
							return true
						})
						if _, isRet := is.Body.List[len(is.Body.List)-1].(*ast.ReturnStmt); uses && isRet {
							guarded = true
						}
						return true
					})
				}
				if guarded {
					o.Verdict, o.Detail = Proved, "computes aritySkipNodes and returns early for an excluded node"
				} else {
					o.Verdict, o.Detail = Violated, name+" does not consult aritySkipNodes: a list that is syntax, not a call (e.g. the formals list of (lambda (if then else) ...)), is reported as a wrong-arity call"
				}
				obs = append(obs, o)
				lits[name] = lit
			}
			// ... and they agree on WHICH operators' argument positions are special: the operator names
			// (string constants) mentioned by the node-set builders an analyzer calls — functions of the
			// package from the pass's expressions to a set of nodes — are the same for all three.  A builder
			// that only some of them call (thread-first / thread-last children counted with one more
			// argument by builtin-arity and user-arity, still judged as written by if-arity) makes the
			// analyzers disagree with each other and one of them with the evaluator.
			nodeSetBuilder := func(f *types.Func) bool {
				if f == nil || f.Pkg() == nil || rel(f.Pkg().Path()) != "lint" {
					return false
				}
				sig, ok := f.Type().(*types.Signature)
				if !ok || sig.Recv() != nil || sig.Results().Len() != 1 {
					return false
				}
				m, ok := sig.Results().At(0).Type().Underlying().(*types.Map)
				if !ok || !isLValPtr(c, m.Key()) {
					return false
				}
				bt, ok := m.Elem().Underlying().(*types.Basic)
				return ok && bt.Kind() == types.Bool
			}
			var opsOf func(f *types.Func, depth int, seen map[*types.Func]bool) map[string]bool
			opsOf = func(f *types.Func, depth int, seen map[*types.Func]bool) map[string]bool {
				out := map[string]bool{}
				fd := c.declOf[f]
				if fd == nil || fd.Body == nil || seen[f] || depth > 3 {
					return out
				}
				seen[f] = true
				fi := c.pkgOf[fd].TypesInfo
				ast.Inspect(fd.Body, func(n ast.Node) bool {
					switch x := n.(type) {
					case *ast.CaseClause:
						for _, e := range x.List {
							if sv, ok := constStringVal(fi, e); ok && sv != "" {
								out[sv] = true
							}
						}
					case *ast.BinaryExpr:
						if x.Op == token.EQL || x.Op == token.NEQ {
							for _, e := range []ast.Expr{x.X, x.Y} {
								if sv, ok := constStringVal(fi, e); ok && sv != "" {
									out[sv] = true
								}
							}
						}
					case *ast.CallExpr:
						if h := originOf(Callee(fi, x)); h != nil && h.Pkg() == f.Pkg() && !h.Exported() {
							for k := range opsOf(h, depth+1, seen) {
								out[k] = true
							}
						}
					}
					return true
				})
				return out
			}
			cover := map[string]map[string]bool{}
			for name, lit := range lits {
				if lit == nil {
					continue
				}
				cover[name] = map[string]bool{}
				for _, ce := range callsIn(lit.Body, true) {
					if f := originOf(Callee(info, ce)); nodeSetBuilder(f) {
						for k := range opsOf(f, 0, map[*types.Func]bool{}) {
							cover[name][k] = true
						}
					}
				}
			}
			for _, name := range sortedKeys(cover) {
				var missing []string
				for _, other := range sortedKeys(cover) {
					for op := range cover[other] {
						if !cover[name][op] {
							missing = append(missing, op+" (handled by "+other+")")
						}
					}
				}
				sort.Strings(missing)
				o := Obligation{Rule: "ARITY.shared-skip-set", Func: "lint." + name, Construct: "operators with special argument positions", Nontrivial: true}
				if lits[name] != nil {
					o.Pos = c.Pos(lits[name].Pos())
				}
				if len(missing) == 0 {
					o.Verdict, o.Detail = Proved, fmt.Sprintf("the node-set builders it calls mention the same %d operators as its siblings'", len(cover[name]))
				} else {
					if len(missing) > 6 {
						missing = append(missing[:6], "…")
					}
					o.Verdict, o.Detail = Violated, name+" takes no account of operators whose argument positions its sibling analyzers treat specially: "+strings.Join(missing, ", ")+" — the analyzers judge the same form differently, so one of them disagrees with the evaluator (e.g. `(thread-first c (if a b))` runs as `(if c a b)`)"
				}
				obs = append(obs, o)
			}
			return obs
		}})
}

// ARITY.quoted-data — C19: a list inside quoted data is not a call.  The
// evaluator returns a quoted value without looking at its elements, so
// '((car) (cdr 1 2)) and (quote (cons 1)) call nothing and may not be reported.
// Structural half, on lint's side of the agreement: the builder of the shared
// skip set marks, recursively, the lists below a quoted list and below the
// operand of `quote`.
func init() {
	register(&Rule{ID: "ARITY.quoted-data", Floor: 2,
		Doc: "the builder of lint's arity skip set (aritySkipNodes and the lint functions it calls) contains a marking descent — a self-recursive function that stores its node into the skip map and recurses over .Cells — that is entered (a) under an IsQuoted() test of the enclosing list and (b) under a test of the head against \"quote\": lists inside quoted data are excluded from every arity check, as the evaluator never calls them",
		Run: func(c *Ctx) []Obligation {
			const rid = "ARITY.quoted-data"
			p := c.Pkg("lint")
			skipFn := c.LookupPkgFunc("lint.aritySkipNodes")
			if p == nil || skipFn == nil {
				return []Obligation{anchorMissing(rid, "lint / aritySkipNodes")}
			}
			info := p.TypesInfo
			decls := map[*types.Func]*ast.FuncDecl{}
			for _, u := range c.Funcs(func(pp string) bool { return rel(pp) == "lint" }) {
				if u.Decl != nil {
					decls[u.Obj] = u.Decl
				}
			}
			// reachable from aritySkipNodes within lint
			reach := map[*types.Func]bool{skipFn: true}
			work := []*types.Func{skipFn}
			for len(work) > 0 {
				f := work[len(work)-1]
				work = work[:len(work)-1]
				d := decls[f]
				if d == nil {
					continue
				}
				for _, ce := range callsIn(d.Body, true) {
					if g := originOf(Callee(info, ce)); g != nil && decls[g] != nil && !reach[g] {
						reach[g] = true
						work = append(work, g)
					}
				}
			}
			// marking descents: self-recursive, store param-node into a map param, recurse over .Cells
			marker := map[*types.Func]bool{}
			for f := range reach {
				d := decls[f]
				if d == nil || d.Type.Params == nil {
					continue
				}
				var mapParam, nodeParam types.Object
				for _, fl := range d.Type.Params.List {
					for _, nm := range fl.Names {
						o := info.Defs[nm]
						if _, ok := o.Type().Underlying().(*types.Map); ok {
							mapParam = o
						} else if isLValPtr(c, o.Type()) {
							nodeParam = o
						}
					}
				}
				if mapParam == nil || nodeParam == nil {
					continue
				}
				stores, recurses := false, false
				ast.Inspect(d.Body, func(n ast.Node) bool {
					switch x := n.(type) {
					case *ast.AssignStmt:
						for _, l := range x.Lhs {
							if ix, ok := ast.Unparen(l).(*ast.IndexExpr); ok && identObj(info, ix.X) == mapParam && identObj(info, ix.Index) == nodeParam {
								stores = true
							}
						}
					case *ast.RangeStmt:
						if se, ok := ast.Unparen(x.X).(*ast.SelectorExpr); ok && se.Sel.Name == "Cells" && identObj(info, se.X) == nodeParam {
							for _, ce := range callsIn(x.Body, false) {
								if originOf(Callee(info, ce)) == f {
									recurses = true
								}
							}
						}
					}
					return true
				})
				if stores && recurses {
					marker[f] = true
				}
			}
			// entries into a marker under the two tests
			underQuoted, underQuoteHead := ast.Node(nil), ast.Node(nil)
			var where *types.Func
			for f := range reach {
				d := decls[f]
				if d == nil || marker[f] {
					continue
				}
				var visit func(n ast.Node, q, h bool)
				visit = func(n ast.Node, q, h bool) {
					ast.Inspect(n, func(m ast.Node) bool {
						switch x := m.(type) {
						case *ast.IfStmt:
							cq, ch := condMentions(info, x.Cond)
							visit(x.Body, q || cq, h || ch)
							if x.Else != nil {
								visit(x.Else, q, h)
							}
							return false
						case *ast.CaseClause:
							cq, ch := false, false
							for _, e := range x.List {
								a, b := condMentions(info, e)
								cq, ch = cq || a, ch || b
							}
							for _, st := range x.Body {
								visit(st, q || cq, h || ch)
							}
							return false
						case *ast.CallExpr:
							if g := originOf(Callee(info, x)); g != nil && marker[g] {
								if q && underQuoted == nil {
									underQuoted, where = x, f
								}
								if h && underQuoteHead == nil {
									underQuoteHead, where = x, f
								}
							}
						}
						return true
					})
				}
				visit(d.Body, false, false)
			}
			u := FuncUnit{Obj: skipFn, Decl: decls[skipFn], Pkg: p}
			_ = where
			var obs []Obligation
			if underQuoted != nil {
				obs = append(obs, mkOb(c, rid, u, "lists below a quoted list", underQuoted, Proved, "marked by a recursive descent entered under an IsQuoted() test", true))
			} else {
				obs = append(obs, mkOb(c, rid, u, "lists below a quoted list", decls[skipFn], Violated, "nothing in the skip-set builder excludes the lists nested inside a quoted list: (set 'x '((car) (cdr 1 2))) evaluates fine (the elements are data) but is reported as two wrong-arity calls", true))
			}
			if underQuoteHead != nil {
				obs = append(obs, mkOb(c, rid, u, "operand of (quote …)", underQuoteHead, Proved, "marked by a recursive descent entered under a test of the head against \"quote\"", true))
			} else {
				obs = append(obs, mkOb(c, rid, u, "operand of (quote …)", decls[skipFn], Violated, "nothing in the skip-set builder excludes the operand of (quote …): (quote (cons 1)) is data but is reported as a wrong-arity call of cons", true))
			}
			return obs
		}})
}

// condMentions: does the condition, when true, imply an IsQuoted() call holds /
// the head equals the string constant "quote"?  (A bare "quote" is a case of a
// switch on the head.)
func condMentions(info *types.Info, e ast.Expr) (quoted, quoteHead bool) {
	if bl, ok := ast.Unparen(e).(*ast.BasicLit); ok && bl.Value == `"quote"` {
		return false, true
	}
	for _, a := range impliedAtoms(e, true) {
		if !a.Positive {
			continue
		}
		switch x := ast.Unparen(a.E).(type) {
		case *ast.CallExpr:
			if se, ok := ast.Unparen(x.Fun).(*ast.SelectorExpr); ok && se.Sel.Name == "IsQuoted" {
				quoted = true
			}
		case *ast.BinaryExpr:
			if x.Op == token.EQL {
				for _, side := range []ast.Expr{x.X, x.Y} {
					if bl, ok := ast.Unparen(side).(*ast.BasicLit); ok && bl.Value == `"quote"` {
						quoteHead = true
					}
				}
			}
		}
	}
	return
}

// ARITY.qualified-heads — C19: `(lisp:car)` is a direct call of the builtin car
// and fails argument binding exactly as `(car)` does; the evaluator resolves
// both spellings to the same function.  The linter's table is keyed by bare
// names, so the head must be stripped of the language package before the
// lookup — otherwise every qualified call is silently accepted.
func init() {
	register(&Rule{ID: "ARITY.qualified-heads", Floor: 1,
		Doc: "in builtin-arity the key used to index builtinArityTable is, for a head spelled with the language package (the constant lisp.DefaultLangPackage + \":\"), the bare name: an assignment to the key from strings.CutPrefix / TrimPrefix with that constant prefix precedes the lookup — `(lisp:car)` is checked like `(car)`",
		Run: func(c *Ctx) []Obligation {
			const rid = "ARITY.qualified-heads"
			p := c.Pkg("lint")
			if p == nil {
				return []Obligation{anchorMissing(rid, "lint")}
			}
			info := p.TypesInfo
			table := c.LookupPkgObj("lint.builtinArityTable")
			if table == nil {
				return []Obligation{anchorMissing(rid, "lint.builtinArityTable")}
			}
			var obs []Obligation
			ord := &ordinal{}
			for _, f := range p.Syntax {
				if strings.HasSuffix(c.Fset.Position(f.Pos()).Filename, "_test.go") {
					continue
				}
				ast.Inspect(f, func(n ast.Node) bool {
					lit, ok := n.(*ast.FuncLit)
					if !ok {
						return true
					}
					var lookups []*ast.IndexExpr
					ast.Inspect(lit.Body, func(m ast.Node) bool {
						if inner, ok := m.(*ast.FuncLit); ok && inner != lit {
							// nested literals are visited on their own below, but a lookup in
							// the walk callback belongs to it, not to the outer Run
							_ = inner
						}
						if ix, ok := m.(*ast.IndexExpr); ok && identObj(info, ix.X) == table {
							lookups = append(lookups, ix)
						}
						return true
					})
					if len(lookups) == 0 {
						return true
					}
					// only the innermost literal containing the lookup
					innermost := true
					ast.Inspect(lit.Body, func(m ast.Node) bool {
						if inner, ok := m.(*ast.FuncLit); ok {
							for _, ix := range lookups {
								if ix.Pos() >= inner.Pos() && ix.End() <= inner.End() {
									innermost = false
								}
							}
						}
						return true
					})
					if !innermost {
						return true
					}
					for _, ix := range lookups {
						key := identObj(info, ix.Index)
						construct := ord.next("lookup builtinArityTable[" + types.ExprString(ix.Index) + "]")
						o := Obligation{Rule: rid, Func: "lint.AnalyzerBuiltinArity", Construct: construct, Pos: c.Pos(ix.Pos()), Nontrivial: true}
						stripped := false
						if key != nil {
							// idents defined from a prefix-stripping call with the language prefix
							fromStrip := map[types.Object]bool{}
							isStrip := func(e ast.Expr) bool {
								ce, ok := ast.Unparen(e).(*ast.CallExpr)
								if !ok || len(ce.Args) != 2 {
									return false
								}
								if !(stdFuncCalled(info, ce, "strings", "CutPrefix") || stdFuncCalled(info, ce, "strings", "TrimPrefix")) {
									return false
								}
								tv, ok := info.Types[ce.Args[1]]
								return ok && tv.Value != nil && tv.Value.ExactString() == `"lisp:"`
							}
							// ... or from a helper of the package that does the stripping and returns the
							// bare name (`name := checkedCoreName(sexpr, fileDefs)`)
							isStripHelper := func(e ast.Expr) bool {
								ce, ok := ast.Unparen(e).(*ast.CallExpr)
								if !ok {
									return false
								}
								h := originOf(Callee(info, ce))
								hd := c.declOf[h]
								if h == nil || hd == nil || hd.Body == nil || h.Pkg() != p.Types {
									return false
								}
								local := map[types.Object]bool{}
								ast.Inspect(hd.Body, func(m ast.Node) bool {
									var as *ast.AssignStmt
									switch x := m.(type) {
									case *ast.AssignStmt:
										as = x
									case *ast.IfStmt:
										as, _ = x.Init.(*ast.AssignStmt)
									}
									if as != nil && len(as.Rhs) == 1 && isStrip(as.Rhs[0]) && len(as.Lhs) >= 1 {
										if o := identObj(info, as.Lhs[0]); o != nil {
											local[o] = true
										}
									}
									return true
								})
								returnsBare := false
								for _, rs := range returnsOf(hd.Body) {
									if len(rs.Results) >= 1 && (local[identObj(info, rs.Results[0])] || isStrip(rs.Results[0])) {
										returnsBare = true
									}
								}
								return returnsBare
							}
							collect := func(lhs []ast.Expr, rhs []ast.Expr) {
								if len(rhs) == 1 && isStripHelper(rhs[0]) && len(lhs) >= 1 {
									if o := identObj(info, lhs[0]); o != nil {
										fromStrip[o] = true
									}
								}
								if len(rhs) == 1 && isStrip(rhs[0]) && len(lhs) >= 1 {
									if o := identObj(info, lhs[0]); o != nil {
										fromStrip[o] = true
									}
								}
							}
							ast.Inspect(lit.Body, func(m ast.Node) bool {
								switch x := m.(type) {
								case *ast.AssignStmt:
									collect(x.Lhs, x.Rhs)
								case *ast.IfStmt:
									if as, ok := x.Init.(*ast.AssignStmt); ok {
										collect(as.Lhs, as.Rhs)
									}
								}
								return true
							})
							ast.Inspect(lit.Body, func(m ast.Node) bool {
								as, ok := m.(*ast.AssignStmt)
								if !ok || as.Pos() > ix.Pos() {
									return true
								}
								for i, l := range as.Lhs {
									if identObj(info, l) != key || i >= len(as.Rhs) {
										continue
									}
									if fromStrip[identObj(info, as.Rhs[i])] || isStrip(as.Rhs[i]) {
										stripped = true
									}
								}
								return true
							})
							if fromStrip[key] {
								stripped = true
							}
						}
						if stripped {
							o.Verdict, o.Detail = Proved, "the key is replaced by the bare name for a head qualified with the language package"
						} else {
							o.Verdict, o.Detail = Violated, "the table is keyed by bare names and the head is looked up as written: `(lisp:car)` — a direct call of the builtin that fails argument binding at run time — is not in the table and is accepted"
						}
						obs = append(obs, o)
					}
					return true
				})
			}
			return obs
		}})
}

// ARITY.params-scoped — C19: "shadowing a builtin name locally … suppresses the
// builtin's check for exactly the calls that reach the shadowing binding".  A
// parameter shadows a builtin inside its own function only.  So (a) the
// name set that exempts calls FILE-WIDE may be built from global definition
// forms only — its builder must not collect formals — and (b) the skip-set
// builder exempts parameter-headed calls inside defun / defmacro / lambda.
func init() {
	register(&Rule{ID: "ARITY.params-scoped", Floor: 3,
		Doc: "in builtin-arity the file-wide exemption set (the string-keyed map tested as `if M[head] { return }`) is built by a function that does not reach CollectFormals, and aritySkipNodes calls, in its defun/defmacro and lambda cases, a function that reaches CollectFormals and stores into the skip set: a parameter named like a builtin exempts the calls inside its own function and no others",
		Run: func(c *Ctx) []Obligation {
			const rid = "ARITY.params-scoped"
			p := c.Pkg("lint")
			skipFn := c.LookupPkgFunc("lint.aritySkipNodes")
			if p == nil || skipFn == nil {
				return []Obligation{anchorMissing(rid, "lint / aritySkipNodes")}
			}
			info := p.TypesInfo
			inScope := func(pp string) bool { return rel(pp) == "lint" || rel(pp) == "astutil" }
			var collectors []*types.Func
			for _, nm := range []string{"lint.CollectFormals", "astutil.CollectFormals"} {
				if f := c.LookupPkgFunc(nm); f != nil {
					collectors = append(collectors, f)
				}
			}
			if len(collectors) == 0 {
				return []Obligation{anchorMissing(rid, "CollectFormals")}
			}
			reaches := map[*types.Func]bool{}
			for _, cf := range collectors {
				reaches[cf] = true
				for f := range c.staticReach(inScope, cf) {
					reaches[f] = true
				}
			}
			// (a) the file-wide exemption map of AnalyzerBuiltinArity
			var lit *ast.FuncLit
			for _, f := range p.Syntax {
				ast.Inspect(f, func(n ast.Node) bool {
					vs, ok := n.(*ast.ValueSpec)
					if !ok || len(vs.Names) != 1 || vs.Names[0].Name != "AnalyzerBuiltinArity" {
						return true
					}
					ast.Inspect(vs, func(m ast.Node) bool {
						if kv, ok := m.(*ast.KeyValueExpr); ok {
							if id, ok := kv.Key.(*ast.Ident); ok && id.Name == "Run" {
								lit, _ = kv.Value.(*ast.FuncLit)
							}
						}
						return true
					})
					return false
				})
			}
			var obs []Obligation
			if lit == nil {
				return []Obligation{anchorMissing(rid, "lint.AnalyzerBuiltinArity Run")}
			}
			// maps with string keys tested in `if M[..] { return }`
			builders := map[types.Object]*ast.CallExpr{}
			ast.Inspect(lit.Body, func(n ast.Node) bool {
				as, ok := n.(*ast.AssignStmt)
				if !ok || len(as.Lhs) != 1 || len(as.Rhs) != 1 {
					return true
				}
				o := identObj(info, as.Lhs[0])
				if o == nil {
					return true
				}
				mt, ok := o.Type().Underlying().(*types.Map)
				if !ok {
					return true
				}
				if b, ok := mt.Key().Underlying().(*types.Basic); !ok || b.Kind() != types.String {
					return true
				}
				if ce, ok := ast.Unparen(as.Rhs[0]).(*ast.CallExpr); ok {
					builders[o] = ce
				}
				return true
			})
			ord := &ordinal{}
			ast.Inspect(lit.Body, func(n ast.Node) bool {
				is, ok := n.(*ast.IfStmt)
				if !ok || len(is.Body.List) == 0 {
					return true
				}
				if _, isRet := is.Body.List[len(is.Body.List)-1].(*ast.ReturnStmt); !isRet {
					return true
				}
				ast.Inspect(is.Cond, func(m ast.Node) bool {
					ix, ok := m.(*ast.IndexExpr)
					if !ok {
						return true
					}
					o := identObj(info, ix.X)
					ce := builders[o]
					if ce == nil {
						return true
					}
					callee := originOf(Callee(info, ce))
					ob := Obligation{Rule: rid, Func: "lint.AnalyzerBuiltinArity", Construct: ord.next("file-wide exemption set " + o.Name()), Pos: c.Pos(ce.Pos()), Nontrivial: true}
					switch {
					case callee == nil:
						ob.Verdict, ob.Detail = Undecided, "builder of the exemption set not resolved"
					case reaches[callee]:
						ob.Verdict, ob.Detail = Violated, "the set that exempts a head everywhere in the file is built by "+FuncName(callee)+", which collects parameter names: one (lambda (get) …) anywhere in the file switches off the arity check of every (get …) call, including calls that reach the builtin and fail at run time"
					default:
						ob.Verdict, ob.Detail = Proved, "built by "+FuncName(callee)+" from definition names only (does not reach CollectFormals)"
					}
					obs = append(obs, ob)
					return true
				})
				return true
			})
			// (b) the skip-set builder scopes parameters
			_, sd, _ := c.LookupFunc("lint.aritySkipNodes")
			u := FuncUnit{Obj: skipFn, Decl: sd, Pkg: p}
			for _, want := range [][]string{{"defun", "defmacro"}, {"lambda"}} {
				construct := "parameters of " + strings.Join(want, "/") + " exempt calls in their own function"
				var found ast.Node
				var clause ast.Node
				ast.Inspect(sd.Body, func(n ast.Node) bool {
					cc, ok := n.(*ast.CaseClause)
					if !ok {
						return true
					}
					has := map[string]bool{}
					for _, e := range cc.List {
						if bl, ok := ast.Unparen(e).(*ast.BasicLit); ok {
							has[strings.Trim(bl.Value, `"`)] = true
						}
					}
					all := true
					for _, w := range want {
						if !has[w] {
							all = false
						}
					}
					if !all {
						return true
					}
					clause = cc
					for _, st := range cc.Body {
						for _, ce := range callsIn(st, false) {
							if f := originOf(Callee(info, ce)); f != nil && reaches[f] {
								passesSkip := false
								for _, a := range ce.Args {
									if o := identObj(info, a); o != nil {
										if _, ok := o.Type().Underlying().(*types.Map); ok {
											passesSkip = true
										}
									}
								}
								if passesSkip {
									found = ce
								}
							}
						}
					}
					return true
				})
				switch {
				case found != nil:
					obs = append(obs, mkOb(c, rid, u, construct, found, Proved, "the case marks parameter-headed calls inside the form", true))
				case clause == nil:
					obs = append(obs, mkOb(c, rid, u, construct, sd, Undecided, "no case for "+strings.Join(want, "/")+" in aritySkipNodes", true))
				default:
					obs = append(obs, mkOb(c, rid, u, construct, clause, Violated, "nothing exempts a call whose head is a parameter of the enclosing function: (defun f (car) (car 1 2 3)) calls the argument, not the builtin, and would be reported", true))
				}
			}
			return obs
		}})
}

// ARITY.user-resolved-in-context — C19: user-arity reports a call against the
// signature of the function the call REACHES.  Two packages may each define f;
// a scope lookup by bare name that falls back to "the f of any package"
// (Scope.Lookup / LookupLocal → lookupAnyPackageSymbol) judges alpha's (f 1)
// by beta's signature.  The symbol must be the one the analysis resolved for
// that head where it is written.
func init() {
	register(&Rule{ID: "ARITY.user-resolved-in-context", Floor: 1,
		Doc: "in user-arity the symbol whose Signature bounds are reported is never the result of a package-agnostic scope lookup (a method of analysis.Scope that reaches lookupAnyPackageSymbol): it is taken from the analysis' resolved references, so a call is judged by the definition visible in its own package and scope",
		Run: func(c *Ctx) []Obligation {
			const rid = "ARITY.user-resolved-in-context"
			p := c.Pkg("lint")
			minM := c.LookupMethod("analysis.Signature.MinArity")
			anyPkg := c.LookupMethod("analysis.Scope.lookupAnyPackageSymbol")
			if p == nil || minM == nil || anyPkg == nil {
				return []Obligation{anchorMissing(rid, "lint / analysis.Signature.MinArity / analysis.Scope.lookupAnyPackageSymbol")}
			}
			info := p.TypesInfo
			agnostic := c.staticReach(func(pp string) bool { return rel(pp) == "analysis" }, anyPkg)
			agnostic[anyPkg] = true
			var lit *ast.FuncLit
			for _, f := range p.Syntax {
				ast.Inspect(f, func(n ast.Node) bool {
					vs, ok := n.(*ast.ValueSpec)
					if !ok || len(vs.Names) != 1 || vs.Names[0].Name != "AnalyzerUserArity" {
						return true
					}
					ast.Inspect(vs, func(m ast.Node) bool {
						if kv, ok := m.(*ast.KeyValueExpr); ok {
							if id, ok := kv.Key.(*ast.Ident); ok && id.Name == "Run" {
								lit, _ = kv.Value.(*ast.FuncLit)
							}
						}
						return true
					})
					return false
				})
			}
			if lit == nil {
				return []Obligation{anchorMissing(rid, "AnalyzerUserArity.Run")}
			}
			// the judged symbol: X in X.Signature.MinArity()
			var sym types.Object
			ast.Inspect(lit.Body, func(n ast.Node) bool {
				ce, ok := n.(*ast.CallExpr)
				if !ok || originOf(Callee(info, ce)) != minM {
					return true
				}
				if se, ok := ast.Unparen(ce.Fun).(*ast.SelectorExpr); ok {
					if in, ok := ast.Unparen(se.X).(*ast.SelectorExpr); ok {
						sym = identObj(info, in.X)
					}
				}
				return true
			})
			o := Obligation{Rule: rid, Func: "lint.AnalyzerUserArity", Construct: "symbol judged", Pos: c.Pos(lit.Pos()), Nontrivial: true}
			if sym == nil {
				o.Verdict, o.Detail = Undecided, "the receiver of Signature.MinArity() is not a local"
				return []Obligation{o}
			}
			var bad *ast.CallExpr
			defs := 0
			check := func(lhs []ast.Expr, rhs []ast.Expr) {
				for i, l := range lhs {
					if identObj(info, l) != sym {
						continue
					}
					defs++
					r := rhs[0]
					if len(rhs) == len(lhs) {
						r = rhs[i]
					}
					for _, ce := range callsIn(r, true) {
						if f := originOf(Callee(info, ce)); f != nil && agnostic[f] {
							bad = ce
						}
					}
				}
			}
			ast.Inspect(lit.Body, func(n ast.Node) bool {
				switch x := n.(type) {
				case *ast.AssignStmt:
					if len(x.Rhs) > 0 {
						check(x.Lhs, x.Rhs)
					}
				case *ast.ValueSpec:
					if len(x.Values) > 0 {
						var lhs []ast.Expr
						for _, nm := range x.Names {
							lhs = append(lhs, nm)
						}
						check(lhs, x.Values)
					}
				}
				return true
			})
			// a second obligation: no exemption keyed by NAME (file-wide)
			var nameSet ast.Node
			ast.Inspect(lit.Body, func(n ast.Node) bool {
				is, ok := n.(*ast.IfStmt)
				if !ok || len(is.Body.List) == 0 {
					return true
				}
				if _, isRet := is.Body.List[len(is.Body.List)-1].(*ast.ReturnStmt); !isRet {
					return true
				}
				ast.Inspect(is.Cond, func(m ast.Node) bool {
					ix, ok := m.(*ast.IndexExpr)
					if !ok {
						return true
					}
					if mt, ok := info.TypeOf(ix.X).Underlying().(*types.Map); ok {
						if b, ok := mt.Key().Underlying().(*types.Basic); ok && b.Kind() == types.String {
							nameSet = is
						}
					}
					return true
				})
				return true
			})
			o2 := Obligation{Rule: rid, Func: "lint.AnalyzerUserArity", Construct: "no file-wide exemption by name", Pos: c.Pos(lit.Pos()), Nontrivial: true}
			if nameSet != nil {
				o2.Pos = c.Pos(nameSet.Pos())
				o2.Verdict, o2.Detail = Violated, "a call is exempted because its head's NAME is in a set built over the whole file: one parameter or let variable called f anywhere switches off the arity check of every call of the global function f — (defun f (a) a) (defun g (f) f) (f 1 2) passes lint and fails at run time"
			} else {
				o2.Verdict, o2.Detail = Proved, "exemptions come from the resolved symbol and the node-keyed skip set only"
			}
			switch {
			case bad != nil:
				o.Pos = c.Pos(bad.Pos())
				o.Verdict, o.Detail = Violated, "the judged symbol comes from `"+types.ExprString(bad)+"`, a bare-name lookup that falls back to a same-named symbol of ANY package: with (defun f (a) …) in package alpha and (defun f (a b) …) in package beta, alpha's correct call (f 1) is reported against beta's signature"
			case defs == 0:
				o.Verdict, o.Detail = Undecided, "no definition of the judged symbol found"
			default:
				o.Verdict, o.Detail = Proved, "not produced by a package-agnostic scope lookup"
			}
			return []Obligation{o, o2}
		}})
}

// ARITY.formals-all-kinds — C19 ("shadowing a builtin name locally suppresses
// the check for the calls that reach the shadowing binding"): every parameter
// of a function — required, optional, rest AND keyword — is a local binding in
// its body.  The helper that lists a formals list's names for the shadowing
// logic must list all of them; a parameter kind left out is a name the linter
// still takes for the builtin.
func init() {
	register(&Rule{ID: "ARITY.formals-all-kinds", Floor: 1,
		Doc: "CollectFormals (the list of names a formals list binds, shared by lint and analysis) records every parameter: either it adds every non-marker symbol of the list, or — when it classifies parameters with lisp.ParamKind — the clauses that record a name cover every constant of that type (required, optional, rest, key)",
		Run: func(c *Ctx) []Obligation {
			const rid = "ARITY.formals-all-kinds"
			fn, fd, pkg := c.LookupFunc("astutil.CollectFormals")
			if fn == nil {
				return []Obligation{anchorMissing(rid, "astutil.CollectFormals")}
			}
			u := FuncUnit{fn, fd, pkg}
			info := pkg.TypesInfo
			lp := c.Pkg("lisp")
			kindT := lp.Types.Scope().Lookup("ParamKind")
			all := map[string]bool{}
			if kindT != nil {
				for _, nm := range lp.Types.Scope().Names() {
					if k, ok := lp.Types.Scope().Lookup(nm).(*types.Const); ok && types.Identical(k.Type(), kindT.Type()) {
						all[nm] = true
					}
				}
			}
			var mapParam types.Object
			for _, f := range fd.Type.Params.List {
				for _, nm := range f.Names {
					if _, ok := info.Defs[nm].Type().Underlying().(*types.Map); ok {
						mapParam = info.Defs[nm]
					}
				}
			}
			stores := func(n ast.Node) bool {
				found := false
				ast.Inspect(n, func(m ast.Node) bool {
					if as, ok := m.(*ast.AssignStmt); ok {
						for _, l := range as.Lhs {
							if ix, ok := ast.Unparen(l).(*ast.IndexExpr); ok && identObj(info, ix.X) == mapParam {
								found = true
							}
						}
					}
					return true
				})
				return found
			}
			var kindSwitch *ast.SwitchStmt
			ast.Inspect(fd.Body, func(n ast.Node) bool {
				if sw, ok := n.(*ast.SwitchStmt); ok && sw.Tag != nil && kindT != nil {
					if tv, ok := info.Types[sw.Tag]; ok && types.Identical(tv.Type, kindT.Type()) {
						kindSwitch = sw
					}
				}
				return true
			})
			if kindSwitch == nil {
				if stores(fd.Body) {
					return []Obligation{mkOb(c, rid, u, "names recorded", fd, Proved, "records every symbol of the list that is not a marker (no classification by parameter kind)", true)}
				}
				return []Obligation{mkOb(c, rid, u, "names recorded", fd, Undecided, "CollectFormals neither stores into its map directly nor classifies parameters by lisp.ParamKind", true)}
			}
			covered := map[string]bool{}
			hasDefaultStore := false
			for _, st := range kindSwitch.Body.List {
				cc := st.(*ast.CaseClause)
				if !stores(cc) {
					continue
				}
				if cc.List == nil {
					hasDefaultStore = true
				}
				for _, e := range cc.List {
					if k, ok := identObjOrSel(info, e).(*types.Const); ok {
						covered[k.Name()] = true
					}
				}
			}
			var missing []string
			for k := range all {
				if !covered[k] && !hasDefaultStore {
					missing = append(missing, k)
				}
			}
			sort.Strings(missing)
			if len(missing) > 0 {
				return []Obligation{mkOb(c, rid, u, "names recorded", kindSwitch, Violated, "parameters of kind "+strings.Join(missing, ", ")+" are not recorded as names the formals list binds: (defun transform (x &key map) (map x)) calls its own keyword parameter, runs fine, and is reported as `map requires at least 3 argument(s)`", true)}
			}
			return []Obligation{mkOb(c, rid, u, "names recorded", kindSwitch, Proved, "every ParamKind is recorded", true)}
		}})
}

// SCOPE.package-before-bare — C19 ("every function defined with defun": a user
// function that has a builtin's name is still the user's function where it is
// visible): names defined in a package are stored under "pkg:name", builtins
// under the bare name.  Resolution in a package therefore asks for the
// package-qualified entry FIRST; asking the bare-name table first finds the
// builtin, and the arity checks judge calls of the user's `first` by the
// builtin's signature (or, having stepped aside for the builtin, not at all).
func init() {
	register(&Rule{ID: "SCOPE.package-before-bare", Floor: 1,
		Doc: "in analysis.Scope.LookupInPackage the bare-name table (Scope.Symbols) is consulted only after the test for a package and the package-qualified lookups it guards (PackageSymbols, PackageImports): on every turn of the scope walk the `pkg != \"\"` test dominates the Symbols lookup",
		Run: func(c *Ctx) []Obligation {
			const rid = "SCOPE.package-before-bare"
			fn, fd, pkg := c.LookupFunc("analysis.(*Scope).LookupInPackage")
			symF := c.LookupField("analysis.Scope.Symbols")
			pkgSymF := c.LookupField("analysis.Scope.PackageSymbols")
			if fn == nil || symF == nil || pkgSymF == nil {
				return []Obligation{anchorMissing(rid, "Scope.LookupInPackage / Scope.Symbols / Scope.PackageSymbols")}
			}
			u := FuncUnit{fn, fd, pkg}
			info := pkg.TypesInfo
			fc := c.cfgOf(u, nil)
			var bare, qualified []Loc
			var bareNode ast.Node
			for _, b := range fc.G.Blocks {
				if !fc.Live(b) {
					continue
				}
				for i, n := range b.Nodes {
					ast.Inspect(n, func(m ast.Node) bool {
						ix, ok := m.(*ast.IndexExpr)
						if !ok {
							return true
						}
						switch FieldOfSelector(info, ix.X) {
						case symF:
							bare = append(bare, Loc{b, i})
							bareNode = ix
						case pkgSymF:
							qualified = append(qualified, Loc{b, i})
						}
						return true
					})
				}
			}
			if len(bare) == 0 || len(qualified) == 0 {
				return []Obligation{mkOb(c, rid, u, "lookup order", fd, Undecided, "the function no longer consults both Scope.Symbols and Scope.PackageSymbols", true)}
			}
			// every path to the bare-name lookup passes the package-qualified lookup or an edge that
			// establishes there is no package (`pkg == ""`, written out or through a named boolean)
			cls := func(e ast.Expr) (string, bool) {
				be, ok := ast.Unparen(e).(*ast.BinaryExpr)
				if !ok || (be.Op != token.NEQ && be.Op != token.EQL) {
					return "", false
				}
				for _, pr := range [][2]ast.Expr{{be.X, be.Y}, {be.Y, be.X}} {
					if s, ok := constStringVal(info, pr[1]); ok && s == "" {
						if o := identObj(info, pr[0]); o != nil {
							for _, pp := range paramObjs(u) {
								if pp == o {
									return "nopkg", be.Op == token.NEQ
								}
							}
						}
					}
				}
				return "", false
			}
			cut := fc.edgesEntailing(cls, func(v map[string]bool) bool { return v["$has:nopkg"] && v["nopkg"] })
			if len(cut) == 0 {
				return []Obligation{mkOb(c, rid, u, "lookup order", fd, Undecided, "no `pkg != \"\"` test found", true)}
			}
			blocked := map[*cfg.Block]bool{}
			for _, q := range qualified {
				blocked[q.B] = true
			}
			for _, bl := range bare {
				same := false
				for _, q := range qualified {
					if q.B == bl.B && q.I <= bl.I {
						same = true
					}
				}
				if !same && (blocked[bl.B] || fc.reachableAvoidingBlocks(bl.B, cut, blocked)) {
					return []Obligation{mkOb(c, rid, u, "lookup order", bareNode, Violated, "the bare-name table is consulted before the package-qualified entries: in a package that defines a function named like a builtin, (defun first (xs default) …), the name resolves to the builtin — user-arity skips the call (not a user function) after builtin-arity stepped aside for the defun, so (first '()) passes lint and fails argument binding at run time", true)}
				}
			}
			return []Obligation{mkOb(c, rid, u, "lookup order", bareNode, Proved, "the package test and the package-qualified lookups precede the bare-name lookup on every turn", true)}
		}})
}

// ARITY.heads-normalised — C19: `lisp:let`, `lisp:quote`, `lisp:lambda`,
// `lisp:if` ARE let, quote, lambda and if.  builtin-arity checks a call under
// its `lisp:` spelling (ARITY.qualified-heads), so every piece of syntax
// knowledge the arity checks rest on — which forms bind, which positions are
// syntax, what is quoted data, which names the file defines — must recognise
// the qualified spelling as well, or (lisp:let ((cons 1)) cons) is reported as
// a wrong-arity call of cons and (lisp:if c a) is not reported at all.
func init() {
	register(&Rule{ID: "ARITY.heads-normalised", Floor: 4,
		Doc: "in lint's arity machinery (aritySkipNodes and the functions it calls, definedFunctionNames, and the three arity analyzers) every dispatch on a head symbol against names of core operators — a `switch` with string cases, or an index into bindingForms — takes the head from a helper that strips the language-package qualifier, or lists the qualified spelling next to each bare one",
		Run: func(c *Ctx) []Obligation {
			const rid = "ARITY.heads-normalised"
			p := c.Pkg("lint")
			if p == nil {
				return []Obligation{anchorMissing(rid, "lint")}
			}
			info := p.TypesInfo
			core := map[string]bool{}
			for _, e := range c.Registry() {
				if rel(e.Pkg.PkgPath) == "lisp" {
					core[e.Name] = true
				}
			}
			bf := c.LookupPkgObj("lint.bindingForms")
			// normalising helpers: lint functions that strip "lisp:"
			norm := map[*types.Func]bool{}
			decls := map[*types.Func]*ast.FuncDecl{}
			for _, u := range c.Funcs(func(pp string) bool { return rel(pp) == "lint" }) {
				if u.Decl == nil || u.Decl.Body == nil {
					continue
				}
				decls[u.Obj] = u.Decl
				for _, ce := range callsIn(u.Decl.Body, false) {
					if (stdFuncCalled(info, ce, "strings", "CutPrefix") || stdFuncCalled(info, ce, "strings", "TrimPrefix")) && len(ce.Args) == 2 {
						if tv, ok := info.Types[ce.Args[1]]; ok && tv.Value != nil && tv.Value.ExactString() == `"lisp:"` {
							norm[u.Obj] = true
						}
					}
				}
			}
			// scope: reachable from aritySkipNodes, plus definedFunctionNames, plus analyzer literals
			scope := map[*ast.BlockStmt]string{}
			var addReach func(f *types.Func, depth int)
			addReach = func(f *types.Func, depth int) {
				d := decls[f]
				if d == nil || depth > 4 {
					return
				}
				if _, seen := scope[d.Body]; seen {
					return
				}
				scope[d.Body] = "lint." + f.Name()
				for _, ce := range callsIn(d.Body, true) {
					if g := originOf(Callee(info, ce)); g != nil && decls[g] != nil && !norm[g] {
						addReach(g, depth+1)
					}
				}
			}
			for _, nm := range []string{"lint.aritySkipNodes", "lint.definedFunctionNames"} {
				if f := c.LookupPkgFunc(nm); f != nil {
					addReach(f, 0)
				}
			}
			for _, f := range p.Syntax {
				ast.Inspect(f, func(n ast.Node) bool {
					vs, ok := n.(*ast.ValueSpec)
					if !ok || len(vs.Names) != 1 {
						return true
					}
					switch vs.Names[0].Name {
					case "AnalyzerBuiltinArity", "AnalyzerIfArity", "AnalyzerUserArity":
						ast.Inspect(vs, func(m ast.Node) bool {
							if kv, ok := m.(*ast.KeyValueExpr); ok {
								if id, ok := kv.Key.(*ast.Ident); ok && id.Name == "Run" {
									if lit, ok := kv.Value.(*ast.FuncLit); ok {
										scope[lit.Body] = "lint." + vs.Names[0].Name
									}
								}
							}
							return true
						})
					}
					return true
				})
			}
			// constTable: e is an element of a package-level map whose literal holds only constant
			// strings that are bare operator names (`testBindingForms["test-let"]` = "let")
			constTable := func(e ast.Expr) bool {
				ix, ok := ast.Unparen(e).(*ast.IndexExpr)
				if !ok {
					return false
				}
				mv, ok := identObj(info, ix.X).(*types.Var)
				if !ok || mv.Parent() != p.Types.Scope() {
					return false
				}
				good, found := true, false
				for _, f := range p.Syntax {
					ast.Inspect(f, func(m ast.Node) bool {
						vs, ok := m.(*ast.ValueSpec)
						if !ok {
							return true
						}
						for i, nm := range vs.Names {
							if info.Defs[nm] != types.Object(mv) || i >= len(vs.Values) {
								continue
							}
							cl, ok := ast.Unparen(vs.Values[i]).(*ast.CompositeLit)
							if !ok {
								good = false
								continue
							}
							found = true
							for _, el := range cl.Elts {
								kv, ok := el.(*ast.KeyValueExpr)
								if !ok {
									good = false
									continue
								}
								if sv, ok := constStringVal(info, kv.Value); !ok || strings.Contains(sv, ":") {
									good = false
								}
							}
						}
						return true
					})
				}
				return good && found
			}
			var fromNormD func(body *ast.BlockStmt, e ast.Expr, depth int) bool
			fromNormD = func(body *ast.BlockStmt, e ast.Expr, depth int) bool {
				e = ast.Unparen(e)
				if ce, ok := e.(*ast.CallExpr); ok {
					return norm[originOf(Callee(info, ce))]
				}
				if sv, ok := constStringVal(info, e); ok {
					return !strings.Contains(sv, ":")
				}
				if constTable(e) {
					return true
				}
				o := identObj(info, e)
				if o == nil || depth > 2 {
					return false
				}
				// every definition of the local is a normalised value
				all := true
				n := 0
				ast.Inspect(body, func(m ast.Node) bool {
					as, isAs := m.(*ast.AssignStmt)
					if !isAs {
						return true
					}
					for i, l := range as.Lhs {
						if identObj(info, l) != o {
							continue
						}
						n++
						switch {
						case len(as.Lhs) == len(as.Rhs):
							if !fromNormD(body, as.Rhs[i], depth+1) {
								all = false
							}
						case len(as.Rhs) == 1 && i == 0 && constTable(as.Rhs[0]):
							// core, ok := table[…]
						default:
							all = false
						}
					}
					return true
				})
				return all && n > 0
			}
			fromNorm := func(body *ast.BlockStmt, e ast.Expr) bool { return fromNormD(body, e, 0) }
			var obs []Obligation
			names := make([]string, 0)
			byName := map[string]*ast.BlockStmt{}
			for b, nm := range scope {
				names = append(names, nm)
				byName[nm] = b
			}
			sort.Strings(names)
			for _, nm := range names {
				body := byName[nm]
				ord := &ordinal{}
				ast.Inspect(body, func(n ast.Node) bool {
					if fl, ok := n.(*ast.FuncLit); ok && fl.Body != body {
						if _, own := scope[fl.Body]; own {
							return false
						}
					}
					var tag ast.Expr
					var cases []string
					var at ast.Node
					switch x := n.(type) {
					case *ast.SwitchStmt:
						if x.Tag == nil {
							return true
						}
						for _, st := range x.Body.List {
							for _, e := range st.(*ast.CaseClause).List {
								if s, ok := constStringVal(info, e); ok {
									cases = append(cases, s)
								}
							}
						}
						tag, at = x.Tag, x
					case *ast.IndexExpr:
						if bf != nil && identObj(info, x.X) == bf {
							tag, at = x.Index, x
							cases = []string{"let"}
						}
					}
					if tag == nil {
						return true
					}
					nCore := 0
					for _, s := range cases {
						if core[s] {
							nCore++
						}
					}
					if nCore == 0 {
						return true
					}
					construct := ord.next("dispatch on " + types.ExprString(tag))
					o := Obligation{Rule: rid, Func: nm, Construct: construct, Pos: c.Pos(at.Pos()), Nontrivial: true}
					qualifiedToo := true
					has := map[string]bool{}
					for _, s := range cases {
						has[s] = true
					}
					for _, s := range cases {
						if core[s] && !has["lisp:"+s] {
							qualifiedToo = false
						}
					}
					switch {
					case fromNorm(body, tag):
						o.Verdict, o.Detail = Proved, "the head is normalised (language-package qualifier stripped) before the dispatch"
					case qualifiedToo:
						o.Verdict, o.Detail = Proved, "the qualified spelling is listed next to each bare core name"
					default:
						o.Verdict, o.Detail = Violated, "core operator names are matched against the head as written: the `lisp:`-qualified spelling of the same operator is not recognised here, so e.g. (lisp:let ((cons 1)) cons) has its binding entry checked as a call of cons, (lisp:quote ((cons))) has quoted data checked as calls, and (lisp:if c a) escapes if-arity"
					}
					obs = append(obs, o)
					return true
				})
			}
			return obs
		}})
}
