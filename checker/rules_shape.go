package main

import (
	"fmt"
	"go/ast"
	"go/token"
	"go/types"
	"sort"
	"strings"
)

// SHAPE.cells-index — constant indexes into the Cells of lisp VALUES.
//
// REG.arity decides `args.Cells[k]` on the argument LIST of a registered builtin (the
// binder guarantees its length).  Everything below that list is a value the program
// supplied: `typespec.Cells[0].Cells[0]` panics with "index out of range" when the user
// data of a forged typedef is not a list, and the evaluator turns that panic into the
// internal-panic condition the property forbids.  For every `X.Cells[k]` / `X.Cells[k:]`
// with constant k in the kernel where X is not such an argument list the rule wants one of
//
//   len   a dominating edge (or the short-circuit context) implies len(X.Cells) > k
//   type  the dominating type tests leave X only types whose constructors all give them
//         more than k cells (the invariant is derived from the composite literals of the
//         module on every run: LArray 2, LTaggedVal 1, LFun 1, LQuote 1, the marks …)
//   ctor  X was built in this function by a constructor call / literal with > k cells
//   pair  X is an element of the list a Map.Entries implementation returned (2-cell pairs)
//   lift  X is (a path below) a parameter of a function with static callers: the obligation
//         moves to each call site
//
// anything else is reported.

type shapeReq struct {
	param int    // -1 = receiver
	path  string // suffix below the parameter, "" or ".Cells.[0]"
	need  int
	// listOK: the function itself excluded the empty list (a dominating !IsNil()): a caller that
	// establishes the value is a list (LSExpr) has established one cell
	listOK bool
}

type shapeSite struct {
	u        FuncUnit
	node     ast.Node
	what     string
	verdict  string
	detail   string
	lifted   bool
	nontriv  bool
	liftedTo *types.Func
}

// shapeInvariants: LType name -> the minimum number of cells every composite literal of the
// module gives a value of that type (0 when a literal has no Cells or a length that cannot be
// read off the code).
func (c *Ctx) shapeInvariants() map[string]int {
	if r, ok := c.memo["shapeInv"].(map[string]int); ok {
		return r
	}
	inv := map[string]int{}
	seen := map[string]bool{}
	lv := c.LookupType("lisp.LVal")
	for _, u := range c.Funcs(nil) {
		info := u.Pkg.TypesInfo
		ast.Inspect(u.Decl.Body, func(n ast.Node) bool {
			cl, ok := n.(*ast.CompositeLit)
			if !ok {
				return true
			}
			tv, ok := info.Types[cl]
			if !ok || lv == nil || !types.Identical(tv.Type, lv) {
				return true
			}
			var tname string
			var cells ast.Expr
			for _, el := range cl.Elts {
				kv, ok := el.(*ast.KeyValueExpr)
				if !ok {
					continue
				}
				kid, _ := kv.Key.(*ast.Ident)
				if kid == nil {
					continue
				}
				switch kid.Name {
				case "Type":
					switch t := ast.Unparen(kv.Value).(type) {
					case *ast.Ident:
						tname = t.Name
					case *ast.SelectorExpr:
						tname = t.Sel.Name
					}
				case "Cells":
					cells = kv.Value
				}
			}
			if tname == "" || !strings.HasPrefix(tname, "L") {
				return true
			}
			m := 0
			if cells != nil {
				m = minLenOfSliceExpr(info, u.Decl.Body, cells, cl.Pos())
			}
			if !seen[tname] || m < inv[tname] {
				inv[tname] = m
			}
			seen[tname] = true
			return true
		})
	}
	// a store to the Type field of an existing value re-types it without its cells: the
	// invariant of the stored type is void unless the store is to a value built right there
	typeFld := c.LookupField("lisp.LVal.Type")
	for _, u := range c.Funcs(nil) {
		info := u.Pkg.TypesInfo
		ast.Inspect(u.Decl.Body, func(n ast.Node) bool {
			as, ok := n.(*ast.AssignStmt)
			if !ok {
				return true
			}
			for i, l := range as.Lhs {
				se, ok := ast.Unparen(l).(*ast.SelectorExpr)
				if !ok || FieldOfSelector(info, se) != typeFld || i >= len(as.Rhs) {
					continue
				}
				switch t := ast.Unparen(as.Rhs[i]).(type) {
				case *ast.Ident:
					inv[t.Name] = 0
				case *ast.SelectorExpr:
					inv[t.Sel.Name] = 0
				}
			}
			return true
		})
	}
	c.memo["shapeInv"] = inv
	return inv
}

// minLenOfSliceExpr: a lower bound on the length of slice expression e as written: the
// element count of a literal; for a local, the length its make() gives it plus the
// single-element appends made to it by statements of the function before position `before`
// that are not nested in a branch or loop.
func minLenOfSliceExpr(info *types.Info, body *ast.BlockStmt, e ast.Expr, before token.Pos) int {
	switch x := ast.Unparen(e).(type) {
	case *ast.CallExpr:
		// make([]T, n) written in place
		if fid, _ := ast.Unparen(x.Fun).(*ast.Ident); fid != nil && fid.Name == "make" && len(x.Args) >= 2 {
			if _, isB := info.Uses[fid].(*types.Builtin); isB {
				return minMakeLen(info, x.Args[1])
			}
		}
		return 0
	case *ast.CompositeLit:
		n := 0
		for _, el := range x.Elts {
			if _, isKV := el.(*ast.KeyValueExpr); isKV {
				return 0
			}
			n++
		}
		return n
	case *ast.Ident:
		obj := info.Uses[x]
		if obj == nil || body == nil {
			return 0
		}
		n := 0
		started := false
		for _, st := range body.List {
			if st.Pos() >= before {
				break
			}
			as, ok := st.(*ast.AssignStmt)
			if !ok || len(as.Lhs) != 1 || len(as.Rhs) != 1 || identObj(info, as.Lhs[0]) != obj {
				// any other statement that mentions the variable on the left voids the count
				ast.Inspect(st, func(m ast.Node) bool {
					if a2, ok := m.(*ast.AssignStmt); ok {
						for _, l := range a2.Lhs {
							if identObj(info, l) == obj {
								n, started = 0, false
							}
						}
					}
					return true
				})
				continue
			}
			ce, ok := ast.Unparen(as.Rhs[0]).(*ast.CallExpr)
			if !ok {
				if cl, ok := ast.Unparen(as.Rhs[0]).(*ast.CompositeLit); ok {
					n, started = minLenOfSliceExpr(info, body, cl, before), true
				} else {
					n, started = 0, false
				}
				continue
			}
			fid, _ := ast.Unparen(ce.Fun).(*ast.Ident)
			if fid == nil {
				n, started = 0, false
				continue
			}
			if _, isB := info.Uses[fid].(*types.Builtin); !isB {
				n, started = 0, false
				continue
			}
			switch fid.Name {
			case "make":
				n, started = 0, true
				if len(ce.Args) >= 2 {
					n = minMakeLen(info, ce.Args[1])
				}
			case "append":
				if !started || len(ce.Args) == 0 || identObj(info, ce.Args[0]) != obj {
					n, started = 0, false
					continue
				}
				if ce.Ellipsis == token.NoPos {
					n += len(ce.Args) - 1
				}
			default:
				n, started = 0, false
			}
		}
		return n
	}
	return 0
}

// minMakeLen: a lower bound on the length argument of a make(): a constant, or `c + <a length>` where the
// other operand is a len()/Len() call (never negative).
func minMakeLen(info *types.Info, e ast.Expr) int {
	if k, ok := intConst(info, e); ok {
		return k
	}
	isLength := func(x ast.Expr) bool {
		ce, ok := ast.Unparen(x).(*ast.CallExpr)
		if !ok {
			return false
		}
		switch f := ast.Unparen(ce.Fun).(type) {
		case *ast.Ident:
			_, isB := info.Uses[f].(*types.Builtin)
			return isB && f.Name == "len"
		case *ast.SelectorExpr:
			return f.Sel.Name == "Len" && len(ce.Args) == 0
		}
		return false
	}
	if be, ok := ast.Unparen(e).(*ast.BinaryExpr); ok && be.Op == token.ADD {
		if k, ok := intConst(info, be.X); ok && k >= 0 && isLength(be.Y) {
			return k
		}
		if k, ok := intConst(info, be.Y); ok && k >= 0 && isLength(be.X) {
			return k
		}
	}
	return 0
}

// pairProducers: functions whose result is a list of 2-cell pairs (the Map.Entries contract and
// the helpers that hand it on).  Each is confirmed on every run: the function (or, for an
// interface method, every implementation in the module) stores into the result only values
// built with two cells.
var pairProducerNames = map[string]bool{
	"lisp.(*MapData).Entries":                     true,
	"lisp.Map.Entries":                            true,
	"lisp.sortedMapEntries":                       true,
	"lisp/lisplib/libelpspath.sortedMapEntries":   true,
	"lisp.(*LVal).MapEntries":                     true,
	"lisp/lisplib/libjson.(*SortedMap).Entries":   true,
	"lisp/lisplib/libjson.SortedMap.Entries":      true,
	"lisp/lisplib/libjson.(SortedMap).Entries":    true,
}

func (a *ownAnalysis) lenLowerBoundKey(fc *FCFG, n ast.Node, stack []ast.Node, key string) int {
	info := a.info
	cellsFld := a.c.LookupField("lisp.LVal.Cells")
	lenM := a.c.LookupMethod("lisp.LVal.Len")
	cellsKey := func(e ast.Expr) string { // key of B for an expression B.Cells (or a local alias of it)
		e = ast.Unparen(e)
		if id, ok := e.(*ast.Ident); ok {
			if d := soleDef(info, a.u.Decl.Body, id); d != nil {
				e = ast.Unparen(d)
			}
		}
		se, ok := e.(*ast.SelectorExpr)
		if !ok || FieldOfSelector(info, se) != cellsFld {
			return ""
		}
		return a.resolvedKey(se.X, 0)
	}
	isLen := func(e ast.Expr) bool {
		ce, ok := ast.Unparen(e).(*ast.CallExpr)
		if !ok {
			return false
		}
		if id, ok := ast.Unparen(ce.Fun).(*ast.Ident); ok && id.Name == "len" && len(ce.Args) == 1 {
			if _, isB := info.Uses[id].(*types.Builtin); isB {
				return cellsKey(ce.Args[0]) == key
			}
		}
		if se, ok := ast.Unparen(ce.Fun).(*ast.SelectorExpr); ok && len(ce.Args) == 0 {
			if originOf(Callee(info, ce)) == lenM {
				return a.resolvedKey(se.X, 0) == key
			}
		}
		return false
	}
	lb := 0
	excluded := map[int]bool{}
	// for-all idiom: an earlier loop `for _, x := range S { if len(x.Cells) != 2 { return … } }` establishes the
	// bound for every element of S; it is inherited by a later range over S (or S[k:]) and by S[i]
	if !strings.HasPrefix(key, "forall:") {
		ast.Inspect(a.u.Decl.Body, func(m ast.Node) bool {
			st0, isStmt := m.(ast.Stmt)
			if !isStmt {
				return true
			}
			seq, elem, lbody, ok := forAllView(info, st0)
			if !ok || st0.End() > n.Pos() || len(lbody) == 0 {
				return true
			}
			early := false
			for _, bs := range lbody {
				ast.Inspect(bs, func(k ast.Node) bool {
					if br, ok := k.(*ast.BranchStmt); ok && (br.Tok == token.BREAK || br.Tok == token.GOTO) {
						early = true
					}
					return true
				})
			}
			if early {
				return true
			}
			xkey := a.resolvedKey(elem, 0)
			skey := a.resolvedKey(seq, 0)
			if xkey == "" || skey == "" {
				return true
			}
			// does the target key denote an element of S?
			applies := key == skey+".[]"
			for i := 0; i < 8 && !applies; i++ {
				applies = key == fmt.Sprintf("%s.[%d]", skey, i)
			}
			for i := len(stack) - 1; i >= 0 && !applies; i-- {
				rs2, ok := stack[i].(*ast.RangeStmt)
				if !ok || rs2.Value == nil || a.resolvedKey(rs2.Value, 0) != key {
					continue
				}
				if a.resolvedKey(rs2.X, 0) == skey {
					applies = true
				} else if sl, ok := ast.Unparen(rs2.X).(*ast.SliceExpr); ok && a.resolvedKey(sl.X, 0) == skey {
					applies = true
				}
			}
			if !applies {
				return true
			}
			for _, cond := range returnGuards(lbody) {
				if sub := a.guardBound(cond, xkey); sub > lb {
					lb = sub
				}
			}
			// the per-element test made by a checking helper: `if lerr := checkLetPair(env, x); lerr != nil { return lerr }`
			for _, bs := range lbody {
				if is, ok := bs.(*ast.IfStmt); ok {
					if sub := a.checkingHelperBound(is, xkey); sub > lb {
						lb = sub
					}
				}
			}
			return true
		})
	}
	// ... the same loop moved into a checking helper whose nil result lets the function go on:
	// `if lerr := checkHandlerBindings(env, lbinds); lerr != nil { return lerr }`
	if !strings.HasPrefix(key, "forall:") {
		ast.Inspect(a.u.Decl.Body, func(m ast.Node) bool {
			is, ok := m.(*ast.IfStmt)
			if !ok || is.End() > n.Pos() || len(is.Body.List) == 0 {
				return true
			}
			if _, isRet := is.Body.List[len(is.Body.List)-1].(*ast.ReturnStmt); !isRet {
				return true
			}
			// the call whose result the condition tests against nil
			var call *ast.CallExpr
			var resObj types.Object
			if as, ok := is.Init.(*ast.AssignStmt); ok && len(as.Lhs) == 1 && len(as.Rhs) == 1 {
				call, _ = ast.Unparen(as.Rhs[0]).(*ast.CallExpr)
				resObj = identObj(info, as.Lhs[0])
			}
			if call == nil || resObj == nil {
				return true
			}
			be, ok := ast.Unparen(is.Cond).(*ast.BinaryExpr)
			if !ok || be.Op != token.NEQ || identObj(info, be.X) != resObj || !isNilIdent(info, be.Y) {
				return true
			}
			h := originOf(Callee(info, call))
			hd := a.c.declOf[h]
			if h == nil || hd == nil || hd.Body == nil || h.Pkg() != a.u.Obj.Pkg() {
				return true
			}
			hu := FuncUnit{h, hd, a.c.pkgOf[hd]}
			hps := paramObjs(hu)
			for ai, arg := range call.Args {
				if ai >= len(hps) {
					break
				}
				skey0 := a.resolvedKey(arg, 0)
				if skey0 == "" {
					continue
				}
				// the helper is handed the very value and checks ITS shape (`if lerr := checkLetPair(env, bind);
				// lerr != nil { return lerr }` in front of bind.Cells[1], same block or an enclosing one): what
				// the refusals inside the helper establish holds after its nil answer
				if skey0 == key {
					inFront := false
					for _, sn := range stack {
						if bl, ok := sn.(*ast.BlockStmt); ok {
							for _, st := range bl.List {
								if st == ast.Stmt(is) {
									inFront = true
								}
							}
						}
					}
					rets := returnsOf(hd.Body)
					hinfo := hu.Pkg.TypesInfo
					nilOnlyLast := len(rets) > 0
					for i, r := range rets {
						if len(r.Results) == 1 && isNilIdent(hinfo, r.Results[0]) && i != len(rets)-1 {
							nilOnlyLast = false
						}
					}
					if inFront && nilOnlyLast {
						ha := newOwnAnalysis(a.c, hu)
						refuses := func(rs *ast.ReturnStmt) bool { return len(rs.Results) == 1 && !isNilIdent(hinfo, rs.Results[0]) }
						for _, cond := range returnGuardsIf(hd.Body.List, refuses) {
							if sub := ha.guardBound(cond, fmt.Sprintf("%p", hps[ai])); sub > lb {
								lb = sub
							}
						}
					}
					continue
				}
				applies := false
				// the helper receives the VALUE and ranges over its cells: the sequence is <value>.Cells
				for _, skey := range []string{skey0 + ".Cells", skey0} {
					if key == skey+".[]" {
						applies = true
					}
					for i := 0; i < 8 && !applies; i++ {
						applies = key == fmt.Sprintf("%s.[%d]", skey, i)
					}
					for i := len(stack) - 1; i >= 0 && !applies; i-- {
						rs2, ok := stack[i].(*ast.RangeStmt)
						if !ok || rs2.Value == nil || a.resolvedKey(rs2.Value, 0) != key {
							continue
						}
						if a.resolvedKey(rs2.X, 0) == skey {
							applies = true
						} else if sl, ok := ast.Unparen(rs2.X).(*ast.SliceExpr); ok && a.resolvedKey(sl.X, 0) == skey {
							applies = true
						}
					}
				}
				if !applies {
					continue
				}
				ha := newOwnAnalysis(a.c, hu)
				hinfo := hu.Pkg.TypesInfo
				// the helper answers nil only by falling off the end of its checks
				nilOnlyLast := true
				rets := returnsOf(hd.Body)
				for i, r := range rets {
					if len(r.Results) == 1 && isNilIdent(hinfo, r.Results[0]) && i != len(rets)-1 {
						nilOnlyLast = false
					}
				}
				if !nilOnlyLast {
					continue
				}
				ast.Inspect(hd.Body, func(k ast.Node) bool {
					st1, isStmt := k.(ast.Stmt)
					if !isStmt {
						return true
					}
					hseq, helem, hbody, ok := forAllView(hinfo, st1)
					if !ok {
						return true
					}
					// ranges over the parameter's cells
					if se, ok := ast.Unparen(hseq).(*ast.SelectorExpr); !ok || identObj(hinfo, se.X) != hps[ai] {
						return true
					}
					early := false
					for _, bs := range hbody {
						ast.Inspect(bs, func(q ast.Node) bool {
							if br, ok := q.(*ast.BranchStmt); ok && (br.Tok == token.BREAK || br.Tok == token.GOTO || br.Tok == token.CONTINUE) {
								early = true
							}
							return true
						})
					}
					if early {
						return true
					}
					xkey := ha.resolvedKey(helem, 0)
					// only a refusal counts: `return nil` inside the loop would be the helper saying `fine`
					refuses := func(rs *ast.ReturnStmt) bool { return len(rs.Results) == 1 && !isNilIdent(hinfo, rs.Results[0]) }
					for _, cond := range returnGuardsIf(hbody, refuses) {
						if sub := ha.guardBound(cond, xkey); sub > lb {
							lb = sub
						}
					}
					return true
				})
			}
			return true
		})
	}
	apply := func(at LitAtom) {
		be, ok := ast.Unparen(at.E).(*ast.BinaryExpr)
		if !ok {
			return
		}
		var op token.Token
		var k int
		switch {
		case isLen(be.X):
			v, ok := intConst(info, be.Y)
			if !ok {
				return
			}
			op, k = be.Op, v
		case isLen(be.Y):
			v, ok := intConst(info, be.X)
			if !ok {
				return
			}
			k = v
			switch be.Op {
			case token.LSS:
				op = token.GTR
			case token.LEQ:
				op = token.GEQ
			case token.GTR:
				op = token.LSS
			case token.GEQ:
				op = token.LEQ
			default:
				op = be.Op
			}
		default:
			return
		}
		if !at.Positive {
			switch op {
			case token.LSS:
				op = token.GEQ
			case token.LEQ:
				op = token.GTR
			case token.GTR:
				op = token.LEQ
			case token.GEQ:
				op = token.LSS
			case token.EQL:
				op = token.NEQ
			case token.NEQ:
				op = token.EQL
			}
		}
		switch op {
		case token.GTR:
			if k+1 > lb {
				lb = k + 1
			}
		case token.GEQ, token.EQL:
			if k > lb {
				lb = k
			}
		case token.NEQ:
			excluded[k] = true
		}
	}
	if loc, ok := fc.Locate(n); ok {
		for _, b := range fc.G.Blocks {
			if !fc.Live(b) || b == loc.B {
				continue
			}
			cond := fc.CondOf(b)
			if cond == nil {
				continue
			}
			for edge := 0; edge < 2; edge++ {
				if !fc.edgeDominates(b, edge, loc.B) {
					continue
				}
				for _, at := range impliedAtoms(cond, edge == 0) {
					apply(at)
				}
			}
		}
	}
	for i := len(stack) - 1; i > 0; i-- {
		be, ok := stack[i-1].(*ast.BinaryExpr)
		if !ok || (be.Op != token.LAND && be.Op != token.LOR) {
			continue
		}
		child, _ := stack[i].(ast.Expr)
		if child == nil || !(be.Y.Pos() <= child.Pos() && child.End() <= be.Y.End()) {
			continue
		}
		for _, at := range impliedAtoms(be.X, be.Op == token.LAND) {
			apply(at)
		}
	}
	// switch len(X.Cells) { case 2: … }
	for i := len(stack) - 1; i > 0; i-- {
		cc, ok := stack[i].(*ast.CaseClause)
		if !ok || len(cc.List) == 0 {
			continue
		}
		for j := i - 1; j >= 0; j-- {
			sw, ok := stack[j].(*ast.SwitchStmt)
			if !ok {
				continue
			}
			if sw.Tag != nil && isLen(sw.Tag) {
				m := -1
				for _, ce := range cc.List {
					v, ok := intConst(info, ce)
					if !ok {
						m = -1
						break
					}
					if m < 0 || v < m {
						m = v
					}
				}
				if m > lb {
					lb = m
				}
			}
			break
		}
	}
	for excluded[lb] {
		lb++
	}
	return lb
}

// arrayDimsMin: the shortest dimension list any lisp.Array call of the module (tests excluded by the
// loader) can pass: nil counts as 1 (Array makes up one dimension), a QExpr/SExpr of a slice literal as its
// element count, anything else as 0.
func (c *Ctx) arrayDimsMin() int {
	if r, ok := c.memo["arrayDimsMin"].(int); ok {
		return r
	}
	min := -1
	for _, u := range c.Funcs(func(p string) bool { return isKernel(p) }) {
		info := u.Pkg.TypesInfo
		a := newOwnAnalysis(c, u)
		ast.Inspect(u.Decl.Body, func(n ast.Node) bool {
			ce, ok := n.(*ast.CallExpr)
			if !ok {
				return true
			}
			fn := originOf(Callee(info, ce))
			if fn == nil || FuncName(fn) != "lisp.Array" || len(ce.Args) < 1 {
				return true
			}
			m := 0
			if isNilIdent(info, ce.Args[0]) {
				m = 1
			} else if k, ok := a.ctorMinCells(ce.Args[0], 0); ok {
				m = k
			}
			if min < 0 || m < min {
				min = m
			}
			return true
		})
	}
	if min < 0 {
		min = 0
	}
	c.memo["arrayDimsMin"] = min
	return min
}

// nonNilList: at node n the value under key is known to be an LSExpr and a dominating edge (or the
// short-circuit context) carries the false side of <key>.IsNil().
func (a *ownAnalysis) nonNilList(fc *FCFG, n ast.Node, stack []ast.Node, key string) bool {
	facts := a.typeFactsAt(fc, n, stack)
	if s := facts[key]; !(len(s) == 1 && s["LSExpr"]) {
		return false
	}
	return a.nilExcluded(fc, n, key)
}

// nilExcluded: a dominating edge carries the false side of <key>.IsNil().
func (a *ownAnalysis) nilExcluded(fc *FCFG, n ast.Node, key string) bool {
	isNilM := a.c.LookupMethod("lisp.LVal.IsNil")
	if isNilM == nil {
		return false
	}
	hit := func(at LitAtom) bool {
		if at.Positive {
			return false
		}
		ce, ok := ast.Unparen(at.E).(*ast.CallExpr)
		if !ok || len(ce.Args) != 0 {
			return false
		}
		se, ok := ast.Unparen(ce.Fun).(*ast.SelectorExpr)
		return ok && originOf(Callee(a.info, ce)) == isNilM && a.resolvedKey(se.X, 0) == key
	}
	loc, ok := fc.Locate(n)
	if !ok {
		return false
	}
	for _, b := range fc.G.Blocks {
		if !fc.Live(b) || b == loc.B || fc.CondOf(b) == nil {
			continue
		}
		for edge := 0; edge < 2; edge++ {
			if !fc.edgeDominates(b, edge, loc.B) {
				continue
			}
			for _, at := range impliedAtoms(fc.CondOf(b), edge == 0) {
				if hit(at) || a.nonNilHelperExcludesNil(at, key, isNilM) {
					return true
				}
			}
		}
	}
	return false
}

// nonNilHelperExcludesNil: the atom says `x != nil` where x := h(…, <key>, …) is the single definition of a
// local by a call of an unexported function of the package, and every non-nil return of h lies behind the
// false side of <param>.IsNil() for the parameter that receives <key> (`mac := macroCallee(env, form);
// if mac == nil { return form }` — macroCallee answers nil for the empty list).
func (a *ownAnalysis) nonNilHelperExcludesNil(at LitAtom, key string, isNilM *types.Func) bool {
	be, ok := ast.Unparen(at.E).(*ast.BinaryExpr)
	if !ok || (be.Op != token.EQL && be.Op != token.NEQ) {
		return false
	}
	x := be.X
	if isNilIdent(a.info, be.X) {
		x = be.Y
	} else if !isNilIdent(a.info, be.Y) {
		return false
	}
	// the atom must say "non-nil"
	if (be.Op == token.NEQ) != at.Positive {
		return false
	}
	d := soleDef(a.info, a.u.Decl.Body, x)
	if d == nil {
		return false
	}
	hc, ok := ast.Unparen(d).(*ast.CallExpr)
	if !ok {
		return false
	}
	h := originOf(Callee(a.info, hc))
	if h == nil || h.Pkg() != a.u.Obj.Pkg() || h.Exported() {
		return false
	}
	sig := h.Type().(*types.Signature)
	var po types.Object
	for i, arg := range hc.Args {
		if i < sig.Params().Len() && a.resolvedKey(arg, 0) == key {
			po = sig.Params().At(i)
		}
	}
	if po == nil {
		return false
	}
	cls := func(hi *types.Info) func(e ast.Expr) (string, bool) {
		return func(e ast.Expr) (string, bool) {
			ce, ok := ast.Unparen(e).(*ast.CallExpr)
			if !ok || len(ce.Args) != 0 || originOf(Callee(hi, ce)) != isNilM {
				return "", false
			}
			se, ok := ast.Unparen(ce.Fun).(*ast.SelectorExpr)
			if !ok || identObj(hi, se.X) != po {
				return "", false
			}
			return "isnil", false
		}
	}
	return a.c.helperNonNilEntails(h, cls, func(v map[string]bool) bool { return v["$has:isnil"] && !v["isnil"] })
}

// guardBound: the lower bound on len(<key>.Cells) that holds when cond is false.
func (a *ownAnalysis) guardBound(cond ast.Expr, key string) int {
	info := a.info
	cellsFld := a.c.LookupField("lisp.LVal.Cells")
	lenM := a.c.LookupMethod("lisp.LVal.Len")
	isLen := func(e ast.Expr) bool {
		ce, ok := ast.Unparen(e).(*ast.CallExpr)
		if !ok {
			return false
		}
		if id, ok := ast.Unparen(ce.Fun).(*ast.Ident); ok && id.Name == "len" && len(ce.Args) == 1 {
			if _, isB := info.Uses[id].(*types.Builtin); isB {
				if se, ok := ast.Unparen(ce.Args[0]).(*ast.SelectorExpr); ok && FieldOfSelector(info, se) == cellsFld {
					return a.resolvedKey(se.X, 0) == key
				}
			}
		}
		if se, ok := ast.Unparen(ce.Fun).(*ast.SelectorExpr); ok && len(ce.Args) == 0 && originOf(Callee(info, ce)) == lenM {
			return a.resolvedKey(se.X, 0) == key
		}
		return false
	}
	lb := 0
	excl := map[int]bool{}
	for _, at := range impliedAtoms(cond, false) {
		be, ok := ast.Unparen(at.E).(*ast.BinaryExpr)
		if !ok {
			continue
		}
		var op token.Token
		var k int
		if isLen(be.X) {
			v, ok := intConst(info, be.Y)
			if !ok {
				continue
			}
			op, k = be.Op, v
		} else if isLen(be.Y) {
			v, ok := intConst(info, be.X)
			if !ok {
				continue
			}
			k = v
			switch be.Op {
			case token.LSS:
				op = token.GTR
			case token.LEQ:
				op = token.GEQ
			case token.GTR:
				op = token.LSS
			case token.GEQ:
				op = token.LEQ
			default:
				op = be.Op
			}
		} else {
			continue
		}
		if !at.Positive {
			switch op {
			case token.LSS:
				op = token.GEQ
			case token.LEQ:
				op = token.GTR
			case token.GTR:
				op = token.LEQ
			case token.GEQ:
				op = token.LSS
			case token.EQL:
				op = token.NEQ
			case token.NEQ:
				op = token.EQL
			}
		}
		switch op {
		case token.GTR:
			if k+1 > lb {
				lb = k + 1
			}
		case token.GEQ, token.EQL:
			if k > lb {
				lb = k
			}
		case token.NEQ:
			excl[k] = true
		}
	}
	for excl[lb] {
		lb++
	}
	return lb
}

// resultMinCells: every return of the module function fn hands back a value built right there with at
// least m cells (a composite literal, a local defined by one, or a call of such a function).
func (c *Ctx) resultMinCells(fn *types.Func, depth int) (int, bool) {
	fd := c.declOf[fn]
	if fd == nil || fd.Body == nil || depth > 2 {
		return 0, false
	}
	sig := fn.Type().(*types.Signature)
	if sig.Results().Len() != 1 || !isLValPtr(c, sig.Results().At(0).Type()) {
		return 0, false
	}
	u := FuncUnit{fn, fd, c.pkgOf[fd]}
	a := newOwnAnalysis(c, u)
	min := -1
	ok := true
	ast.Inspect(fd.Body, func(n ast.Node) bool {
		if _, isLit := n.(*ast.FuncLit); isLit {
			return false
		}
		rs, isRet := n.(*ast.ReturnStmt)
		if !isRet {
			return true
		}
		if len(rs.Results) != 1 {
			ok = false
			return true
		}
		m, good := a.ctorMinCellsDepth(rs.Results[0], 0, depth+1)
		if !good {
			ok = false
			return true
		}
		if min < 0 || m < min {
			min = m
		}
		return true
	})
	if !ok || min < 0 {
		return 0, false
	}
	return min, true
}

// ctorMinCells: e (or the single definition of the local e) is a constructor call or literal
// whose cell count can be read off the code.
func (a *ownAnalysis) ctorMinCells(e ast.Expr, depth int) (int, bool) {
	return a.ctorMinCellsDepth(e, depth, 0)
}

func (a *ownAnalysis) ctorMinCellsDepth(e ast.Expr, depth, fdepth int) (int, bool) {
	e = ast.Unparen(e)
	if depth > 3 {
		return 0, false
	}
	if id, ok := e.(*ast.Ident); ok {
		if d := soleDef(a.info, a.u.Decl.Body, id); d != nil {
			return a.ctorMinCellsDepth(d, depth+1, fdepth)
		}
		return 0, false
	}
	if ue, ok := e.(*ast.UnaryExpr); ok && ue.Op == token.AND {
		e = ast.Unparen(ue.X)
	}
	if cl, ok := e.(*ast.CompositeLit); ok {
		for _, el := range cl.Elts {
			if kv, ok := el.(*ast.KeyValueExpr); ok {
				if kid, _ := kv.Key.(*ast.Ident); kid != nil && kid.Name == "Cells" {
					return minLenOfSliceExpr(a.info, a.u.Decl.Body, kv.Value, cl.Pos()), true
				}
			}
		}
		return 0, false
	}
	ce, ok := e.(*ast.CallExpr)
	if !ok {
		return 0, false
	}
	fn := originOf(Callee(a.info, ce))
	if fn == nil {
		return 0, false
	}
	switch FuncName(fn) {
	case "lisp.SExpr", "lisp.QExpr":
		if len(ce.Args) == 1 {
			return minLenOfSliceExpr(a.info, a.u.Decl.Body, ce.Args[0], ce.Pos()), true
		}
		return 0, false
	}
	return a.c.resultMinCells(fn, fdepth)
}

func (c *Ctx) shapeAnalysis() []shapeSite {
	if r, ok := c.memo["shapeSites"].([]shapeSite); ok {
		return r
	}
	cellsFld := c.LookupField("lisp.LVal.Cells")
	if cellsFld == nil {
		return nil
	}
	inv := c.shapeInvariants()
	// args parameters of registered bodies (REG.arity's domain)
	regArgs := map[types.Object]bool{}
	regArgsN := map[types.Object]int{}
	regFn := map[*types.Func]string{}
	for _, e := range c.Registry() {
		if e.Problem != "" {
			continue
		}
		if e.Fn != nil {
			regFn[e.Fn] = e.Key()
		}
		_, u, lit, ok := c.BodyOf(e)
		if !ok {
			continue
		}
		if o := argsParam(u.Pkg.TypesInfo, u, lit); o != nil {
			n, _ := guaranteedArgs(e)
			if cur, seen := regArgsN[o]; !seen || n < cur {
				regArgsN[o] = n
			}
			regArgs[o] = true
		}
	}
	reqs := map[*types.Func][]shapeReq{}
	addReq := func(fn *types.Func, r shapeReq) bool {
		for i, cur := range reqs[fn] {
			if cur.param == r.param && cur.path == r.path {
				changed := false
				if r.need > cur.need {
					reqs[fn][i].need = r.need
					changed = true
				}
				if cur.listOK && !r.listOK {
					reqs[fn][i].listOK = false
					changed = true
				}
				return changed
			}
		}
		reqs[fn] = append(reqs[fn], r)
		return true
	}
	// static call counts (for lifting: a function nobody calls statically cannot hand its obligation on)
	nCallers := map[*types.Func]int{}
	callees := map[*types.Func]map[*types.Func]bool{}
	for _, u := range c.Funcs(nil) {
		info := u.Pkg.TypesInfo
		ast.Inspect(u.Decl.Body, func(n ast.Node) bool {
			if ce, ok := n.(*ast.CallExpr); ok {
				if fn := originOf(Callee(info, ce)); fn != nil {
					nCallers[fn]++
					if callees[u.Obj] == nil {
						callees[u.Obj] = map[*types.Func]bool{}
					}
					callees[u.Obj][fn] = true
				}
			}
			return true
		})
	}
	// recursive functions (static call graph): an obligation lifted out of one would come straight
	// back with a longer path, so it is decided where it stands
	recursive := map[*types.Func]bool{}
	for fn := range callees {
		seen := map[*types.Func]bool{}
		var stack []*types.Func
		for g := range callees[fn] {
			stack = append(stack, g)
		}
		for len(stack) > 0 && !recursive[fn] {
			g := stack[len(stack)-1]
			stack = stack[:len(stack)-1]
			if g == fn {
				recursive[fn] = true
				break
			}
			if seen[g] {
				continue
			}
			seen[g] = true
			for h := range callees[g] {
				stack = append(stack, h)
			}
		}
	}
	var final []shapeSite
	for round := 0; round < 6; round++ {
		var sites []shapeSite
		changed := false
		for _, u := range c.Funcs(func(p string) bool { return isKernel(p) }) {
			a := newOwnAnalysis(c, u)
			info := a.info
			sig := u.Obj.Type().(*types.Signature)
			paramIndex := func(o types.Object) int {
				if o == nil {
					return -2
				}
				if sig.Recv() == o {
					return -1
				}
				for i := 0; i < sig.Params().Len(); i++ {
					if sig.Params().At(i) == o {
						return i
					}
				}
				return -2
			}
			reassigned := map[types.Object]bool{}
			ast.Inspect(u.Decl.Body, func(m ast.Node) bool {
				switch x := m.(type) {
				case *ast.AssignStmt:
					for _, l := range x.Lhs {
						if o := identObj(info, l); o != nil && x.Tok != token.DEFINE {
							reassigned[o] = true
						}
					}
				case *ast.RangeStmt:
					// range variables are assigned per turn, harmless
				}
				return true
			})
			// justify decides one requirement `len((base+suffix).Cells) >= need` at node n
			justify := func(n ast.Node, st []ast.Node, base ast.Expr, suffix string, need int, what string, listOK bool) shapeSite {
				site := shapeSite{u: u, node: n, what: what, nontriv: true}
				lit := innermostBody(u.Decl, n)
				fc := c.cfgOf(u, lit.Lit)
				key := a.resolvedKey(base, 0)
				fullKey := key
				if key != "" {
					fullKey = key + suffix
				}
				// the same value named as an ELEMENT of the sequence it was taken from (range variable, result
				// of a selecting helper): facts a for-all loop established for every element apply to it
				elemKey := ""
				if ek := a.elementKey(base); ek != "" {
					elemKey = ek + suffix
				}
				// the argument list of a registered builtin, handed on whole to a helper
				if suffix == "" {
					if id, ok := ast.Unparen(base).(*ast.Ident); ok && regArgs[info.Uses[id]] && !reassigned[info.Uses[id]] {
						if g := regArgsN[info.Uses[id]]; g >= need {
							site.verdict, site.detail, site.nontriv = Proved, fmt.Sprintf("the binder guarantees %d cells for this argument list", g), false
							return site
						}
					}
				}
				// ctor
				if suffix == "" {
					if m, ok := a.ctorMinCells(base, 0); ok && m >= need {
						site.verdict, site.detail = Proved, fmt.Sprintf("built in this function with %d cells", m)
						return site
					}
				}
				typeOK := func(s typeSet) (bool, string) {
					if len(s) == 0 {
						return false, ""
					}
					for t := range s {
						if inv[t] < need {
							return false, ""
						}
					}
					return true, s.String()
				}
				byFacts := func(fullKey string) bool {
					if listOK && fullKey != "" && need == 1 {
						facts := a.typeFactsAt(fc, n, st)
						if s := facts[fullKey]; len(s) == 1 && s["LSExpr"] {
							site.verdict, site.detail = Proved, "the value is a list here (dominating type test) and the callee itself excludes the empty list before it reads the first cell"
							return true
						}
					}
				// len
				if fullKey != "" {
					if lb := a.lenLowerBoundKey(fc, n, st, fullKey); lb >= need {
						site.verdict, site.detail = Proved, fmt.Sprintf("dominated by a test implying len(Cells) >= %d", lb)
						return true
					}
					if lit.Lit != nil {
						if lb := a.lenLowerBoundKey(c.cfgOf(u, nil), lit.Lit, st, fullKey); lb >= need {
							site.verdict, site.detail = Proved, fmt.Sprintf("the enclosing function established len(Cells) >= %d before creating the closure", lb)
							return true
						}
					}
				}
				// type invariant
				if fullKey != "" {
					facts := a.typeFactsAt(fc, n, st)
					if ok, desc := typeOK(facts[fullKey]); ok {
						site.verdict, site.detail = Proved, "dominating tests leave only "+desc+", whose constructors all give at least "+fmt.Sprint(need)+" cells"
						return true
					}
					if lit.Lit != nil {
						ofacts := a.typeFactsAt(c.cfgOf(u, nil), lit.Lit, st)
						if ok, desc := typeOK(ofacts[fullKey]); ok {
							site.verdict, site.detail = Proved, "the enclosing function established " + desc + " before creating the closure"
							return true
						}
					}
				}
				// !X.IsNil() on a value known to be a list: at least one cell
				if fullKey != "" && need == 1 {
					if a.nonNilList(fc, n, st, fullKey) {
						site.verdict, site.detail = Proved, "the value is a list (dominating type test) and a dominating IsNil() test excluded the empty one"
						return true
					}
				}
				// the dimension list of an array: every Array(...) call of the module passes nil (one dimension
				// is made up) or a literal dimension list; the shortest such literal bounds dims from below
				if strings.HasSuffix(fullKey, ".Cells.[0]") {
					parent := strings.TrimSuffix(fullKey, ".Cells.[0]")
					facts := a.typeFactsAt(fc, n, st)
					if s := facts[parent]; len(s) == 1 && s["LArray"] {
						if m := c.arrayDimsMin(); m >= need {
							site.verdict, site.detail = Proved, fmt.Sprintf("dimension list of an array: every Array(...) call in the module gives at least %d dimension(s)", m)
							return true
						}
					}
				}
					return false
				}
				if byFacts(fullKey) {
					return site
				}
				if elemKey != "" && elemKey != fullKey && byFacts(elemKey) {
					return site
				}
				if suffix == "" {
					if s := a.exprTypes(base, 0); s != nil {
						if ok, desc := typeOK(s); ok {
							site.verdict, site.detail = Proved, "built by a constructor of type "+desc
							return site
						}
					}
				}
				// pair: element of an Entries result
				if suffix == "" && a.isPairElement(base) {
					if need <= 2 {
						site.verdict, site.detail = Proved, "element of the pair list a Map.Entries implementation returned (two cells each)"
						return site
					}
				}
				// lift
				if lit.Lit == nil {
					liftBase := base
					extra := ""
					if seq := a.rangedSeqOf(base); seq != nil {
						// the value variable of `for _, x := range P.Cells`: an element of P's cells
						liftBase, extra = seq, ".[]"
					}
					if pth, okp := PathOfResolved(info, u.Decl.Body, liftBase); okp && pth.Root != nil {
						sfx := ""
						if len(pth.Elems) > 0 {
							sfx = "." + strings.Join(pth.Elems, ".")
						}
						sfx += extra
						idx := paramIndex(pth.Root)
						if idx >= -1 && !reassigned[pth.Root] && !regArgs[pth.Root] && nCallers[u.Obj] > 0 && regFn[u.Obj] == "" && !recursive[u.Obj] && strings.Count(sfx+suffix, "Cells") <= 2 {
							nilOut := listOK
							if !nilOut && need == 1 && fullKey != "" && a.nilExcluded(fc, n, fullKey) {
								nilOut = true
							}
							if addReq(u.Obj, shapeReq{idx, sfx + suffix, need, nilOut}) {
								changed = true
							}
							site.verdict, site.lifted, site.nontriv = Proved, true, false
							site.detail = "the value is (a path below) this function's own parameter: the obligation moves to every caller of " + u.Name()
							return site
						}
					}
				}
				site.verdict = Undecided
				site.detail = fmt.Sprintf("%s needs at least %d cells, but nothing on the way here establishes the value's type or length: for a value of another shape the index panics in the Go runtime (an internal-panic condition reachable from lisp)", what, need)
				return site
			}
			var stack []ast.Node
			ast.Inspect(u.Decl.Body, func(n ast.Node) bool {
				if n == nil {
					stack = stack[:len(stack)-1]
					return true
				}
				stack = append(stack, n)
				st := func() []ast.Node { s := make([]ast.Node, len(stack)); copy(s, stack); return s }
				switch x := n.(type) {
				case *ast.IndexExpr, *ast.SliceExpr:
					var bx, idx ast.Expr
					isSlice := false
					if ie, ok := x.(*ast.IndexExpr); ok {
						bx, idx = ie.X, ie.Index
					} else {
						se := x.(*ast.SliceExpr)
						bx, idx, isSlice = se.X, se.Low, true
						if idx == nil {
							return true
						}
					}
					k, okc := intConst(info, idx)
					if !okc {
						return true
					}
					// the sliced/indexed thing is B.Cells or a local alias of it
					be := ast.Unparen(bx)
					if id, ok := be.(*ast.Ident); ok {
						if d := soleDef(info, u.Decl.Body, id); d != nil {
							be = ast.Unparen(d)
						}
					}
					se, ok := be.(*ast.SelectorExpr)
					if !ok || FieldOfSelector(info, se) != cellsFld {
						return true
					}
					if id, ok := ast.Unparen(se.X).(*ast.Ident); ok && regArgs[info.Uses[id]] {
						return true // REG.arity
					}
					need := k + 1
					what := fmt.Sprintf("%s.Cells[%d]", exprShape(info, se.X), k)
					if isSlice {
						need = k
						what = fmt.Sprintf("%s.Cells[%d:]", exprShape(info, se.X), k)
					}
					if need == 0 {
						return true
					}
					// an assignment target X.Cells[k] = v is an index as well
					sites = append(sites, justify(n, st(), se.X, "", need, what, false))
				case *ast.CallExpr:
					callee := originOf(Callee(info, x))
					if callee == nil || len(reqs[callee]) == 0 {
						return true
					}
					for _, r := range reqs[callee] {
						var arg ast.Expr
						if r.param < 0 {
							fse, ok := ast.Unparen(x.Fun).(*ast.SelectorExpr)
							if !ok {
								continue
							}
							arg = fse.X
						} else if r.param < len(x.Args) {
							arg = x.Args[r.param]
						} else {
							continue
						}
						short := FuncName(callee)
						short = short[strings.LastIndex(short, ".")+1:]
						what := fmt.Sprintf("call %s with %s%s", short, exprShape(info, arg), strings.ReplaceAll(r.path, ".[", "["))
						s := justify(n, st(), arg, r.path, r.need, what, r.listOK)
						sites = append(sites, s)
					}
				}
				return true
			})
		}
		final = sites
		if !changed {
			break
		}
	}
	sort.SliceStable(final, func(i, j int) bool {
		if final[i].u.Name() != final[j].u.Name() {
			return final[i].u.Name() < final[j].u.Name()
		}
		return final[i].node.Pos() < final[j].node.Pos()
	})
	c.memo["shapeSites"] = final
	return final
}

// rangedSeqOf: e is the value variable of exactly one `for _, e := range S` of this function; S is returned.
func (a *ownAnalysis) rangedSeqOf(e ast.Expr) ast.Expr {
	id, ok := ast.Unparen(e).(*ast.Ident)
	if !ok {
		return nil
	}
	obj := a.info.Uses[id]
	if obj == nil {
		return nil
	}
	var seq ast.Expr
	n := 0
	ast.Inspect(a.u.Decl.Body, func(m ast.Node) bool {
		if rs, ok := m.(*ast.RangeStmt); ok && rs.Value != nil && identObj(a.info, rs.Value) == obj {
			seq = rs.X
			n++
		}
		return true
	})
	if n != 1 {
		return nil
	}
	return seq
}

// elementKey: the access-path key of e when e is known to be an ELEMENT of a sequence: the value variable
// of a range over S (key(S)+".[]"), or a local defined once by a call of a selecting helper of the module
// — a function every non-nil return of which hands back the value variable of a range over <param>.Cells —
// in which case e is an element of the cells of the corresponding argument.
func (a *ownAnalysis) elementKey(e ast.Expr) string {
	if seq := a.rangedSeqOf(e); seq != nil {
		if k := a.resolvedKey(seq, 0); k != "" {
			return k + ".[]"
		}
		return ""
	}
	d := soleDef(a.info, a.u.Decl.Body, e)
	if d == nil {
		return ""
	}
	ce, ok := ast.Unparen(d).(*ast.CallExpr)
	if !ok {
		return ""
	}
	h := originOf(Callee(a.info, ce))
	if h == nil {
		return ""
	}
	hd := a.c.declOf[h]
	if hd == nil || hd.Body == nil {
		return ""
	}
	hu := FuncUnit{h, hd, a.c.pkgOf[hd]}
	ha := newOwnAnalysis(a.c, hu)
	hps := paramObjs(hu)
	pidx := -1
	good := true
	nret := 0
	ast.Inspect(hd.Body, func(m ast.Node) bool {
		if _, isLit := m.(*ast.FuncLit); isLit {
			return false
		}
		rs, ok := m.(*ast.ReturnStmt)
		if !ok {
			return true
		}
		if len(rs.Results) != 1 {
			good = false
			return true
		}
		if isNilIdent(ha.info, rs.Results[0]) {
			return true
		}
		nret++
		seq := ha.rangedSeqOf(rs.Results[0])
		if seq == nil {
			good = false
			return true
		}
		se, ok := ast.Unparen(seq).(*ast.SelectorExpr)
		if !ok || se.Sel.Name != "Cells" {
			good = false
			return true
		}
		po := identObj(ha.info, se.X)
		k := -1
		for i, p := range hps {
			if p == po {
				k = i
			}
		}
		if k < 0 || (pidx >= 0 && pidx != k) {
			good = false
			return true
		}
		pidx = k
		return true
	})
	if !good || nret == 0 || pidx < 0 || pidx >= len(ce.Args) {
		return ""
	}
	if k := a.resolvedKey(ce.Args[pidx], 0); k != "" {
		return k + ".Cells.[]"
	}
	return ""
}

// isPairElement: e is the range value (or an index) over X.Cells where X is the result of a
// pair producer, or over a slice that is such a result's Cells.
func (a *ownAnalysis) isPairElement(e ast.Expr) bool {
	e = ast.Unparen(e)
	info := a.info
	cellsFld := a.c.LookupField("lisp.LVal.Cells")
	isProducerCall := func(x ast.Expr) bool {
		x = ast.Unparen(x)
		if id, ok := x.(*ast.Ident); ok {
			if d := soleDef(info, a.u.Decl.Body, id); d != nil {
				x = ast.Unparen(d)
			}
		}
		ce, ok := x.(*ast.CallExpr)
		if !ok {
			return false
		}
		fn := originOf(Callee(info, ce))
		return fn != nil && pairProducerNames[FuncName(fn)]
	}
	listOfPairs := func(x ast.Expr) bool { // x is L.Cells with L a producer result
		x = ast.Unparen(x)
		if id, ok := x.(*ast.Ident); ok {
			if d := soleDef(info, a.u.Decl.Body, id); d != nil {
				x = ast.Unparen(d)
			}
		}
		se, ok := x.(*ast.SelectorExpr)
		if !ok || FieldOfSelector(info, se) != cellsFld {
			return false
		}
		return isProducerCall(se.X)
	}
	// … or the buffer a producer was asked to fill: `m.Entries(buf)` leaves two-cell pairs in buf
	filledBuf := func(x ast.Expr) bool {
		bo := identObj(info, x)
		if bo == nil {
			return false
		}
		hit := false
		ast.Inspect(a.u.Decl.Body, func(m ast.Node) bool {
			ce, ok := m.(*ast.CallExpr)
			if !ok || ce.Pos() >= e.Pos() {
				return true
			}
			fn := originOf(Callee(info, ce))
			if fn == nil || !pairProducerNames[FuncName(fn)] {
				return true
			}
			for _, arg := range ce.Args {
				if identObj(info, arg) == bo {
					hit = true
				}
			}
			return true
		})
		return hit
	}
	{
		prev := listOfPairs
		listOfPairs = func(x ast.Expr) bool { return prev(x) || filledBuf(x) }
	}
	if id, ok := e.(*ast.Ident); ok {
		if d := soleDef(info, a.u.Decl.Body, id); d != nil {
			if ie, ok := ast.Unparen(d).(*ast.IndexExpr); ok {
				return listOfPairs(ie.X)
			}
		}
	}
	switch x := e.(type) {
	case *ast.IndexExpr:
		return listOfPairs(x.X)
	case *ast.Ident:
		obj := info.Uses[x]
		if obj == nil {
			return false
		}
		found := false
		ast.Inspect(a.u.Decl.Body, func(m ast.Node) bool {
			rs, ok := m.(*ast.RangeStmt)
			if !ok || rs.Value == nil {
				return true
			}
			if identObj(info, rs.Value) == obj && listOfPairs(rs.X) {
				found = true
			}
			return true
		})
		return found
	}
	return false
}

func init() {
	register(&Rule{ID: "SHAPE.cells-index", Floor: 60,
		Doc: "every constant index or slice bound into the Cells of a lisp VALUE (anything below the argument list a registered builtin receives from the binder: X.Cells[k], X.Cells[k:], also through a local alias of X.Cells) is reached only where the value is known to have more than k cells — a dominating length test, a dominating type test that leaves only types whose constructors all give them that many cells (derived from the module's composite literals on every run), a constructor call in the function itself, an element of a Map.Entries pair list — or the value is a parameter and every caller establishes the same: a value of another shape (the user data of a forged typedef, a zero-dimension array) is refused with a lisp error, not with `index out of range`",
		Run: func(c *Ctx) []Obligation {
			var obs []Obligation
			ord := map[string]*ordinal{}
			for _, s := range c.shapeAnalysis() {
				name := s.u.Name()
				if ord[name] == nil {
					ord[name] = &ordinal{}
				}
				obs = append(obs, mkOb(c, "SHAPE.cells-index", s.u, ord[name].next(s.what), s.node, s.verdict, s.detail, s.nontriv))
			}
			return obs
		}})
}


// forAllView: a loop over every element of a sequence, as (sequence, element, body) — a
// `for _, x := range S` or its index spelling `for i := 0; i < len(S); i++ { x := S[i]; … }`.
func forAllView(info *types.Info, st ast.Stmt) (seq, elem ast.Expr, body []ast.Stmt, ok bool) {
	switch x := st.(type) {
	case *ast.RangeStmt:
		if x.Value == nil {
			// `for i := range S { x := S[i]; … }`
			idx := identObj(info, x.Key)
			if idx == nil || len(x.Body.List) == 0 {
				return nil, nil, nil, false
			}
			first, isAs := x.Body.List[0].(*ast.AssignStmt)
			if !isAs || len(first.Lhs) != 1 || len(first.Rhs) != 1 {
				return nil, nil, nil, false
			}
			ie, isIdx := ast.Unparen(first.Rhs[0]).(*ast.IndexExpr)
			if !isIdx || identObj(info, ie.Index) != idx || types.ExprString(ie.X) != types.ExprString(x.X) {
				return nil, nil, nil, false
			}
			return x.X, first.Lhs[0], x.Body.List[1:], true
		}
		return x.X, x.Value, x.Body.List, true
	case *ast.ForStmt:
		init, ok1 := x.Init.(*ast.AssignStmt)
		cond, ok2 := ast.Unparen(x.Cond).(*ast.BinaryExpr)
		post, ok3 := x.Post.(*ast.IncDecStmt)
		if !ok1 || !ok2 || !ok3 || len(init.Lhs) != 1 || len(init.Rhs) != 1 || post.Tok != token.INC || cond.Op != token.LSS || len(x.Body.List) == 0 {
			return nil, nil, nil, false
		}
		idx := identObj(info, init.Lhs[0])
		if k, isC := intConst(info, init.Rhs[0]); idx == nil || !isC || k != 0 || identObj(info, post.X) != idx || identObj(info, cond.X) != idx {
			return nil, nil, nil, false
		}
		lc, isCall := ast.Unparen(cond.Y).(*ast.CallExpr)
		if !isCall || len(lc.Args) != 1 {
			return nil, nil, nil, false
		}
		if id, isId := ast.Unparen(lc.Fun).(*ast.Ident); !isId || id.Name != "len" {
			return nil, nil, nil, false
		}
		// x := S[i] as the first statement; the index is not written in the body
		first, isAs := x.Body.List[0].(*ast.AssignStmt)
		if !isAs || len(first.Lhs) != 1 || len(first.Rhs) != 1 {
			return nil, nil, nil, false
		}
		ie, isIdx := ast.Unparen(first.Rhs[0]).(*ast.IndexExpr)
		if !isIdx || identObj(info, ie.Index) != idx || types.ExprString(ie.X) != types.ExprString(lc.Args[0]) {
			return nil, nil, nil, false
		}
		written := false
		for _, bs := range x.Body.List {
			ast.Inspect(bs, func(k ast.Node) bool {
				switch y := k.(type) {
				case *ast.AssignStmt:
					for _, l := range y.Lhs {
						if identObj(info, l) == idx {
							written = true
						}
					}
				case *ast.IncDecStmt:
					if identObj(info, y.X) == idx {
						written = true
					}
				}
				return true
			})
		}
		if written {
			return nil, nil, nil, false
		}
		return lc.Args[0], first.Lhs[0], x.Body.List[1:], true
	}
	return nil, nil, nil, false
}

// returnGuards: the conditions under which a statement list leaves the function at once — `if C { …; return }`
// without else, and the cases of a tagless `switch { case C: …; return }` (after the switch every case
// condition whose body returns is false, whichever case was tried first).
func returnGuards(list []ast.Stmt) []ast.Expr { return returnGuardsIf(list, nil) }

// returnGuardsIf: as returnGuards, counting only returns accepted by keep (nil: all).
func returnGuardsIf(list []ast.Stmt, keep func(*ast.ReturnStmt) bool) []ast.Expr {
	var out []ast.Expr
	endsInReturn := func(b []ast.Stmt) bool {
		if len(b) == 0 {
			return false
		}
		rs, isRet := b[len(b)-1].(*ast.ReturnStmt)
		return isRet && (keep == nil || keep(rs))
	}
	for _, st := range list {
		switch x := st.(type) {
		case *ast.IfStmt:
			if x.Else == nil && endsInReturn(x.Body.List) {
				out = append(out, x.Cond)
			}
		case *ast.SwitchStmt:
			if x.Tag != nil || x.Init != nil {
				continue
			}
			for _, cl := range x.Body.List {
				cc := cl.(*ast.CaseClause)
				if !endsInReturn(cc.Body) {
					break // a case that stays in the function hides the conditions written after it
				}
				if len(cc.List) == 1 {
					out = append(out, cc.List[0])
				}
			}
		}
	}
	return out
}

// checkingHelperBound: `is` is `if lerr := h(…, X, …); lerr != nil { …; return }` with h an unexported-or-not
// function of the package that answers nil only by falling off the end of its checks, and X the value under
// key: the lower bound on len(X.Cells) that the refusals inside h establish for its nil answer (0 otherwise).
func (a *ownAnalysis) checkingHelperBound(is *ast.IfStmt, key string) int {
	info := a.info
	if len(is.Body.List) == 0 {
		return 0
	}
	if _, isRet := is.Body.List[len(is.Body.List)-1].(*ast.ReturnStmt); !isRet {
		return 0
	}
	var call *ast.CallExpr
	var resObj types.Object
	if as, ok := is.Init.(*ast.AssignStmt); ok && len(as.Lhs) == 1 && len(as.Rhs) == 1 {
		call, _ = ast.Unparen(as.Rhs[0]).(*ast.CallExpr)
		resObj = identObj(info, as.Lhs[0])
	}
	if call == nil || resObj == nil {
		return 0
	}
	be, ok := ast.Unparen(is.Cond).(*ast.BinaryExpr)
	if !ok || be.Op != token.NEQ || identObj(info, be.X) != resObj || !isNilIdent(info, be.Y) {
		return 0
	}
	h := originOf(Callee(info, call))
	hd := a.c.declOf[h]
	if h == nil || hd == nil || hd.Body == nil || h.Pkg() != a.u.Obj.Pkg() {
		return 0
	}
	hu := FuncUnit{h, hd, a.c.pkgOf[hd]}
	hps := paramObjs(hu)
	hinfo := hu.Pkg.TypesInfo
	rets := returnsOf(hd.Body)
	if len(rets) == 0 {
		return 0
	}
	for i, r := range rets {
		if len(r.Results) == 1 && isNilIdent(hinfo, r.Results[0]) && i != len(rets)-1 {
			return 0
		}
	}
	lb := 0
	for ai, arg := range call.Args {
		if ai >= len(hps) || a.resolvedKey(arg, 0) != key {
			continue
		}
		ha := newOwnAnalysis(a.c, hu)
		refuses := func(rs *ast.ReturnStmt) bool { return len(rs.Results) == 1 && !isNilIdent(hinfo, rs.Results[0]) }
		for _, cond := range returnGuardsIf(hd.Body.List, refuses) {
			if sub := ha.guardBound(cond, fmt.Sprintf("%p", hps[ai])); sub > lb {
				lb = sub
			}
		}
	}
	return lb
}
