package main

import (
	"bytes"
	"fmt"
	"go/ast"
	"go/constant"
	"go/types"
	"os"
	"os/exec"
	"regexp"
	"sort"
	"strconv"
	"strings"
)

// STACK.parse-depth-budget — C03 ("reading source text alone must not crash the
// host: stack exhaustion from deep nesting").  The reader is recursive and a Go
// stack overflow is a fatal error no recover() can contain, so the reader
// counts nesting and refuses input deeper than a constant.  Whether that
// constant is small enough is arithmetic over two things the toolchain knows
// without running anything: the frame sizes the compiler assigns to the
// functions on the recursive cycle, and the runtime's stack ceiling.
//
// Frame sizes are read from the compiler's own listing (`go build -gcflags=-S`,
// the `locals=`/`args=` of each STEXT symbol) for the tree being checked.

var stextRe = regexp.MustCompile(`^(\S+) STEXT.* size=\d+ args=0x([0-9a-f]+) locals=0x([0-9a-f]+)`)

// frameSizes: symbol (module-relative, e.g. "parser/rdparser.(*Parser).ParseQuote") -> bytes of stack one activation needs.
func (c *Ctx) frameSizes(pkgRel string) (map[string]int, error) {
	key := "frames:" + pkgRel
	if m, ok := c.memo[key].(map[string]int); ok {
		return m, nil
	}
	args := []string{"build", "-gcflags=-S"}
	if c.Config.Tags != "" {
		args = append(args, "-tags="+c.Config.Tags)
	}
	args = append(args, modPath+"/"+pkgRel)
	cmd := exec.Command("go", args...)
	cmd.Dir = c.Repo
	cmd.Env = append(append(os.Environ(), "GOWORK=off"), c.Config.Env...)
	var out bytes.Buffer
	cmd.Stderr = &out
	cmd.Stdout = &out
	if err := cmd.Run(); err != nil {
		return nil, fmt.Errorf("go build -gcflags=-S %s: %v", pkgRel, err)
	}
	m := map[string]int{}
	for _, line := range strings.Split(out.String(), "\n") {
		sm := stextRe.FindStringSubmatch(line)
		if sm == nil {
			continue
		}
		a, _ := strconv.ParseInt(sm[2], 16, 64)
		l, _ := strconv.ParseInt(sm[3], 16, 64)
		name := strings.TrimPrefix(sm[1], modPath+"/")
		// return address + saved frame pointer on top of the locals and the argument spill area
		m[name] = int(a) + int(l) + 16
	}
	if len(m) == 0 {
		return nil, fmt.Errorf("no STEXT lines in the compiler listing of %s", pkgRel)
	}
	c.memo[key] = m
	return m, nil
}

// goStackBudget: the Go runtime grows a goroutine stack by doubling and aborts
// the process when the next size would exceed 1e9 bytes (64-bit), so the
// largest stack that can exist is 2^29 bytes.  Half of it is left to whatever
// was already on the stack when the reader was entered (an evaluator that
// reached load-string at depth) and to the leaf calls below the deepest level.
const goStackBudget = 1 << 28

func init() {
	register(&Rule{ID: "STACK.parse-depth-budget", Floor: 1,
		Doc: "DefaultMaxParseDepth × (the sum of the compiler-assigned frame sizes of every function on the reader's recursive cycle through ParseExpression) does not exceed 2^28 bytes — half of the largest stack the Go runtime will grow (it doubles up to 2^29 and aborts the process beyond 1e9): input nested to the permitted depth through the most expensive prefix form (quote, #^, #') cannot overflow the goroutine stack",
		Run: func(c *Ctx) []Obligation {
			const rid = "STACK.parse-depth-budget"
			k := c.LookupConst("parser/rdparser.DefaultMaxParseDepth")
			entry := c.LookupMethod("parser/rdparser.Parser.ParseExpression")
			if k == nil || entry == nil {
				return []Obligation{anchorMissing(rid, "rdparser.DefaultMaxParseDepth / (*Parser).ParseExpression")}
			}
			depth, ok := constant.Int64Val(k.(*types.Const).Val())
			if !ok {
				return []Obligation{anchorMissing(rid, "DefaultMaxParseDepth is not an integer constant")}
			}
			frames, err := c.frameSizes("parser/rdparser")
			if err != nil {
				return []Obligation{{Rule: rid, Func: "parser/rdparser", Construct: "compiler listing", Verdict: Undecided, Detail: err.Error(), Nontrivial: true}}
			}
			// static call graph of the package
			callees := map[*types.Func][]*types.Func{}
			units := map[*types.Func]FuncUnit{}
			for _, u := range c.Funcs(func(p string) bool { return rel(p) == "parser/rdparser" }) {
				if u.Decl == nil || u.Decl.Body == nil {
					continue
				}
				units[u.Obj] = u
				// calls, and functions taken as values (the reader dispatches through
				// method expressions returned by parseExpression)
				info := u.Pkg.TypesInfo
				obj := u.Obj
				ast.Inspect(u.Decl.Body, func(n ast.Node) bool {
					var id *ast.Ident
					switch x := n.(type) {
					case *ast.Ident:
						id = x
					case *ast.SelectorExpr:
						id = x.Sel
					}
					if id != nil {
						if f, ok := info.Uses[id].(*types.Func); ok {
							callees[obj] = append(callees[obj], originOf(f))
						}
					}
					return true
				})
			}
			reach := func(from *types.Func) map[*types.Func]bool {
				seen := map[*types.Func]bool{}
				work := []*types.Func{from}
				for len(work) > 0 {
					f := work[len(work)-1]
					work = work[:len(work)-1]
					for _, g := range callees[f] {
						if !seen[g] && units[g].Decl != nil {
							seen[g] = true
							work = append(work, g)
						}
					}
				}
				return seen
			}
			fromEntry := reach(entry)
			var cycle []*types.Func
			for f := range fromEntry {
				if reach(f)[entry] {
					cycle = append(cycle, f)
				}
			}
			if !fromEntry[entry] {
				return []Obligation{mkOb(c, rid, units[entry], "recursive cycle", units[entry].Decl, Undecided, "ParseExpression is not on a static call cycle: the reader's recursion changed shape", true)}
			}
			sort.Slice(cycle, func(i, j int) bool { return FuncName(cycle[i]) < FuncName(cycle[j]) })
			perLevel := 0
			var missing []string
			var parts []string
			for _, f := range cycle {
				sz, ok := frames[FuncName(f)]
				if !ok {
					missing = append(missing, FuncName(f))
					continue
				}
				perLevel += sz
				parts = append(parts, fmt.Sprintf("%s=%d", f.Name(), sz))
			}
			u := units[entry]
			if len(missing) > 0 {
				return []Obligation{mkOb(c, rid, u, "frame sizes", u.Decl, Undecided, "no frame size in the compiler listing for: "+strings.Join(missing, ", ")+" (inlined away or renamed)", true)}
			}
			total := depth * int64(perLevel)
			construct := "DefaultMaxParseDepth × bytes per nesting level"
			detail := fmt.Sprintf("%d × %d bytes (%s) = %d bytes; budget %d", depth, perLevel, strings.Join(parts, " + "), total, goStackBudget)
			if total > goStackBudget {
				return []Obligation{mkOb(c, rid, u, construct, u.Decl, Violated, detail+": source nested to the permitted depth (a megabyte of quote characters is enough) needs more stack than the Go runtime will grow and the process dies with `fatal error: stack overflow`, which nothing can recover", true)}
			}
			return []Obligation{mkOb(c, rid, u, construct, u.Decl, Proved, detail, true)}
		}})
}

