// Package main implements elpscheck: repository-specific static rules over the
// type-checked program of luthersystems/elps.  Nothing here executes elps code.
package main

import (
	"fmt"
	"go/ast"
	"go/token"
	"go/types"
	"os"
	"path/filepath"
	"sort"
	"strings"
	"sync"

	"golang.org/x/tools/go/callgraph"
	"golang.org/x/tools/go/callgraph/cha"
	"golang.org/x/tools/go/callgraph/vta"
	"golang.org/x/tools/go/packages"
	"golang.org/x/tools/go/ssa"
	"golang.org/x/tools/go/ssa/ssautil"
)

const modPath = "github.com/luthersystems/elps"

// BuildConfig names one of the build configurations the repository compiles
// under; the set of files (and so of sites) differs between them.
type BuildConfig struct {
	Name string
	Tags string
	Env  []string
}

var buildConfigs = map[string]BuildConfig{
	"default":   {Name: "default"},
	"elpscheck": {Name: "elpscheck", Tags: "elpscheck"},
	"386":       {Name: "386", Env: []string{"GOARCH=386"}},
	"windows":   {Name: "windows", Env: []string{"GOOS=windows"}},
}

// Ctx is the loaded program plus lazily built SSA and call graph.
type Ctx struct {
	minifyParent map[*ssa.Function]*ssa.Function
	bangImpls    map[string]string
	Repo   string
	Config BuildConfig
	Fset   *token.FileSet
	Pkgs   []*packages.Package // packages of the elps module, sorted by path
	ByPath map[string]*packages.Package

	declOf map[*types.Func]*ast.FuncDecl
	pkgOf  map[*ast.FuncDecl]*packages.Package

	ssaOnce sync.Once
	Prog    *ssa.Program
	SSAPkgs []*ssa.Package

	cgOnce sync.Once
	CG     *callgraph.Graph

	memo map[string]any
}

// Load type-checks ./... of the repository's working tree.
func Load(repo string, cfg BuildConfig) (*Ctx, error) {
	fset := token.NewFileSet()
	env := append(os.Environ(), "GOWORK=off")
	env = append(env, cfg.Env...)
	pc := &packages.Config{
		Mode:  packages.LoadAllSyntax,
		Dir:   repo,
		Fset:  fset,
		Env:   env,
		Tests: false,
	}
	if cfg.Tags != "" {
		pc.BuildFlags = []string{"-tags=" + cfg.Tags}
	}
	pkgs, err := packages.Load(pc, "./...")
	if err != nil {
		return nil, fmt.Errorf("LOAD: %v", err)
	}
	if len(pkgs) == 0 {
		return nil, fmt.Errorf("LOAD: zero packages")
	}
	c := &Ctx{Repo: repo, Config: cfg, Fset: fset, ByPath: map[string]*packages.Package{},
		declOf: map[*types.Func]*ast.FuncDecl{}, pkgOf: map[*ast.FuncDecl]*packages.Package{},
		memo: map[string]any{}}
	var errs []string
	packages.Visit(pkgs, nil, func(p *packages.Package) {
		for _, e := range p.Errors {
			errs = append(errs, fmt.Sprintf("%s: %v", p.PkgPath, e))
		}
	})
	if len(errs) > 0 {
		sort.Strings(errs)
		if len(errs) > 10 {
			errs = errs[:10]
		}
		return nil, fmt.Errorf("LOAD: type errors:\n  %s", strings.Join(errs, "\n  "))
	}
	for _, p := range pkgs {
		if p.PkgPath == modPath || strings.HasPrefix(p.PkgPath, modPath+"/") {
			c.Pkgs = append(c.Pkgs, p)
			c.ByPath[p.PkgPath] = p
			for _, f := range p.Syntax {
				for _, d := range f.Decls {
					if fd, ok := d.(*ast.FuncDecl); ok {
						if obj, ok := p.TypesInfo.Defs[fd.Name].(*types.Func); ok {
							c.declOf[obj] = fd
							c.pkgOf[fd] = p
						}
					}
				}
			}
		}
	}
	sort.Slice(c.Pkgs, func(i, j int) bool { return c.Pkgs[i].PkgPath < c.Pkgs[j].PkgPath })
	if c.ByPath[modPath+"/lisp"] == nil {
		return nil, fmt.Errorf("LOAD: anchor package %s/lisp missing", modPath)
	}
	c.computeRenames()
	c.indexBoolLocals()
	c.indexPredCalls()
	return c, nil
}

// SSA builds (once) the SSA program for every loaded package and dependency.
func (c *Ctx) SSA() *ssa.Program {
	c.ssaOnce.Do(func() {
		all := make([]*packages.Package, 0, len(c.Pkgs))
		all = append(all, c.Pkgs...)
		prog, pkgs := ssautil.AllPackages(all, ssa.InstantiateGenerics)
		prog.Build()
		c.Prog = prog
		c.SSAPkgs = pkgs
	})
	return c.Prog
}

// CallGraph builds (once) a VTA call graph seeded by CHA.
func (c *Ctx) CallGraph() *callgraph.Graph {
	c.cgOnce.Do(func() {
		prog := c.SSA()
		funcs := ssautil.AllFunctions(prog)
		c.CG = vta.CallGraph(funcs, cha.CallGraph(prog))
	})
	return c.CG
}

// ---- package scopes ----

func rel(pkgPath string) string {
	if pkgPath == modPath {
		return "."
	}
	return strings.TrimPrefix(pkgPath, modPath+"/")
}

// isKernel: everything lisp source can reach through the builtin registry.
func isKernel(pkgPath string) bool {
	r := rel(pkgPath)
	if strings.HasPrefix(r, "lisp/x/") {
		return false
	}
	return r == "lisp" || strings.HasPrefix(r, "lisp/lisplib") || r == "parser" ||
		strings.HasPrefix(r, "parser/") || r == "elpsutil"
}

func isTooling(pkgPath string) bool {
	r := rel(pkgPath)
	switch r {
	case "formatter", "minifier", "analysis", "lint",
		"internal/fmtraw", "internal/fmtmeta", "internal/astraw", "internal/funraw":
		return true
	}
	return false
}

func (c *Ctx) KernelPkgs() []*packages.Package {
	var out []*packages.Package
	for _, p := range c.Pkgs {
		if isKernel(p.PkgPath) {
			out = append(out, p)
		}
	}
	return out
}

func (c *Ctx) Pkg(relPath string) *packages.Package {
	if relPath == "." {
		return c.ByPath[modPath]
	}
	return c.ByPath[modPath+"/"+relPath]
}

// ---- naming ----

// FuncName renders a types.Func as "lisp.(*LEnv).funCall" (module-relative).
// nameCanon maps the current name of a renamed unexported function to the name
// it had on the audited tree (see anchors.go); tables and reports use the
// audited name.
var nameCanon = map[string]string{}

func FuncName(fn *types.Func) string {
	n := funcNameRaw(fn)
	if o, ok := nameCanon[n]; ok {
		return o
	}
	return n
}

func funcNameRaw(fn *types.Func) string {
	if fn == nil {
		return "<nil>"
	}
	pkg := ""
	if fn.Pkg() != nil {
		pkg = rel(fn.Pkg().Path())
	}
	sig, _ := fn.Type().(*types.Signature)
	if sig != nil && sig.Recv() != nil {
		rt := sig.Recv().Type()
		ptr := ""
		if p, ok := rt.(*types.Pointer); ok {
			rt = p.Elem()
			ptr = "*"
		}
		name := "?"
		switch t := rt.(type) {
		case *types.Named:
			name = t.Obj().Name()
			if t.Obj().Pkg() != nil {
				if o, ok := typeCanon[t.Obj().Pkg().Path()+"."+name]; ok {
					name = o[strings.LastIndex(o, ".")+1:]
				}
			}
		case *types.Alias:
			name = t.Obj().Name()
		}
		if ptr != "" {
			return fmt.Sprintf("%s.(*%s).%s", pkg, name, fn.Name())
		}
		return fmt.Sprintf("%s.%s.%s", pkg, name, fn.Name())
	}
	return pkg + "." + fn.Name()
}

// SSAFuncName renders an ssa.Function the same way; closures get "$n".
func SSAFuncName(f *ssa.Function) string {
	if f == nil {
		return "<nil>"
	}
	if f.Parent() != nil {
		return SSAFuncName(f.Parent()) + strings.TrimPrefix(f.Name(), f.Parent().Name())
	}
	if obj, ok := f.Object().(*types.Func); ok && obj != nil {
		if o := obj.Origin(); o != nil {
			obj = o
		}
		return FuncName(obj)
	}
	s := f.String()
	s = strings.ReplaceAll(s, modPath+"/", "")
	return s
}

// LookupFunc finds "lisp.(*LEnv).funCall"-style names among declared functions.
func (c *Ctx) LookupFunc(name string) (*types.Func, *ast.FuncDecl, *packages.Package) {
	return c.lookupFuncExact(name) // the index is keyed by audited names (nameCanon)
}

func (c *Ctx) lookupFuncExact(name string) (*types.Func, *ast.FuncDecl, *packages.Package) {
	idx, _ := c.memo["funcIndex"].(map[string]*types.Func)
	if idx == nil {
		idx = map[string]*types.Func{}
		for fn := range c.declOf {
			idx[FuncName(fn)] = fn
		}
		c.memo["funcIndex"] = idx
	}
	fn := idx[name]
	if fn == nil {
		return nil, nil, nil
	}
	fd := c.declOf[fn]
	return fn, fd, c.pkgOf[fd]
}

func (c *Ctx) Decl(fn *types.Func) *ast.FuncDecl { return c.declOf[fn] }

// LookupType finds a named type "lisp.LEnv".
func (c *Ctx) LookupType(name string) *types.Named {
	i := strings.LastIndex(name, ".")
	p := c.Pkg(name[:i])
	if p == nil {
		return nil
	}
	obj := p.Types.Scope().Lookup(name[i+1:])
	if obj == nil {
		// an unexported type known under another name now (typeCanon)
		for nw, old := range typeCanon {
			if old == p.PkgPath+"."+name[i+1:] {
				if o2 := p.Types.Scope().Lookup(nw[strings.LastIndex(nw, ".")+1:]); o2 != nil {
					n, _ := o2.Type().(*types.Named)
					return n
				}
			}
		}
		return nil
	}
	n, _ := obj.Type().(*types.Named)
	return n
}

// LookupField finds field "lisp.LEnv.loc".
func (c *Ctx) LookupField(name string) *types.Var {
	i := strings.LastIndex(name, ".")
	n := c.LookupType(name[:i])
	if n == nil {
		return nil
	}
	st, ok := n.Underlying().(*types.Struct)
	if !ok {
		return nil
	}
	for k := 0; k < st.NumFields(); k++ {
		if st.Field(k).Name() == name[i+1:] {
			return st.Field(k)
		}
	}
	if unexportedName(name) {
		return c.renamedField(name)
	}
	return nil
}

// LookupMethod finds method "lisp.CallStack.PushFID" (pointer or value receiver).
func (c *Ctx) LookupMethod(name string) *types.Func {
	i := strings.LastIndex(name, ".")
	n := c.LookupType(name[:i])
	if n == nil {
		return nil
	}
	for k := 0; k < n.NumMethods(); k++ {
		if n.Method(k).Name() == name[i+1:] {
			return n.Method(k)
		}
	}
	if unexportedName(name) {
		// the audited tree knows the method under its FuncName, with a value or pointer receiver
		pkgPart, typ := name[:i][:strings.LastIndex(name[:i], ".")], name[:i][strings.LastIndex(name[:i], ".")+1:]
		for _, form := range []string{pkgPart + ".(*" + typ + ")." + name[i+1:], pkgPart + "." + typ + "." + name[i+1:]} {
			if r, _, _ := c.lookupFuncExact(form); r != nil {
				return r // known under its audited name (nameCanon)
			}
		}
	}
	return nil
}

// LookupPkgFunc finds package-level function "lisp.markTailRec".
func (c *Ctx) LookupPkgFunc(name string) *types.Func {
	i := strings.LastIndex(name, ".")
	p := c.Pkg(name[:i])
	if p == nil {
		return nil
	}
	fn, _ := p.Types.Scope().Lookup(name[i+1:]).(*types.Func)
	if fn == nil && unexportedName(name) {
		if r, _, _ := c.lookupFuncExact(name); r != nil {
			return r // known under its audited name (nameCanon)
		}
	}
	return fn
}

func (c *Ctx) Pos(p token.Pos) string {
	if !p.IsValid() {
		return "-"
	}
	pp := c.Fset.Position(p)
	r, err := filepath.Rel(c.Repo, pp.Filename)
	if err != nil || strings.HasPrefix(r, "..") {
		r = pp.Filename
	}
	return fmt.Sprintf("%s:%d", r, pp.Line)
}

// ---- function iteration ----

// FuncUnit is a declared function with its package.
type FuncUnit struct {
	Obj  *types.Func
	Decl *ast.FuncDecl
	Pkg  *packages.Package
}

func (u FuncUnit) Name() string { return FuncName(u.Obj) }

// Funcs returns all declared functions (with bodies) of the packages for which
// keep returns true, sorted by name.
func (c *Ctx) Funcs(keep func(pkgPath string) bool) []FuncUnit {
	var out []FuncUnit
	for fn, fd := range c.declOf {
		if fd.Body == nil {
			continue
		}
		p := c.pkgOf[fd]
		if keep != nil && !keep(p.PkgPath) {
			continue
		}
		out = append(out, FuncUnit{fn, fd, p})
	}
	sort.Slice(out, func(i, j int) bool {
		if out[i].Name() != out[j].Name() {
			return out[i].Name() < out[j].Name()
		}
		return out[i].Decl.Pos() < out[j].Decl.Pos()
	})
	return out
}

// Callee resolves the static callee of a call expression (function or method).
func Callee(info *types.Info, call *ast.CallExpr) *types.Func {
	fun := ast.Unparen(call.Fun)
	switch f := fun.(type) {
	case *ast.Ident:
		if fn, ok := info.Uses[f].(*types.Func); ok {
			return fn
		}
	case *ast.SelectorExpr:
		if sel := info.Selections[f]; sel != nil {
			if fn, ok := sel.Obj().(*types.Func); ok {
				return fn
			}
			return nil
		}
		if fn, ok := info.Uses[f.Sel].(*types.Func); ok {
			return fn
		}
	case *ast.IndexExpr:
		if id, ok := f.X.(*ast.Ident); ok {
			if fn, ok := info.Uses[id].(*types.Func); ok {
				return fn
			}
		}
	}
	return nil
}

func originOf(fn *types.Func) *types.Func {
	if fn == nil {
		return nil
	}
	if o := fn.Origin(); o != nil {
		return o
	}
	return fn
}
