package main

import (
	"go/ast"
	"go/types"
)

// ERR.data-verbatim — C06 ("the first binding … is called with the condition
// name and the error's data", "rethrow re-raises … with the same condition,
// data"): the cells of an LError ARE its data; the handler's arguments are
// built from them.  The constructor the `error` builtin hands its arguments to
// must therefore put into the error exactly the values it was given — an
// element added for any other reason (a default message for a data-less
// error, a prefix, the condition name "so that it prints nicely") arrives in
// every handler as an argument the program never supplied, and turns a handler
// of exact arity into an arity error.
func init() {
	register(&Rule{ID: "ERR.data-verbatim", Floor: 1,
		Doc: "in the error constructor the `error` builtin calls with its data arguments (the environment method taking the condition name and a variadic list of values), every element appended to the slice that becomes the error's Cells is — or wraps, in a single conversion call — an element of that variadic parameter: the data of a raised condition is what the program passed, nothing is added when it is empty",
		Run: func(c *Ctx) []Obligation {
			const rid = "ERR.data-verbatim"
			var berr *RegEntry
			for _, e := range c.Registry() {
				if rel(e.Pkg.PkgPath) == "lisp" && e.Name == "error" && e.Problem == "" {
					ee := e
					berr = &ee
				}
			}
			if berr == nil {
				return []Obligation{anchorMissing(rid, "the `error` builtin")}
			}
			body, bu, _, ok := c.BodyOf(*berr)
			if !ok {
				return []Obligation{anchorMissing(rid, "body of the `error` builtin")}
			}
			cellsF := c.LookupField("lisp.LVal.Cells")
			var obs []Obligation
			seen := map[*types.Func]bool{}
			for _, ce := range callsIn(body, false) {
				f := originOf(Callee(bu.Pkg.TypesInfo, ce))
				if f == nil || seen[f] || !ce.Ellipsis.IsValid() {
					continue
				}
				sig := f.Type().(*types.Signature)
				fd := c.declOf[f]
				if !sig.Variadic() || fd == nil || fd.Body == nil {
					continue
				}
				seen[f] = true
				u := FuncUnit{f, fd, c.pkgOf[fd]}
				info := u.Pkg.TypesInfo
				vparam := sig.Params().At(sig.Params().Len() - 1)
				// element variables: range values over the variadic parameter, and the variables a
				// type switch on such an element binds
				elem := map[types.Object]bool{}
				ast.Inspect(fd.Body, func(n ast.Node) bool {
					if rs, ok := n.(*ast.RangeStmt); ok && identObj(info, rs.X) == vparam && rs.Value != nil {
						if o := identObj(info, rs.Value); o != nil {
							elem[o] = true
						}
					}
					return true
				})
				ast.Inspect(fd.Body, func(n ast.Node) bool {
					ts, ok := n.(*ast.TypeSwitchStmt)
					if !ok {
						return true
					}
					var subject ast.Expr
					switch a := ts.Assign.(type) {
					case *ast.AssignStmt:
						if ta, ok := ast.Unparen(a.Rhs[0]).(*ast.TypeAssertExpr); ok {
							subject = ta.X
						}
					case *ast.ExprStmt:
						if ta, ok := ast.Unparen(a.X).(*ast.TypeAssertExpr); ok {
							subject = ta.X
						}
					}
					if subject == nil || !elem[identObj(info, subject)] {
						return true
					}
					for _, cl := range ts.Body.List {
						if o := info.Implicits[cl]; o != nil {
							elem[o] = true
						}
					}
					return true
				})
				mentionsElem := func(e ast.Expr) bool {
					found := false
					ast.Inspect(e, func(m ast.Node) bool {
						if id, ok := m.(*ast.Ident); ok && elem[info.Uses[id]] {
							found = true
						}
						return !found
					})
					return found
				}
				// the locals that become Cells of an LError literal
				cellLocals := map[types.Object]bool{}
				ast.Inspect(fd.Body, func(n ast.Node) bool {
					if kv, ok := n.(*ast.KeyValueExpr); ok {
						if id, ok := kv.Key.(*ast.Ident); ok && info.Uses[id] == cellsF && cellsF != nil {
							if o := identObj(info, kv.Value); o != nil {
								cellLocals[o] = true
							}
						}
					}
					return true
				})
				ord := &ordinal{}
				n := 0
				// ... or the locals handed to a helper of the package whose parameter becomes the Cells
				// of the literal it builds (`return env.raise(condition, cells)`); such a helper must not
				// add to the slice either
				for _, hce := range callsIn(fd.Body, false) {
					h := originOf(Callee(info, hce))
					if h == nil || h == f || h.Pkg() != f.Pkg() {
						continue
					}
					hd := c.declOf[h]
					if hd == nil || hd.Body == nil {
						continue
					}
					hinfo := c.pkgOf[hd].TypesInfo
					hu := FuncUnit{h, hd, c.pkgOf[hd]}
					hps := paramObjs(hu)
					for i, a := range hce.Args {
						lo := identObj(info, a)
						if lo == nil || i >= len(hps) {
							continue
						}
						puts := false
						ast.Inspect(hd.Body, func(m ast.Node) bool {
							if kv, ok := m.(*ast.KeyValueExpr); ok {
								if id, ok := kv.Key.(*ast.Ident); ok && hinfo.Uses[id] == cellsF && identObj(hinfo, kv.Value) == hps[i] {
									puts = true
								}
							}
							return true
						})
						if !puts {
							continue
						}
						cellLocals[lo] = true
						ast.Inspect(hd.Body, func(m ast.Node) bool {
							as, ok := m.(*ast.AssignStmt)
							if !ok {
								return true
							}
							for _, l := range as.Lhs {
								if identObj(hinfo, l) == hps[i] {
									n++
									obs = append(obs, mkOb(c, rid, hu, ord.next("data slice rewritten in the building helper"), as, Violated, "the helper that turns the collected values into the error's Cells writes the slice itself: whatever it adds or replaces is data the `error` form was never given", true))
								}
							}
							return true
						})
					}
				}
				ast.Inspect(fd.Body, func(m ast.Node) bool {
					as, ok := m.(*ast.AssignStmt)
					if !ok || len(as.Lhs) != len(as.Rhs) {
						return true
					}
					for i, l := range as.Lhs {
						if !cellLocals[identObj(info, l)] {
							continue
						}
						app, ok := ast.Unparen(as.Rhs[i]).(*ast.CallExpr)
						if !ok {
							continue
						}
						if id, ok := ast.Unparen(app.Fun).(*ast.Ident); !ok || id.Name != "append" || len(app.Args) < 2 {
							continue
						}
						for _, a := range app.Args[1:] {
							n++
							construct := ord.next("element appended to the error's data")
							if mentionsElem(a) {
								obs = append(obs, mkOb(c, rid, u, construct, a, Proved, "the element is (a conversion of) one of the values the caller passed", true))
							} else {
								obs = append(obs, mkOb(c, rid, u, construct, a, Violated, "`"+types.ExprString(a)+"` is added to the error's data although it is not one of the values the `error` form was given: every handler receives it as an extra argument ((error 'boom) would call its handler with one datum, and a handler written (lambda (c) …) fails with an arity error), and rethrow carries it on", true))
							}
						}
					}
					return true
				})
				if n == 0 {
					obs = append(obs, mkOb(c, rid, u, "data slice", fd, Undecided, "no append to the slice that becomes the error's Cells found in "+u.Name(), true))
				}
			}
			if len(obs) == 0 {
				return []Obligation{anchorMissing(rid, "a variadic error constructor called by the `error` builtin")}
			}
			return obs
		}})
}
