package main

import (
	"fmt"
	"go/ast"
	"go/token"
	"go/types"
	"strings"
)

// E1 (ownership form) — who may write LVal storage (C09, C11).
//
// A parsed program is shared by every runtime that evaluates it; its nodes are
// marked `sealed`.  Kernel code may write an LVal's fields, the elements of a
// cell slice, or grow a cell slice in place only when the storage is OWNED by
// the function (freshly allocated there, or the per-call argument list the
// binder built), or when the path to the write has established that the value
// is not sealed / is of a type the parser cannot produce.  A new header over
// borrowed cells must carry the seal and a clamped capacity, or stay local.
//
// The analysis is intraprocedural: provenance of *LVal and []*LVal locals is
// flow-insensitive (union over assignments), guards are CFG facts that dominate
// the site.  What it cannot justify is reported and must be in the audited
// table with a reason.

type ownKind int

const (
	ownUnknown ownKind = iota
	ownFresh           // allocated in this function
	ownArgs            // the per-call argument list header of an LBuiltin
	ownBorrowed
)

type sliceProv struct {
	fresh    bool
	owners   []ast.Expr // X in cellsOf(X)
	clamped  bool       // every borrowed source is capacity-clamped
	unknown  bool
	borrowed bool
	// the slice is a struct field other than LVal.Cells: not lisp value storage
	otherField bool
}

type ownAnalysis struct {
	c        *Ctx
	u        FuncUnit
	info     *types.Info
	argsObj  types.Object
	lvalPtr  types.Type
	cellsFld *types.Var
	freshFns map[*types.Func]bool
	lvalFresh map[types.Object]bool
	memoSlice map[types.Object]*sliceProv
	inProg    map[types.Object]bool
	sawNil    bool
}

// freshReturning: functions of the kernel whose *LVal result is always a value
// allocated during the call (fixpoint over return statements).
func (c *Ctx) freshReturning() map[*types.Func]bool {
	if m, ok := c.memo["freshFns"].(map[*types.Func]bool); ok {
		return m
	}
	lval := c.LookupType("lisp.LVal")
	fresh := map[*types.Func]bool{}
	units := c.Funcs(isKernel)
	isLValLit := func(info *types.Info, e ast.Expr) bool {
		ue, ok := ast.Unparen(e).(*ast.UnaryExpr)
		if !ok || ue.Op != token.AND {
			return false
		}
		cl, ok := ue.X.(*ast.CompositeLit)
		if !ok {
			return false
		}
		tv, ok := info.Types[cl]
		if !ok {
			return false
		}
		n, ok := types.Unalias(tv.Type).(*types.Named)
		return ok && lval != nil && n.Obj() == lval.Obj()
	}
	pass := c.passthroughFns()
	changed := true
	for changed {
		changed = false
		for _, u := range units {
			if fresh[u.Obj] {
				continue
			}
			sig := u.Obj.Type().(*types.Signature)
			if sig.Results().Len() == 0 {
				continue
			}
			info := u.Pkg.TypesInfo
			// locals assigned only fresh
			var isFreshExpr func(e ast.Expr, depth int) bool
			localFresh := func(o types.Object, depth int) bool {
				if depth > 3 {
					return false
				}
				n, good := 0, 0
				ast.Inspect(u.Decl.Body, func(m ast.Node) bool {
					as, ok := m.(*ast.AssignStmt)
					if !ok || len(as.Lhs) != len(as.Rhs) {
						return true
					}
					for i, l := range as.Lhs {
						if identObj(info, l) == o {
							n++
							if isFreshExpr(as.Rhs[i], depth+1) {
								good++
							}
						}
					}
					return true
				})
				return n > 0 && n == good
			}
			isFreshExpr = func(e ast.Expr, depth int) bool {
				if isLValLit(info, e) {
					return true
				}
				if ce, ok := ast.Unparen(e).(*ast.CallExpr); ok {
					fn := originOf(Callee(info, ce))
					if fn != nil && fresh[fn] {
						return true
					}
					// `env.signal(env.raise(…))`: a function that returns its own argument returns
					// a fresh value when handed one
					if k, isPass := pass[fn]; isPass && fn != nil && k < len(ce.Args) && depth < 4 && !ce.Ellipsis.IsValid() {
						return isFreshExpr(ce.Args[k], depth+1)
					}
					return false
				}
				if o := identObj(info, e); o != nil {
					if v, ok := o.(*types.Var); ok && !v.IsField() && v.Parent() != u.Pkg.Types.Scope() {
						return localFresh(o, depth)
					}
				}
				return false
			}
			all := true
			nret := 0
			ast.Inspect(u.Decl.Body, func(m ast.Node) bool {
				if _, isLit := m.(*ast.FuncLit); isLit {
					return false
				}
				rs, ok := m.(*ast.ReturnStmt)
				if !ok {
					return true
				}
				nret++
				if len(rs.Results) == 0 {
					all = false
					return true
				}
				// only the first *LVal-typed result matters
				if !isFreshExpr(rs.Results[0], 0) {
					all = false
				}
				return true
			})
			if all && nret > 0 {
				// first result must be *LVal
				if p, ok := sig.Results().At(0).Type().(*types.Pointer); ok {
					if n, ok := types.Unalias(p.Elem()).(*types.Named); ok && lval != nil && n.Obj() == lval.Obj() {
						fresh[u.Obj] = true
						changed = true
					}
				}
			}
		}
	}
	c.memo["freshFns"] = fresh
	return fresh
}

// passthroughParam: functions whose every return is one of their own *LVal
// parameters (p.tokenLVal(v) returns v): index of that parameter.
func (c *Ctx) passthroughFns() map[*types.Func]int {
	if m, ok := c.memo["passthrough"].(map[*types.Func]int); ok {
		return m
	}
	m := map[*types.Func]int{}
	for _, u := range c.Funcs(isKernel) {
		sig := u.Obj.Type().(*types.Signature)
		if sig.Results().Len() != 1 {
			continue
		}
		info := u.Pkg.TypesInfo
		idx := -1
		ok := true
		n := 0
		ast.Inspect(u.Decl.Body, func(nd ast.Node) bool {
			if _, isLit := nd.(*ast.FuncLit); isLit {
				return false
			}
			rs, isRet := nd.(*ast.ReturnStmt)
			if !isRet {
				return true
			}
			n++
			if len(rs.Results) != 1 {
				ok = false
				return true
			}
			o := identObj(info, rs.Results[0])
			found := -1
			for i := 0; i < sig.Params().Len(); i++ {
				if sig.Params().At(i) == o {
					found = i
				}
			}
			if found < 0 || (idx >= 0 && idx != found) {
				ok = false
			}
			idx = found
			return true
		})
		if ok && n > 0 && idx >= 0 {
			m[u.Obj] = idx
		}
	}
	c.memo["passthrough"] = m
	return m
}

// headerWrappers: functions that put one of their []*LVal parameters under a
// new list/vector header and return it (lisp.Array, lisp.Vector, Parser.SExpr,
// libelpspath.toList ...).  The obligation moves to their callers.
func (c *Ctx) headerWrappers() map[*types.Func]int {
	if m, ok := c.memo["hdrWrappers"].(map[*types.Func]int); ok {
		return m
	}
	m := map[*types.Func]int{}
	lvalT := c.LookupType("lisp.LVal")
	var lvalPtr types.Type
	if lvalT != nil {
		lvalPtr = types.NewPointer(lvalT)
	}
	isBase := func(fn *types.Func) (int, bool) {
		switch FuncName(fn) {
		case "lisp.SExpr", "lisp.QExpr":
			return 0, true
		case "lisp.Array":
			return 1, true
		}
		i, ok := m[fn]
		return i, ok
	}
	changed := true
	for changed {
		changed = false
		for _, u := range c.Funcs(isKernel) {
			if _, done := m[u.Obj]; done {
				continue
			}
			switch FuncName(u.Obj) {
			case "lisp.SExpr", "lisp.QExpr", "lisp.Array":
				continue
			}
			sig := u.Obj.Type().(*types.Signature)
			info := u.Pkg.TypesInfo
			for i := 0; i < sig.Params().Len(); i++ {
				pv := sig.Params().At(i)
				sl, ok := pv.Type().Underlying().(*types.Slice)
				if !ok || lvalPtr == nil || !types.Identical(sl.Elem(), lvalPtr) {
					continue
				}
				if sig.Variadic() && i == sig.Params().Len()-1 {
					// variadic packs are fresh arrays at most call sites; still treated as wrappers
				}
				hit := false
				for _, ce := range callsIn(u.Decl.Body, false) {
					fn := originOf(Callee(info, ce))
					if fn == nil {
						continue
					}
					if k, ok := isBase(fn); ok && k < len(ce.Args) && identObj(info, windowBase(info, ce.Args[k])) == pv {
						hit = true
					}
				}
				if hit {
					m[u.Obj] = i
					changed = true
				}
			}
		}
	}
	c.memo["hdrWrappers"] = m
	return m
}

func newOwnAnalysis(c *Ctx, u FuncUnit) *ownAnalysis {
	a := &ownAnalysis{c: c, u: u, info: u.Pkg.TypesInfo, freshFns: c.freshReturning(),
		lvalFresh: map[types.Object]bool{}, memoSlice: map[types.Object]*sliceProv{}, inProg: map[types.Object]bool{}}
	if n := c.LookupType("lisp.LVal"); n != nil {
		a.lvalPtr = types.NewPointer(n)
	}
	a.cellsFld = c.LookupField("lisp.LVal.Cells")
	// LBuiltin-shaped function: (env *LEnv, args *LVal) *LVal
	sig := u.Obj.Type().(*types.Signature)
	if sig.Params().Len() == 2 && sig.Results().Len() == 1 && a.lvalPtr != nil &&
		types.Identical(sig.Params().At(1).Type(), a.lvalPtr) && types.Identical(sig.Results().At(0).Type(), a.lvalPtr) &&
		strings.HasSuffix(sig.Params().At(0).Type().String(), "lisp.LEnv") {
		a.argsObj = sig.Params().At(1)
	}
	return a
}

func (a *ownAnalysis) isLValLit(e ast.Expr) bool {
	ue, ok := ast.Unparen(e).(*ast.UnaryExpr)
	if !ok || ue.Op != token.AND {
		return false
	}
	cl, ok := ue.X.(*ast.CompositeLit)
	if !ok {
		return false
	}
	tv, ok := a.info.Types[cl]
	return ok && a.lvalPtr != nil && types.Identical(types.NewPointer(tv.Type), a.lvalPtr)
}

// lvalKind classifies an expression of type *LVal.
func (a *ownAnalysis) lvalKind(e ast.Expr, depth int) ownKind {
	e = ast.Unparen(e)
	if a.isLValLit(e) {
		return ownFresh
	}
	// a local variable of the STRUCT type LVal is the function's own copy of a header
	// (`sorted := *list; sorted.sealed = false; sorted.Cells = <fresh>; list = &sorted`): the
	// variable and its address are storage of this function — provided the cells it copied
	// along with the header are replaced by a slice of its own
	if ue, ok := e.(*ast.UnaryExpr); ok && ue.Op == token.AND {
		if a.ownStructLocal(ue.X, depth) {
			return ownFresh
		}
	}
	if a.ownStructLocal(e, depth) {
		return ownFresh
	}
	if ce, ok := e.(*ast.CallExpr); ok {
		if fn := originOf(Callee(a.info, ce)); fn != nil {
			if a.freshFns[fn] {
				return ownFresh
			}
			if i, ok := a.c.passthroughFns()[fn]; ok && i < len(ce.Args) && depth < 4 {
				return a.lvalKind(ce.Args[i], depth+1)
			}
			if _, ok := a.c.headerWrappers()[fn]; ok {
				return ownFresh // a wrapper returns the new header it built
			}
			if FuncName(fn) == "lisp.Nil" {
				// the empty-list singleton has no cells and no element storage to write;
				// field stores on it are caught at run time by checkSingleton and are not
				// what this classification is used for (see MUT.field handling of nilable)
				a.sawNil = true
				return ownFresh
			}
		} else if fld := FieldOfSelector(a.info, ce.Fun); fld != nil {
			// a call through a function-typed field that only ever holds fresh-returning functions
			if fs := a.c.funcFieldValues(fld); len(fs) > 0 {
				all := true
				for _, f := range fs {
					if !a.freshFns[f] {
						if _, ok := a.c.headerWrappers()[f]; !ok {
							all = false
						}
					}
				}
				if all {
					return ownFresh
				}
			}
		}
		return ownBorrowed
	}
	if id, ok := e.(*ast.Ident); ok && id.Name == "nil" {
		return ownFresh
	}
	// X.Cells[k] (and X.Cells[k].Cells[j]) where X is a value this function allocated with
	// lisp.Array / lisp.Vector: the dimension list and the storage node are allocated by Array
	if ie, ok := e.(*ast.IndexExpr); ok {
		if se, ok := ast.Unparen(ie.X).(*ast.SelectorExpr); ok && FieldOfSelector(a.info, se) == a.cellsFld {
			if a.isFreshArray(se.X, depth+1) {
				return ownFresh
			}
			if inner, ok := ast.Unparen(se.X).(*ast.IndexExpr); ok {
				if se2, ok := ast.Unparen(inner.X).(*ast.SelectorExpr); ok && FieldOfSelector(a.info, se2) == a.cellsFld && a.isFreshArray(se2.X, depth+1) {
					return ownFresh
				}
			}
		}
	}
	if o := identObj(a.info, e); o != nil {
		if o == a.argsObj {
			return ownArgs
		}
		v, ok := o.(*types.Var)
		if !ok || v.IsField() || v.Parent() == a.u.Pkg.Types.Scope() || depth > 3 {
			return ownBorrowed
		}
		// parameters are borrowed
		sig := a.u.Obj.Type().(*types.Signature)
		for i := 0; i < sig.Params().Len(); i++ {
			if sig.Params().At(i) == o {
				return ownBorrowed
			}
		}
		if sig.Recv() == o {
			return ownBorrowed
		}
		n, good := 0, 0
		ast.Inspect(a.u.Decl.Body, func(m ast.Node) bool {
			switch s := m.(type) {
			case *ast.AssignStmt:
				if len(s.Lhs) != len(s.Rhs) {
					for _, l := range s.Lhs {
						if identObj(a.info, l) == o {
							n++
						}
					}
					return true
				}
				for i, l := range s.Lhs {
					if identObj(a.info, l) == o {
						n++
						if a.lvalKind(s.Rhs[i], depth+1) == ownFresh {
							good++
						}
					}
				}
			case *ast.RangeStmt:
				if (s.Key != nil && identObj(a.info, s.Key) == o) || (s.Value != nil && identObj(a.info, s.Value) == o) {
					n++
				}
			case *ast.ValueSpec:
				for i, nm := range s.Names {
					if a.info.Defs[nm] == o {
						n++
						if i >= len(s.Values) || a.lvalKind(s.Values[i], depth+1) == ownFresh {
							good++
						}
					}
				}
			}
			return true
		})
		if n > 0 && n == good {
			return ownFresh
		}
		return ownBorrowed
	}
	return ownBorrowed
}

// ownStructLocal: e is a local variable (not a parameter) whose type is the struct lisp.LVal itself,
// and — when it was initialised by copying another value's header (`x := *y`) — its Cells field is
// assigned a slice this function allocated.
func (a *ownAnalysis) ownStructLocal(e ast.Expr, depth int) bool {
	o := identObj(a.info, ast.Unparen(e))
	if o == nil || a.lvalPtr == nil || depth > 3 {
		return false
	}
	v, ok := o.(*types.Var)
	if !ok || v.IsField() || v.Parent() == a.u.Pkg.Types.Scope() {
		return false
	}
	if !types.Identical(types.NewPointer(v.Type()), a.lvalPtr) {
		return false
	}
	sig := a.u.Obj.Type().(*types.Signature)
	for i := 0; i < sig.Params().Len(); i++ {
		if sig.Params().At(i) == o {
			return false
		}
	}
	copied, cellsOwn := false, false
	ast.Inspect(a.u.Decl.Body, func(m ast.Node) bool {
		switch x := m.(type) {
		case *ast.AssignStmt:
			if len(x.Lhs) != len(x.Rhs) {
				return true
			}
			for i, l := range x.Lhs {
				if identObj(a.info, l) == o {
					if _, isLit := ast.Unparen(x.Rhs[i]).(*ast.CompositeLit); !isLit {
						copied = true
					}
				}
				if se, ok := ast.Unparen(l).(*ast.SelectorExpr); ok && identObj(a.info, se.X) == o && FieldOfSelector(a.info, se) == a.cellsFld {
					p := a.sliceProvOf(x.Rhs[i], depth+1)
					if !p.borrowed && !p.unknown {
						cellsOwn = true
					}
				}
			}
		case *ast.ValueSpec:
			for i, nm := range x.Names {
				if a.info.Defs[nm] == o && i < len(x.Values) {
					if _, isLit := ast.Unparen(x.Values[i]).(*ast.CompositeLit); !isLit {
						copied = true
					}
				}
			}
		}
		return true
	})
	return !copied || cellsOwn
}

var sliceParamLifting = map[string]bool{}

// liftSliceParam: provenance of the i-th parameter of a private helper, taken from every call site.
func (a *ownAnalysis) liftSliceParam(i int, depth int) *sliceProv {
	fn := a.u.Obj
	if fn == nil || fn.Exported() || depth > 2 {
		return nil
	}
	key := fmt.Sprintf("%s#%d", FuncName(fn), i)
	if sliceParamLifting[key] {
		return nil
	}
	sliceParamLifting[key] = true
	defer delete(sliceParamLifting, key)
	sites, refs := a.c.CallsTo(nil, fn)
	if len(refs) > 0 || len(sites) == 0 {
		return nil
	}
	out := &sliceProv{clamped: true}
	for _, st := range sites {
		if st.Lit != nil || i >= len(st.Call.Args) || st.Unit.Obj == fn {
			return nil
		}
		ca := newOwnAnalysis(a.c, st.Unit)
		q := ca.sliceProvOf(st.Call.Args[i], depth+1)
		if q.unknown || q.borrowed || len(q.owners) > 0 {
			return nil // only slices the caller itself owns are lifted; anything else stays the helper's problem
		}
		out.fresh = out.fresh || q.fresh
		out.otherField = out.otherField || q.otherField
	}
	if !out.fresh && !out.otherField {
		return nil
	}
	return out
}

// isFreshArray: e is a local whose every assignment is a call to lisp.Array /
// lisp.Vector (or nil).
func (a *ownAnalysis) isFreshArray(e ast.Expr, depth int) bool {
	o := identObj(a.info, e)
	if o == nil || depth > 4 {
		return false
	}
	if v, ok := o.(*types.Var); !ok || v.IsField() {
		return false
	}
	n, good := 0, 0
	ast.Inspect(a.u.Decl.Body, func(m ast.Node) bool {
		as, ok := m.(*ast.AssignStmt)
		if !ok || len(as.Lhs) != len(as.Rhs) {
			return true
		}
		for i, l := range as.Lhs {
			if identObj(a.info, l) != o {
				continue
			}
			n++
			if ce, ok := ast.Unparen(as.Rhs[i]).(*ast.CallExpr); ok {
				if fn := originOf(Callee(a.info, ce)); fn != nil {
					switch FuncName(fn) {
					case "lisp.Array", "lisp.Vector":
						good++
					}
				}
			}
		}
		return true
	})
	return n > 0 && good > 0 && a.lvalKind(e, depth) == ownFresh
}

// sliceProvOf classifies an expression of type []*LVal.
func (a *ownAnalysis) sliceProvOf(e ast.Expr, depth int) *sliceProv {
	e = ast.Unparen(e)
	p := &sliceProv{clamped: true}
	merge := func(q *sliceProv) {
		p.fresh = p.fresh || q.fresh
		p.otherField = p.otherField || q.otherField
		p.unknown = p.unknown || q.unknown
		p.borrowed = p.borrowed || q.borrowed
		p.owners = append(p.owners, q.owners...)
		if q.borrowed && !q.clamped {
			p.clamped = false
		}
	}
	if depth > 4 {
		p.unknown = true
		return p
	}
	switch x := e.(type) {
	case *ast.Ident:
		if x.Name == "nil" {
			p.fresh = true
			return p
		}
		o := identObj(a.info, x)
		if o == nil {
			p.unknown = true
			return p
		}
		if q, ok := a.memoSlice[o]; ok {
			return q
		}
		if a.inProg[o] {
			return &sliceProv{clamped: true}
		}
		a.inProg[o] = true
		defer func() { delete(a.inProg, o) }()
		v, isVar := o.(*types.Var)
		if !isVar || v.IsField() || v.Parent() == a.u.Pkg.Types.Scope() {
			p.unknown = true
			return p
		}
		sig := a.u.Obj.Type().(*types.Signature)
		for i := 0; i < sig.Params().Len(); i++ {
			if sig.Params().At(i) == o {
				// the buffer of a Map.Entries implementation is the caller's scratch space
				// (contract decided at the call sites by MAP.entries-buffer)
				if i == 0 && a.c.mapEntriesMethods()[originOf(a.u.Obj)] && a.c.entriesBufferContract() {
					p.fresh = true
					return p
				}
				// a private helper (unexported, never taken as a value): the slice is what its callers
				// pass — `sortEntriesByKey(entries)` called only by an Entries implementation on the
				// buffer it was handed
				if lifted := a.liftSliceParam(i, depth); lifted != nil {
					return lifted
				}
				p.borrowed, p.clamped, p.unknown = true, false, true
				return p
			}
		}
		n := 0
		ast.Inspect(a.u.Decl.Body, func(m ast.Node) bool {
			switch s := m.(type) {
			case *ast.AssignStmt:
				if len(s.Lhs) == len(s.Rhs) {
					for i, l := range s.Lhs {
						if identObj(a.info, l) == o {
							n++
							merge(a.sliceProvOf(s.Rhs[i], depth+1))
						}
					}
				} else {
					for i, l := range s.Lhs {
						if identObj(a.info, l) == o {
							n++
							// x, err = helper(...): the helper's i-th result is a slice it allocated
							if ce, ok := ast.Unparen(s.Rhs[0]).(*ast.CallExpr); ok && len(s.Rhs) == 1 {
								if fn := originOf(Callee(a.info, ce)); fn != nil && a.c.freshSliceResult(fn, i) {
									p.fresh = true
									continue
								}
							}
							p.unknown = true
						}
					}
				}
			case *ast.ValueSpec:
				for i, nm := range s.Names {
					if a.info.Defs[nm] == o {
						n++
						if i < len(s.Values) {
							merge(a.sliceProvOf(s.Values[i], depth+1))
						} else {
							p.fresh = true
						}
					}
				}
			}
			return true
		})
		if n == 0 {
			p.unknown = true
		}
		a.memoSlice[o] = p
		return p
	case *ast.CompositeLit:
		p.fresh = true
		return p
	case *ast.SelectorExpr:
		if FieldOfSelector(a.info, x) == a.cellsFld {
			p.borrowed, p.clamped = true, false
			p.owners = []ast.Expr{x.X}
			return p
		}
		if FieldOfSelector(a.info, x) != nil {
			p.otherField = true // a []*LVal field that is not LVal.Cells (condition stack, parse results, sort adapters)
			return p
		}
		p.unknown = true
		return p
	case *ast.SliceExpr:
		q := a.sliceProvOf(x.X, depth+1)
		merge(q)
		if x.Slice3 && x.Max != nil && x.High != nil && types.ExprString(x.Max) == types.ExprString(x.High) {
			p.clamped = true
		}
		return p
	case *ast.CallExpr:
		if tv, ok := a.info.Types[x.Fun]; ok && tv.IsType() && len(x.Args) == 1 {
			return a.sliceProvOf(x.Args[0], depth+1) // conversion, e.g. mapEntriesByKey(buf[:n])
		}
		if id, ok := x.Fun.(*ast.Ident); ok {
			if _, isB := a.info.Uses[id].(*types.Builtin); isB {
				switch id.Name {
				case "make":
					p.fresh = true
					return p
				case "append":
					if len(x.Args) > 0 {
						q := a.sliceProvOf(x.Args[0], depth+1)
						if q.fresh && !q.borrowed && !q.unknown {
							p.fresh = true
							return p
						}
						merge(q)
						// the result may still alias the borrowed backing
						return p
					}
				}
			}
		}
		if fn := originOf(Callee(a.info, x)); fn != nil {
			switch FuncName(fn) {
			case "lisp.clampCap":
				q := a.sliceProvOf(x.Args[0], depth+1)
				merge(q)
				p.clamped = true
				return p
			case "lisp.seqCells":
				p.borrowed, p.clamped = true, false
				p.owners = []ast.Expr{x.Args[0]}
				return p
			case "slices.Clone":
				p.fresh = true
				return p
			}
			// a same-package view helper: every return is a (re)slice of one slice parameter;
			// the result borrows what that argument borrows and is clamped only if every
			// return is a three-index reslice with max == high (or clampCap)
			if a.c.freshSliceResult(fn, 0) {
				p.fresh = true
				return p
			}
			if idx, clamped, ok := a.c.sliceHelperSummary(fn); ok && idx < len(x.Args) {
				q := a.sliceProvOf(x.Args[idx], depth+1)
				merge(q)
				p.clamped = clamped
				return p
			}
		}
		p.unknown = true
		return p
	}
	p.unknown = true
	return p
}

// freshSliceResult: fn is a function of this module whose k-th result is a
// slice and every return statement gives nil or a slice allocated during the
// call (make, a composite literal, append onto such a slice) in that position.
func (c *Ctx) freshSliceResult(fn *types.Func, k int) bool {
	key := fmt.Sprintf("freshSliceResult:%s:%d", FuncName(fn), k)
	if v, ok := c.memo[key].(bool); ok {
		return v
	}
	c.memo[key] = false // recursion: assume not
	fd := c.declOf[fn]
	if fd == nil || fd.Body == nil || fn.Pkg() == nil || !strings.HasPrefix(fn.Pkg().Path(), modPath) {
		return false
	}
	sig := fn.Type().(*types.Signature)
	if k >= sig.Results().Len() {
		return false
	}
	if _, isSlice := sig.Results().At(k).Type().Underlying().(*types.Slice); !isSlice {
		return false
	}
	a := newOwnAnalysis(c, FuncUnit{fn, fd, c.pkgOf[fd]})
	ok, nret := true, 0
	ast.Inspect(fd.Body, func(n ast.Node) bool {
		if _, isLit := n.(*ast.FuncLit); isLit {
			return false
		}
		rs, isRet := n.(*ast.ReturnStmt)
		if !isRet {
			return true
		}
		nret++
		if len(rs.Results) != sig.Results().Len() {
			ok = false
			return true
		}
		q := a.sliceProvOf(rs.Results[k], 0)
		if q.borrowed && !q.unknown && !q.otherField && len(q.owners) > 0 {
			// the cells of a value this very function allocated (`v = Array(…); return v, seqCells(v)`):
			// as fresh as the value
			all := true
			for _, ow := range q.owners {
				if a.lvalKind(ow, 0) != ownFresh {
					all = false
				}
			}
			if all {
				return true
			}
		}
		if !q.fresh || q.borrowed || q.unknown || q.otherField {
			ok = false
		}
		return true
	})
	res := ok && nret > 0
	c.memo[key] = res
	return res
}

// sliceHelperSummary: fn returns, on every path, a reslice of its idx-th
// (slice) parameter; clamped reports whether every such return caps the
// capacity at the view's length.
func (c *Ctx) sliceHelperSummary(fn *types.Func) (idx int, clamped bool, ok bool) {
	fd := c.declOf[fn]
	if fd == nil || fd.Body == nil || fn.Pkg() == nil || !strings.HasPrefix(fn.Pkg().Path(), modPath) {
		return 0, false, false
	}
	sig := fn.Type().(*types.Signature)
	if sig.Results().Len() != 1 {
		return 0, false, false
	}
	if _, isSlice := sig.Results().At(0).Type().Underlying().(*types.Slice); !isSlice {
		return 0, false, false
	}
	info := c.pkgOf[fd].TypesInfo
	params := map[types.Object]int{}
	for i := 0; i < sig.Params().Len(); i++ {
		params[sig.Params().At(i)] = i
	}
	idx = -1
	clamped = true
	nret := 0
	bad := false
	ast.Inspect(fd.Body, func(n ast.Node) bool {
		if _, isLit := n.(*ast.FuncLit); isLit {
			return false
		}
		rs, isRet := n.(*ast.ReturnStmt)
		if !isRet || len(rs.Results) != 1 {
			return true
		}
		nret++
		e := ast.Unparen(rs.Results[0])
		thisClamped := false
		for {
			switch x := e.(type) {
			case *ast.SliceExpr:
				if x.Slice3 && x.Max != nil && x.High != nil && types.ExprString(x.Max) == types.ExprString(x.High) {
					thisClamped = true
				}
				e = ast.Unparen(x.X)
				continue
			case *ast.CallExpr:
				if f := originOf(Callee(info, x)); f != nil && FuncName(f) == "lisp.clampCap" && len(x.Args) == 1 {
					thisClamped = true
					e = ast.Unparen(x.Args[0])
					continue
				}
			}
			break
		}
		o := identObj(info, e)
		pi, isParam := params[o]
		if o == nil || !isParam {
			bad = true
			return true
		}
		if idx >= 0 && idx != pi {
			bad = true
		}
		idx = pi
		if !thisClamped {
			clamped = false
		}
		return true
	})
	if bad || nret == 0 || idx < 0 {
		return 0, false, false
	}
	return idx, clamped, true
}

// guardFacts collects, for the site at loc, facts about *LVal objects that the
// dominating edges and enclosing switch clauses establish.
type lvalFacts struct {
	unsealed    map[string]bool            // access-path string -> proven not sealed
	typeIn      map[string]map[string]bool // access-path -> possible LType names
	typeNotSeal map[string]bool
}

var sealableTypes = map[string]bool{"LSExpr": true, "LQuote": true, "LSymbol": true, "LQSymbol": true, "LString": true, "LInt": true, "LFloat": true}

func pathKey(info *types.Info, e ast.Expr) string {
	if p, ok := PathOf(info, e); ok && p.Root != nil {
		return fmt.Sprintf("%p.%s", p.Root, strings.Join(p.Elems, "."))
	}
	return ""
}

// unsealedResult: every return of fn (one *LVal result) is either a parameter, returned only
// over an edge that establishes `!param.sealed`, or a value fn allocated itself whose seal flag it
// cleared (`cp.sealed = false`): the result is never a sealed value.
func (c *Ctx) unsealedResult(fn *types.Func) bool {
	if fn == nil {
		return false
	}
	key := "unsealedResult:" + FuncName(fn)
	if v, ok := c.memo[key]; ok {
		return v.(bool)
	}
	c.memo[key] = false
	fd := c.declOf[fn]
	if fd == nil || fd.Body == nil {
		return false
	}
	sig := fn.Type().(*types.Signature)
	if sig.Results().Len() != 1 || !isLValPtr(c, sig.Results().At(0).Type()) {
		return false
	}
	u := FuncUnit{fn, fd, c.pkgOf[fd]}
	info := u.Pkg.TypesInfo
	ha := newOwnAnalysis(c, u)
	fc := c.cfgOf(u, nil)
	sealedFld := c.LookupField("lisp.LVal.sealed")
	ps := map[types.Object]bool{}
	for _, p := range paramObjs(u) {
		ps[p] = true
	}
	all, n := true, 0
	for _, b := range fc.G.Blocks {
		if !fc.Live(b) {
			continue
		}
		for _, nd := range b.Nodes {
			rs, ok := nd.(*ast.ReturnStmt)
			if !ok || len(rs.Results) != 1 {
				continue
			}
			n++
			o := identObj(info, rs.Results[0])
			switch {
			case o != nil && ps[o]:
				// behind !o.sealed
				cut := fc.edgesImplying(func(at LitAtom) bool {
					se, ok := ast.Unparen(at.E).(*ast.SelectorExpr)
					return ok && !at.Positive && FieldOfSelector(info, se) == sealedFld && identObj(info, se.X) == o
				})
				if len(cut) == 0 || fc.reachableAvoiding(b, cut) {
					all = false
				}
			case o != nil && ha.lvalKind(rs.Results[0], 0) == ownFresh:
				cleared := false
				ast.Inspect(fd.Body, func(m ast.Node) bool {
					if as, ok := m.(*ast.AssignStmt); ok && len(as.Lhs) == len(as.Rhs) {
						for i, l := range as.Lhs {
							if se, ok := ast.Unparen(l).(*ast.SelectorExpr); ok && FieldOfSelector(info, se) == sealedFld && identObj(info, se.X) == o && isBoolConst(info, as.Rhs[i], false) {
								cleared = true
							}
						}
					}
					return true
				})
				if !cleared {
					all = false
				}
			default:
				all = false
			}
		}
	}
	if all && n > 0 {
		c.memo[key] = true
		return true
	}
	return false
}

// sealedPredicate: fn is a one-line predicate that answers exactly `param.sealed` (or
// param.IsSealed()) for its only parameter — a name given to the seal test.
func (c *Ctx) sealedPredicate(fn *types.Func) bool {
	if fn == nil {
		return false
	}
	key := "sealedPredicate:" + FuncName(fn)
	if v, ok := c.memo[key]; ok {
		return v.(bool)
	}
	c.memo[key] = false
	fd := c.declOf[fn]
	if fd == nil || fd.Body == nil || len(fd.Body.List) != 1 {
		return false
	}
	rs, ok := fd.Body.List[0].(*ast.ReturnStmt)
	if !ok || len(rs.Results) != 1 {
		return false
	}
	info := c.pkgOf[fd].TypesInfo
	ps := paramObjs(FuncUnit{fn, fd, c.pkgOf[fd]})
	if len(ps) != 1 {
		return false
	}
	sealedFld := c.LookupField("lisp.LVal.sealed")
	isSealedM := c.LookupMethod("lisp.LVal.IsSealed")
	r := ast.Unparen(rs.Results[0])
	if se, ok := r.(*ast.SelectorExpr); ok && FieldOfSelector(info, se) == sealedFld && identObj(info, se.X) == ps[0] {
		c.memo[key] = true
		return true
	}
	if ce, ok := r.(*ast.CallExpr); ok && originOf(Callee(info, ce)) == isSealedM {
		if se, ok := ast.Unparen(ce.Fun).(*ast.SelectorExpr); ok && identObj(info, se.X) == ps[0] {
			c.memo[key] = true
			return true
		}
	}
	return false
}

// sameTypeResult: every return of fn (one *LVal result) is its idx-th parameter itself or a
// local that received a whole-struct copy of it (`*cp = *param`).
func (c *Ctx) sameTypeResult(fn *types.Func) (int, bool) {
	key := "sameTypeResult:" + FuncName(fn)
	if v, ok := c.memo[key]; ok {
		i := v.(int)
		return i, i >= 0
	}
	c.memo[key] = -1
	fd := c.declOf[fn]
	if fd == nil || fd.Body == nil {
		return -1, false
	}
	sig := fn.Type().(*types.Signature)
	if sig.Results().Len() != 1 || !isLValPtr(c, sig.Results().At(0).Type()) {
		return -1, false
	}
	info := c.pkgOf[fd].TypesInfo
	ps := paramObjs(FuncUnit{fn, fd, c.pkgOf[fd]})
	for idx, p := range ps {
		if !isLValPtr(c, p.Type()) {
			continue
		}
		copies := map[types.Object]bool{}
		ast.Inspect(fd.Body, func(m ast.Node) bool {
			if as, ok := m.(*ast.AssignStmt); ok && len(as.Lhs) == 1 && len(as.Rhs) == 1 {
				l, lok := ast.Unparen(as.Lhs[0]).(*ast.StarExpr)
				r, rok := ast.Unparen(as.Rhs[0]).(*ast.StarExpr)
				if lok && rok && identObj(info, r.X) == p {
					if o := identObj(info, l.X); o != nil {
						copies[o] = true
					}
				}
			}
			return true
		})
		all, n := true, 0
		ast.Inspect(fd.Body, func(m ast.Node) bool {
			if _, isLit := m.(*ast.FuncLit); isLit {
				return false
			}
			if rs, ok := m.(*ast.ReturnStmt); ok && len(rs.Results) == 1 {
				n++
				o := identObj(info, rs.Results[0])
				if o == nil || (o != p && !copies[o]) {
					all = false
				}
			}
			return true
		})
		if all && n > 0 {
			c.memo[key] = idx
			return idx, true
		}
	}
	return -1, false
}

// resolvedKey is pathKey after expanding local aliases: an identifier assigned
// exactly once from a pure access path (x := v.Cells[0]) stands for that path.
func (a *ownAnalysis) resolvedKey(e ast.Expr, depth int) string {
	p, ok := PathOf(a.info, e)
	if !ok || p.Root == nil {
		return ""
	}
	base := fmt.Sprintf("%p.", p.Root)
	if v, isVar := p.Root.(*types.Var); isVar && depth < 4 && !v.IsField() {
		var rhs ast.Expr
		n := 0
		ast.Inspect(a.u.Decl.Body, func(m ast.Node) bool {
			as, ok := m.(*ast.AssignStmt)
			if !ok {
				return true
			}
			for i, l := range as.Lhs {
				if identObj(a.info, l) == p.Root {
					n++
					if len(as.Rhs) == len(as.Lhs) {
						rhs = as.Rhs[i]
					} else {
						rhs = nil
					}
				}
			}
			return true
		})
		// x := sameValueHelper(v): a helper that hands back its argument, or a struct copy of it
		// (copy-on-write: `cp := &LVal{}; *cp = *v; …; return cp`), yields a value of the same type:
		// what is known about v's Type is known about x's
		if n == 1 && rhs != nil && len(p.Elems) == 0 {
			if ce, ok := ast.Unparen(rhs).(*ast.CallExpr); ok {
				if fn := originOf(Callee(a.info, ce)); fn != nil {
					if idx, ok := a.c.sameTypeResult(fn); ok && idx < len(ce.Args) {
						if k := a.resolvedKey(ce.Args[idx], depth+1); k != "" {
							return k
						}
					}
				}
			}
		}
		if n == 1 && rhs != nil {
			if _, isPath := PathOf(a.info, rhs); isPath {
				if _, isCall := ast.Unparen(rhs).(*ast.CallExpr); !isCall {
					if k := a.resolvedKey(rhs, depth+1); k != "" {
						base = k + "."
						if len(p.Elems) == 0 {
							return k
						}
					}
				}
			}
		}
	}
	if len(p.Elems) == 0 {
		return strings.TrimSuffix(base, ".")
	}
	return base + strings.Join(p.Elems, ".")
}

func (a *ownAnalysis) factsAt(fc *FCFG, n ast.Node, stack []ast.Node) *lvalFacts {
	f := &lvalFacts{unsealed: map[string]bool{}, typeIn: map[string]map[string]bool{}, typeNotSeal: map[string]bool{}}
	sealedFld := a.c.LookupField("lisp.LVal.sealed")
	typeFld := a.c.LookupField("lisp.LVal.Type")
	isSealedM := a.c.LookupMethod("lisp.LVal.IsSealed")
	isVecF := a.c.LookupPkgFunc("lisp.isVec")
	noteAtom := func(at LitAtom) {
		e := ast.Unparen(at.E)
		// x.sealed / x.IsSealed()
		if se, ok := e.(*ast.SelectorExpr); ok && FieldOfSelector(a.info, se) == sealedFld && !at.Positive {
			if k := a.resolvedKey(se.X, 0); k != "" {
				f.unsealed[k] = true
			}
		}
		if ce, ok := e.(*ast.CallExpr); ok {
			if originOf(Callee(a.info, ce)) == isSealedM && !at.Positive {
				if se, ok := ast.Unparen(ce.Fun).(*ast.SelectorExpr); ok {
					if k := a.resolvedKey(se.X, 0); k != "" {
						f.unsealed[k] = true
					}
				}
			}
			// a named seal test: sharesProgramStorage(x) is x.sealed
			if !at.Positive && len(ce.Args) == 1 && a.c.sealedPredicate(originOf(Callee(a.info, ce))) {
				if k := a.resolvedKey(ce.Args[0], 0); k != "" {
					f.unsealed[k] = true
				}
			}
			if originOf(Callee(a.info, ce)) == isVecF && at.Positive && len(ce.Args) == 1 {
				if k := a.resolvedKey(ce.Args[0], 0); k != "" {
					f.typeNotSeal[k] = true
				}
			}
		}
		if be, ok := e.(*ast.BinaryExpr); ok && (be.Op == token.EQL || be.Op == token.NEQ) {
			for _, pair := range [][2]ast.Expr{{be.X, be.Y}, {be.Y, be.X}} {
				se, ok := ast.Unparen(pair[0]).(*ast.SelectorExpr)
				if !ok || FieldOfSelector(a.info, se) != typeFld {
					continue
				}
				var tname string
				switch t := ast.Unparen(pair[1]).(type) {
				case *ast.Ident:
					tname = t.Name
				case *ast.SelectorExpr:
					tname = t.Sel.Name
				}
				if tname == "" {
					continue
				}
				if (be.Op == token.EQL) == at.Positive && !sealableTypes[tname] {
					if k := a.resolvedKey(se.X, 0); k != "" {
						f.typeNotSeal[k] = true
					}
				}
			}
		}
	}
	if loc, ok := fc.Locate(n); ok {
		for _, b := range fc.G.Blocks {
			if !fc.Live(b) || b == loc.B {
				continue
			}
			cond := fc.CondOf(b)
			if cond == nil {
				continue
			}
			for k := 0; k < 2; k++ {
				atoms := impliedAtoms(cond, k == 0)
				if len(atoms) == 0 {
					continue
				}
				if fc.edgeDominates(b, k, loc.B) {
					for _, at := range atoms {
						noteAtom(at)
					}
				}
			}
		}
	}
	// enclosing `switch x.Type { case K...: }` clauses
	for i := len(stack) - 1; i > 0; i-- {
		cc, ok := stack[i].(*ast.CaseClause)
		if !ok {
			continue
		}
		// find the switch statement above
		for j := i - 1; j >= 0; j-- {
			sw, ok := stack[j].(*ast.SwitchStmt)
			if !ok {
				continue
			}
			se, ok := ast.Unparen(sw.Tag).(*ast.SelectorExpr)
			if sw.Tag == nil || !ok || FieldOfSelector(a.info, se) != typeFld {
				break
			}
			if len(cc.List) == 0 {
				break
			}
			all := true
			for _, ce := range cc.List {
				var tname string
				switch t := ast.Unparen(ce).(type) {
				case *ast.Ident:
					tname = t.Name
				case *ast.SelectorExpr:
					tname = t.Sel.Name
				}
				if tname == "" || sealableTypes[tname] {
					all = false
				}
			}
			if all {
				if k := a.resolvedKey(se.X, 0); k != "" {
					f.typeNotSeal[k] = true
				}
			}
			break
		}
	}
	return f
}

func (f *lvalFacts) safe(key string) (bool, string) {
	if key == "" {
		return false, ""
	}
	if f.unsealed[key] {
		return true, "the path established that the value is not sealed"
	}
	if f.typeNotSeal[key] {
		return true, "the path established a type the parser cannot produce (never sealed)"
	}
	// internals of a never-sealed container (an array's dimension list and storage node)
	for k := range f.typeNotSeal {
		if strings.HasPrefix(key, k+".Cells.[") {
			return true, "internal node of a value whose type the parser cannot produce (never sealed)"
		}
	}
	return false, ""
}

// ownSite is one write/grow/view site.
type ownSite struct {
	rule      string
	construct string
	node      ast.Node
	verdict   string
	detail    string
	sliceArg  ast.Expr // MUT.view: the cell slice put under the new header
}

// inPlaceOnBorrowed: the site was justified by a guard on a value the function
// does not own (it really mutates a caller's value), or is audited/undecided.
func (s ownSite) inPlaceOnBorrowed() bool {
	if s.rule == "MUT.view" {
		return false
	}
	if s.verdict != Proved {
		return true
	}
	return strings.Contains(s.detail, "the path established") || strings.Contains(s.detail, "internal node of a value whose type") ||
		strings.Contains(s.detail, "shown to be unsealed") || strings.Contains(s.detail, "shown unsealed")
}

func (c *Ctx) ownSites(u FuncUnit) []ownSite {
	a := newOwnAnalysis(c, u)
	info := a.info
	lvalT := c.LookupType("lisp.LVal")
	if lvalT == nil {
		return nil
	}
	lvalFields := map[*types.Var]bool{}
	st := lvalT.Underlying().(*types.Struct)
	for i := 0; i < st.NumFields(); i++ {
		lvalFields[st.Field(i)] = true
	}
	sealedFld := c.LookupField("lisp.LVal.sealed")
	isCellSlice := func(e ast.Expr) bool {
		tv, ok := info.Types[e]
		if !ok {
			return false
		}
		sl, ok := tv.Type.Underlying().(*types.Slice)
		return ok && a.lvalPtr != nil && types.Identical(sl.Elem(), a.lvalPtr)
	}
	var sites []ownSite
	ord := &ordinal{}
	fc := c.cfgOf(u, nil)
	ownerOK := func(x ast.Expr, n ast.Node, stack []ast.Node) (bool, string) {
		switch a.lvalKind(x, 0) {
		case ownFresh:
			return true, "storage allocated in this function"
		case ownArgs:
			return true, "the per-call argument list (built fresh by the binder for every call)"
		}
		// guard facts; function literals have their own CFG
		ffc := fc
		if lit := innermostBody(u.Decl, n); lit.Lit != nil {
			ffc = c.cfgOf(u, lit.Lit)
		}
		facts := a.factsAt(ffc, n, stack)
		if ok, why := facts.safe(a.resolvedKey(x, 0)); ok {
			return true, why
		}
		if a.cowIdiom(x, n) {
			return true, "the path established that the value is not sealed (copy-on-write: `if x.sealed { x = <fresh copy> }` precedes the write)"
		}
		// the copy-on-write moved into a helper: x := sortTarget(v), where the helper hands back v only
		// over an edge that shows it unsealed and otherwise a fresh copy whose seal it cleared
		if d := soleDef(a.info, a.u.Decl.Body, x); d != nil {
			if ce, ok := ast.Unparen(d).(*ast.CallExpr); ok && a.c.unsealedResult(originOf(Callee(a.info, ce))) {
				return true, "the value comes from a copy-on-write helper: its argument when that is not sealed, a fresh unsealed copy otherwise"
			}
		}
		return false, ""
	}
	sliceOK := func(s ast.Expr, n ast.Node, stack []ast.Node, needClamp bool) (bool, string) {
		p := a.sliceProvOf(s, 0)
		if p.otherField && !p.borrowed && !p.unknown {
			return true, "not lisp value storage (a []*LVal field other than LVal.Cells)"
		}
		if p.unknown && !p.borrowed && !p.fresh {
			return false, "provenance of the slice is not known"
		}
		if p.unknown {
			return false, "slice may come from a parameter or an unrecognised expression"
		}
		if !p.borrowed {
			return true, "slice allocated in this function"
		}
		if needClamp && p.clamped {
			return true, "borrowed cells are capacity-clamped: append must reallocate"
		}
		for _, x := range p.owners {
			if ok, _ := ownerOK(x, n, stack); !ok {
				return false, "cells of " + types.ExprString(x) + " are borrowed and nothing on the path shows the value is unsealed or of a never-sealed type"
			}
		}
		guarded := false
		for _, x := range p.owners {
			if k := a.lvalKind(x, 0); k != ownFresh && k != ownArgs {
				guarded = true
			}
		}
		if guarded {
			return true, "cells of a borrowed value shown to be unsealed / never-sealed on this path"
		}
		return true, "cells belong to values this function owns"
	}
	var stack []ast.Node
	ast.Inspect(u.Decl.Body, func(n ast.Node) bool {
		if n == nil {
			stack = stack[:len(stack)-1]
			return true
		}
		stack = append(stack, n)
		st := make([]ast.Node, len(stack))
		copy(st, stack)
		switch s := n.(type) {
		case *ast.AssignStmt:
			if s.Tok == token.DEFINE {
				break
			}
			for _, lhs := range s.Lhs {
				l := ast.Unparen(lhs)
				// x.F = ...
				if se, ok := l.(*ast.SelectorExpr); ok {
					f := FieldOfSelector(info, se)
					if f != nil && lvalFields[f] && f != sealedFld {
						construct := ord.next("store ." + canonFieldName(f))
						if ok, why := ownerOK(se.X, s, st); ok {
							sites = append(sites, ownSite{"MUT.field", construct, s, Proved, why, nil})
						} else {
							sites = append(sites, ownSite{"MUT.field", construct, s, Undecided,
								"writes field " + f.Name() + " of " + types.ExprString(se.X) + ", which this function did not allocate, with no dominating test that it is unsealed or of a never-sealed type: a parsed program node shared by every runtime could be modified", nil})
						}
					}
				}
				// S[i] = ...
				if ie, ok := l.(*ast.IndexExpr); ok && isCellSlice(ie.X) && isSortSwap(u) {
					sites = append(sites, ownSite{"MUT.elem", ord.next("sort.Interface Swap"), s, Proved, "sort adapter method: the slice is checked where the adapter is handed to sort.* (MUT.elem at that call)", nil})
					continue
				}
				if ie, ok := l.(*ast.IndexExpr); ok && isCellSlice(ie.X) {
					construct := ord.next("store element of " + exprShape(info, ie.X))
					if ok, why := sliceOK(ie.X, s, st, false); ok {
						sites = append(sites, ownSite{"MUT.elem", construct, s, Proved, why, nil})
					} else {
						sites = append(sites, ownSite{"MUT.elem", construct, s, Undecided, "writes an element of a cell slice: " + why, nil})
					}
				}
			}
		case *ast.IncDecStmt:
			if se, ok := ast.Unparen(s.X).(*ast.SelectorExpr); ok {
				f := FieldOfSelector(info, se)
				if f != nil && lvalFields[f] {
					construct := ord.next("store ." + canonFieldName(f))
					if ok, why := ownerOK(se.X, s, st); ok {
						sites = append(sites, ownSite{"MUT.field", construct, s, Proved, why, nil})
					} else {
						sites = append(sites, ownSite{"MUT.field", construct, s, Undecided, "in-place update of field " + f.Name() + " of a value this function did not allocate", nil})
					}
				}
			}
		case *ast.CallExpr:
			// append(S, ...)
			if id, ok := ast.Unparen(s.Fun).(*ast.Ident); ok {
				if _, isB := info.Uses[id].(*types.Builtin); isB {
					switch id.Name {
					case "append":
						if len(s.Args) > 0 && isCellSlice(s.Args[0]) {
							p := a.sliceProvOf(s.Args[0], 0)
							if (p.borrowed || p.unknown) && !(p.otherField && !p.borrowed && !p.unknown) {
								construct := ord.next("append to " + exprShape(info, s.Args[0]))
								if ok, why := sliceOK(s.Args[0], s, st, true); ok {
									sites = append(sites, ownSite{"MUT.grow", construct, s, Proved, why, nil})
								} else {
									sites = append(sites, ownSite{"MUT.grow", construct, s, Undecided, "append can write into spare capacity of a backing array another value owns: " + why, nil})
								}
							}
						}
					case "copy":
						if len(s.Args) == 2 && isCellSlice(s.Args[0]) {
							construct := ord.next("copy into " + exprShape(info, s.Args[0]))
							if ok, why := sliceOK(s.Args[0], s, st, false); ok {
								sites = append(sites, ownSite{"MUT.elem", construct, s, Proved, why, nil})
							} else {
								sites = append(sites, ownSite{"MUT.elem", construct, s, Undecided, "copies into a cell slice: " + why, nil})
							}
						}
					}
				}
			}
			// header constructors (and wrappers around them) over borrowed cells
			if fn := originOf(Callee(info, s)); fn != nil && fn.Pkg() != nil {
				argIdx := -1
				switch FuncName(fn) {
				case "lisp.SExpr", "lisp.QExpr":
					argIdx = 0
				case "lisp.Array":
					argIdx = 1
				default:
					if i, ok := c.headerWrappers()[fn]; ok {
						argIdx = i
					}
				}
				switch {
				case argIdx >= 0:
					if argIdx < len(s.Args) {
						arg := s.Args[argIdx]
						if sig := fn.Type().(*types.Signature); sig.Variadic() && argIdx == sig.Params().Len()-1 && !s.Ellipsis.IsValid() {
							break // individual variadic arguments are packed into a fresh array
						}
						if wi, isW := c.headerWrappers()[u.Obj]; isW && identObj(info, windowBase(info, arg)) == u.Obj.Type().(*types.Signature).Params().At(wi) {
							sites = append(sites, ownSite{"MUT.view", ord.next(fn.Name() + " over parameter"), s, Proved, "constructor wrapper: the obligation is checked at every call site of " + u.Name(), nil})
							break
						}
						if isCellSlice(arg) {
							p := a.sliceProvOf(arg, 0)
							if p.borrowed || p.unknown {
								construct := ord.next(shortName(fn) + " over " + exprShape(info, arg))
								v, d := a.viewVerdict(fc, u, s, arg, p, st, ownerOK)
								sites = append(sites, ownSite{"MUT.view", construct, s, v, d, arg})
							}
						}
					}
				}
			}
			// sort.* over a cell slice
			if fn := Callee(info, s); fn != nil && fn.Pkg() != nil && (fn.Pkg().Path() == "sort" || fn.Pkg().Path() == "slices") {
				for _, arg := range s.Args {
					var sl ast.Expr
					if isCellSlice(arg) {
						sl = arg
					}
					// sort.Stable(&T{cells: S})
					if ue, ok := ast.Unparen(arg).(*ast.UnaryExpr); ok && ue.Op == token.AND {
						if cl, ok := ue.X.(*ast.CompositeLit); ok {
							for _, el := range cl.Elts {
								if kv, ok := el.(*ast.KeyValueExpr); ok && isCellSlice(kv.Value) {
									sl = kv.Value
								}
							}
						}
					}
					// sort.Stable(adapter) where adapter := &T{cells: S}
					if o := identObj(info, arg); o != nil && sl == nil {
						ast.Inspect(u.Decl.Body, func(m ast.Node) bool {
							as, ok := m.(*ast.AssignStmt)
							if !ok || len(as.Lhs) != len(as.Rhs) {
								return true
							}
							for i, l := range as.Lhs {
								if identObj(info, l) != o {
									continue
								}
								if ue, ok := ast.Unparen(as.Rhs[i]).(*ast.UnaryExpr); ok && ue.Op == token.AND {
									if cl, ok := ue.X.(*ast.CompositeLit); ok {
										for _, el := range cl.Elts {
											if kv, ok := el.(*ast.KeyValueExpr); ok && isCellSlice(kv.Value) {
												sl = kv.Value
											}
										}
									}
								}
							}
							return true
						})
					}
					if sl == nil {
						continue
					}
					switch fn.Name() {
					case "Sort", "Stable", "Slice", "SliceStable", "SortFunc", "SortStableFunc", "Reverse":
						construct := ord.next(fn.Pkg().Name() + "." + shortName(fn) + " over " + exprShape(info, sl))
						if ok, why := sliceOK(sl, s, st, false); ok {
							sites = append(sites, ownSite{"MUT.elem", construct, s, Proved, why, nil})
						} else {
							sites = append(sites, ownSite{"MUT.elem", construct, s, Undecided, "permutes a cell slice in place: " + why, nil})
						}
					}
				}
			}
		}
		return true
	})
	return sites
}

// exprShape renders an expression for use in an obligation's construct
// without the names a refactoring is free to change: a local variable is `_`,
// a parameter `$k` (the receiver `$0`), a bound or index that is not a constant
// `…`; field, function and constant names are kept.
func exprShape(info *types.Info, e ast.Expr) string {
	var sh func(e ast.Expr) string
	bound := func(e ast.Expr) string {
		if e == nil {
			return ""
		}
		if tv, ok := info.Types[e]; ok && tv.Value != nil {
			return tv.Value.ExactString()
		}
		return "…"
	}
	sh = func(e ast.Expr) string {
		switch x := ast.Unparen(e).(type) {
		case *ast.Ident:
			o := info.Uses[x]
			if o == nil {
				o = info.Defs[x]
			}
			if v, ok := o.(*types.Var); ok && !v.IsField() && v.Pkg() != nil && v.Parent() != v.Pkg().Scope() {
				// a parameter / receiver of the enclosing function, or a local
				if k, ok := paramIndex(info, v); ok {
					return fmt.Sprintf("$%d", k)
				}
				return "_"
			}
			switch y := o.(type) {
			case *types.TypeName:
				if y.Pkg() != nil {
					if old, ok := typeCanon[y.Pkg().Path()+"."+y.Name()]; ok {
						return old[strings.LastIndex(old, ".")+1:]
					}
				}
			case *types.Func:
				return shortName(y)
			}
			return x.Name
		case *ast.SelectorExpr:
			if _, isPkg := info.Uses[shapeIdentOf(x.X)].(*types.PkgName); isPkg {
				return shapeIdentOf(x.X).Name + "." + x.Sel.Name
			}
			// fields and methods answer to the names they had on the audited tree
			if sel := info.Selections[x]; sel != nil {
				switch o := sel.Obj().(type) {
				case *types.Var:
					return sh(x.X) + "." + canonFieldName(o)
				case *types.Func:
					return sh(x.X) + "." + shortName(o)
				}
			}
			return sh(x.X) + "." + x.Sel.Name
		case *ast.IndexExpr:
			return sh(x.X) + "[" + bound(x.Index) + "]"
		case *ast.SliceExpr:
			s := sh(x.X) + "[" + bound(x.Low) + ":" + bound(x.High)
			if x.Slice3 {
				s += ":" + bound(x.Max)
			}
			return s + "]"
		case *ast.CallExpr:
			var as []string
			for _, a := range x.Args {
				as = append(as, sh(a))
			}
			return sh(x.Fun) + "(" + strings.Join(as, ", ") + ")"
		case *ast.StarExpr:
			return "*" + sh(x.X)
		case *ast.UnaryExpr:
			return x.Op.String() + sh(x.X)
		case *ast.BasicLit:
			return x.Value
		}
		return "?"
	}
	s := sh(e)
	if len(s) > 60 {
		s = s[:60]
	}
	return s
}

func shapeIdentOf(e ast.Expr) *ast.Ident {
	id, _ := ast.Unparen(e).(*ast.Ident)
	return id
}

var paramIndexCache = map[*types.Info]map[*types.Var]int{}

// paramIndex: v is a parameter (index from 1) or the receiver (0) of a
// declared function of the package info describes.
func paramIndex(info *types.Info, v *types.Var) (int, bool) {
	m, ok := paramIndexCache[info]
	if !ok {
		m = map[*types.Var]int{}
		for _, o := range info.Defs {
			fn, ok := o.(*types.Func)
			if !ok {
				continue
			}
			sig := fn.Type().(*types.Signature)
			if sig.Recv() != nil {
				m[sig.Recv()] = 0
			}
			for i := 0; i < sig.Params().Len(); i++ {
				m[sig.Params().At(i)] = i + 1
			}
		}
		paramIndexCache[info] = m
	}
	k, ok := m[v]
	return k, ok
}

// unclamp strips a clampCap(...) call around a slice expression.
func unclamp(info *types.Info, e ast.Expr) ast.Expr {
	if ce, ok := ast.Unparen(e).(*ast.CallExpr); ok && len(ce.Args) == 1 {
		if f := originOf(Callee(info, ce)); f != nil && FuncName(f) == "lisp.clampCap" {
			return ce.Args[0]
		}
	}
	return e
}

// windowBase: the slice a (possibly clamped) window is cut from — clampCap(cells[1:]) and cells[i:j]
// are windows onto cells.
func windowBase(info *types.Info, e ast.Expr) ast.Expr {
	e = ast.Unparen(unclamp(info, e))
	for {
		se, ok := e.(*ast.SliceExpr)
		if !ok || se.Slice3 {
			return e
		}
		e = ast.Unparen(se.X)
	}
}

// viewWrapperSummary: fn is a header wrapper (headerWrappers) that binds the
// header it builds over its cells parameter to a local, gives that local the
// seal of its *LVal parameter number src (`hdr.sealed = src.sealed` or
// hdr.InheritSeal(src)) and returns it; clamps reports whether the wrapper
// itself clamps the capacity of the cells.
func (c *Ctx) viewWrapperSummary(fn *types.Func) (src int, clamps bool, ok bool) {
	ci, isW := c.headerWrappers()[fn]
	fd := c.declOf[fn]
	if !isW || fd == nil || fd.Body == nil {
		return 0, false, false
	}
	info := c.pkgOf[fd].TypesInfo
	sig := fn.Type().(*types.Signature)
	cellsParam := sig.Params().At(ci)
	sealedFld := c.LookupField("lisp.LVal.sealed")
	inherit := c.LookupMethod("lisp.LVal.InheritSeal")
	var hdr types.Object
	nctor := 0
	ast.Inspect(fd.Body, func(n ast.Node) bool {
		as, isAs := n.(*ast.AssignStmt)
		if !isAs || len(as.Lhs) != 1 || len(as.Rhs) != 1 {
			return true
		}
		ce, isCall := ast.Unparen(as.Rhs[0]).(*ast.CallExpr)
		if !isCall {
			return true
		}
		f := originOf(Callee(info, ce))
		if f == nil {
			return true
		}
		k := -1
		switch FuncName(f) {
		case "lisp.SExpr", "lisp.QExpr":
			k = 0
		case "lisp.Array":
			k = 1
		default:
			if i, w := c.headerWrappers()[f]; w {
				k = i
			}
		}
		if k < 0 || k >= len(ce.Args) {
			return true
		}
		if identObj(info, windowBase(info, ce.Args[k])) == cellsParam {
			nctor++
			hdr = identObj(info, as.Lhs[0])
			clamps = unclamp(info, ce.Args[k]) != ce.Args[k]
		}
		return true
	})
	if nctor != 1 || hdr == nil {
		return 0, false, false
	}
	paramIdx := func(e ast.Expr) int {
		o := identObj(info, e)
		for i := 0; i < sig.Params().Len(); i++ {
			if sig.Params().At(i) == o && o != nil {
				return i
			}
		}
		return -1
	}
	src = -1
	ast.Inspect(fd.Body, func(n ast.Node) bool {
		switch x := n.(type) {
		case *ast.AssignStmt:
			if len(x.Lhs) == 1 && len(x.Rhs) == 1 {
				if se, ok := ast.Unparen(x.Lhs[0]).(*ast.SelectorExpr); ok && FieldOfSelector(info, se) == sealedFld && identObj(info, se.X) == hdr {
					if r, ok := ast.Unparen(x.Rhs[0]).(*ast.SelectorExpr); ok && FieldOfSelector(info, r) == sealedFld {
						src = paramIdx(r.X)
					} else {
						src = -2
					}
				}
			}
		case *ast.CallExpr:
			if originOf(Callee(info, x)) == inherit && len(x.Args) == 1 {
				if se, ok := ast.Unparen(x.Fun).(*ast.SelectorExpr); ok && identObj(info, se.X) == hdr {
					src = paramIdx(x.Args[0])
				}
			}
		}
		return true
	})
	if src < 0 {
		return 0, false, false
	}
	// every return gives the header
	allRet := true
	ast.Inspect(fd.Body, func(n ast.Node) bool {
		if rs, ok := n.(*ast.ReturnStmt); ok {
			if len(rs.Results) != 1 || identObj(info, rs.Results[0]) != hdr {
				allRet = false
			}
		}
		return true
	})
	return src, clamps, allRet
}

// viewVerdict decides a header construction over borrowed cells.
func (a *ownAnalysis) viewVerdict(fc *FCFG, u FuncUnit, call *ast.CallExpr, arg ast.Expr, p *sliceProv, stack []ast.Node,
	ownerOK func(ast.Expr, ast.Node, []ast.Node) (bool, string)) (string, string) {
	info := a.info
	if p.unknown {
		return Undecided, "new list/vector header over a slice of unknown provenance"
	}
	allOwned := true
	for _, x := range p.owners {
		if ok, _ := ownerOK(x, call, stack); !ok {
			allOwned = false
		}
	}
	if allOwned {
		return Proved, "cells belong to values this function owns or has shown unsealed / never-sealed"
	}
	sealedFld := a.c.LookupField("lisp.LVal.sealed")
	inherit := a.c.LookupMethod("lisp.LVal.InheritSeal")
	// a view-building wrapper that copies the seal of its source argument itself
	if wfn := originOf(Callee(info, call)); wfn != nil {
		if src, clamps, ok := a.c.viewWrapperSummary(wfn); ok && src < len(call.Args) {
			same := len(p.owners) > 0
			for _, x := range p.owners {
				if pathKey(info, call.Args[src]) != pathKey(info, x) {
					same = false
				}
			}
			if same && (p.clamped || clamps) {
				return Proved, "the wrapper " + wfn.Name() + " gives the view the seal of its source argument, which owns the cells, and the capacity is clamped"
			}
			if same {
				return Undecided, "view header inherits the seal but its capacity is not clamped"
			}
		}
	}
	// header bound to a variable that receives the seal of the source
	var hdr types.Object
	if len(stack) >= 2 {
		if as, ok := stack[len(stack)-2].(*ast.AssignStmt); ok && len(as.Lhs) == 1 {
			hdr = identObj(info, as.Lhs[0])
		}
	}
	if hdr != nil {
		sealedOK := false
		ast.Inspect(u.Decl.Body, func(n ast.Node) bool {
			switch s := n.(type) {
			case *ast.AssignStmt:
				if len(s.Lhs) == 1 && len(s.Rhs) == 1 {
					if se, ok := ast.Unparen(s.Lhs[0]).(*ast.SelectorExpr); ok && FieldOfSelector(info, se) == sealedFld && identObj(info, se.X) == hdr {
						if r, ok := ast.Unparen(s.Rhs[0]).(*ast.SelectorExpr); ok && FieldOfSelector(info, r) == sealedFld {
							for _, x := range p.owners {
								if pathKey(info, r.X) == pathKey(info, x) {
									sealedOK = true
								}
							}
						}
					}
				}
			case *ast.CallExpr:
				if originOf(Callee(info, s)) == inherit && len(s.Args) == 1 {
					if se, ok := ast.Unparen(s.Fun).(*ast.SelectorExpr); ok && identObj(info, se.X) == hdr {
						for _, x := range p.owners {
							if pathKey(info, s.Args[0]) == pathKey(info, x) {
								sealedOK = true
							}
						}
					}
				}
			}
			return true
		})
		if sealedOK && p.clamped {
			return Proved, "view header inherits the source's seal and its capacity is clamped"
		}
		if sealedOK {
			return Undecided, "view header inherits the seal but its capacity is not clamped"
		}
	}
	return Undecided, "a new, unsealed list/vector header is built over cells borrowed from " + ownersString(p.owners) + ": in-place builtins applied to it would write the source's backing array (a program literal's, if the source is one)"
}

func ownersString(xs []ast.Expr) string {
	var s []string
	for _, x := range xs {
		s = append(s, types.ExprString(x))
	}
	return strings.Join(s, ", ")
}

func init() {
	for _, r := range []struct{ id, doc string; floor int }{
		{"MUT.field", "every store to an LVal field targets storage the function allocated, the per-call argument list, or a value shown on the path to be unsealed / of a never-sealed type", 40},
		{"MUT.elem", "every in-place write, copy or sort over a []*LVal targets cells the function owns or has shown unsealed / never-sealed", 5},
		{"MUT.grow", "every append to borrowed cells is over a capacity-clamped slice (it must reallocate) or cells the function owns", 5},
		{"MUT.view", "every list/vector header built over borrowed cells inherits the source's seal with a clamped capacity, or the cells are owned / unsealed", 5},
	} {
		r := r
		register(&Rule{ID: r.id, Floor: r.floor, Doc: r.doc,
			Run: func(c *Ctx) []Obligation {
				var obs []Obligation
				for _, u := range c.Funcs(isKernel) {
					for _, s := range c.ownSitesCached(u) {
						if s.rule != r.id {
							continue
						}
						obs = append(obs, mkOb(c, r.id, u, s.construct, s.node, s.verdict, s.detail, s.verdict == Proved))
					}
				}
				return obs
			}})
	}
}

func (c *Ctx) ownSitesCached(u FuncUnit) []ownSite {
	m, _ := c.memo["ownSites"].(map[*types.Func][]ownSite)
	if m == nil {
		m = map[*types.Func][]ownSite{}
		c.memo["ownSites"] = m
	}
	if s, ok := m[u.Obj]; ok {
		return s
	}
	s := c.ownSites(u)
	m[u.Obj] = s
	return s
}

// isSortSwap: u is the Swap method of a type that also has Len and Less.
func isSortSwap(u FuncUnit) bool {
	if u.Obj.Name() != "Swap" {
		return false
	}
	sig := u.Obj.Type().(*types.Signature)
	if sig.Recv() == nil {
		return false
	}
	t := sig.Recv().Type()
	if p, ok := t.(*types.Pointer); ok {
		t = p.Elem()
	}
	n, ok := types.Unalias(t).(*types.Named)
	if !ok {
		return false
	}
	has := map[string]bool{}
	for i := 0; i < n.NumMethods(); i++ {
		has[n.Method(i).Name()] = true
	}
	return has["Len"] && has["Less"]
}

// cowIdiom recognises the repository's copy-on-write shape for a local x:
//
//	if x.sealed { cp := &LVal{}; ...; x = cp }
//	... write through x ...
//
// After the if statement x is either the fresh copy or was not sealed.  The if
// must have no else, must precede the site in an enclosing block, its last
// statement assigning x must assign a fresh value, and x must not be assigned
// between the end of the if and the site.
func (a *ownAnalysis) cowIdiom(x ast.Expr, site ast.Node) bool {
	o := identObj(a.info, x)
	if o == nil {
		return false
	}
	sealedFld := a.c.LookupField("lisp.LVal.sealed")
	isSealedM := a.c.LookupMethod("lisp.LVal.IsSealed")
	found := false
	ast.Inspect(a.u.Decl.Body, func(n ast.Node) bool {
		blk, ok := n.(*ast.BlockStmt)
		if !ok || blk.Pos() > site.Pos() || blk.End() < site.End() {
			return true
		}
		for _, st := range blk.List {
			is, ok := st.(*ast.IfStmt)
			if !ok || is.Else != nil || is.End() > site.Pos() {
				continue
			}
			condOK := false
			cond := ast.Unparen(is.Cond)
			if id, ok := cond.(*ast.Ident); ok {
				if d, ok := boolLocalUse[id]; ok {
					cond = ast.Unparen(d) // `shares := x.sealed; if shares {…}`
				}
			}
			switch c := cond.(type) {
			case *ast.SelectorExpr:
				condOK = FieldOfSelector(a.info, c) == sealedFld && identObj(a.info, c.X) == o
			case *ast.CallExpr:
				if len(c.Args) == 1 && a.c.sealedPredicate(originOf(Callee(a.info, c))) && identObj(a.info, c.Args[0]) == o {
					condOK = true
				}
				if originOf(Callee(a.info, c)) == isSealedM {
					if se, ok := ast.Unparen(c.Fun).(*ast.SelectorExpr); ok {
						condOK = identObj(a.info, se.X) == o
					}
				}
			}
			if !condOK {
				continue
			}
			// last assignment to x inside the body is fresh
			var lastRHS ast.Expr
			for _, bs := range is.Body.List {
				if as, ok := bs.(*ast.AssignStmt); ok && len(as.Lhs) == len(as.Rhs) {
					for i, l := range as.Lhs {
						if identObj(a.info, l) == o {
							lastRHS = as.Rhs[i]
						}
					}
				}
			}
			if lastRHS == nil || a.lvalKind(lastRHS, 0) != ownFresh {
				continue
			}
			// no assignment to x between the if and the site
			clean := true
			ast.Inspect(a.u.Decl.Body, func(m ast.Node) bool {
				if as, ok := m.(*ast.AssignStmt); ok && as.Pos() > is.End() && as.End() <= site.Pos() {
					for _, l := range as.Lhs {
						if identObj(a.info, l) == o {
							clean = false
						}
					}
				}
				return true
			})
			if clean {
				found = true
			}
		}
		return true
	})
	return found
}
