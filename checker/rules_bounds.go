package main

import (
	"fmt"
	"go/ast"
	"go/token"
	"go/types"
	"strings"
)

// BOUNDS.lisp-int — Go slice expressions and index expressions whose bound is
// an integer taken straight from a lisp value (a local defined as X.Int) panic
// when the bound is out of range; the panic is recovered as internal-panic,
// which the catch-all handler does not contain (C03).  The structural half: the
// bound is compared, on every path, against zero and against a length.

// cmpTerm is one side of an ordering comparison: a local object, or the
// constant 0, or "a length" (a local defined by len(..)/X.Len(), or a direct
// len(..) / X.Len() call).
type cmpFact struct {
	lo, hi  string // fact: lo <= hi ; terms are expression spellings ("" for lo means the constant 0)
	strict  bool   // lo < hi
	hiIsLen bool   // hi may be any length-like term
}

func isLenLike(info *types.Info, body ast.Node, e ast.Expr) bool {
	e = ast.Unparen(e)
	if ce, ok := e.(*ast.CallExpr); ok {
		if id, ok := ast.Unparen(ce.Fun).(*ast.Ident); ok && id.Name == "len" {
			return true
		}
		if se, ok := ast.Unparen(ce.Fun).(*ast.SelectorExpr); ok && se.Sel.Name == "Len" {
			return true
		}
		return false
	}
	if o := identObj(info, e); o != nil {
		found := false
		ast.Inspect(body, func(n ast.Node) bool {
			as, ok := n.(*ast.AssignStmt)
			if !ok || len(as.Lhs) != len(as.Rhs) {
				return true
			}
			for i, l := range as.Lhs {
				if identObj(info, l) == o && isLenLike(info, body, as.Rhs[i]) {
					found = true
				}
			}
			return true
		})
		return found
	}
	return false
}

// factEdges: edges of fc that establish `lo <= hi` (or `<` when strict).
func factEdges(fc *FCFG, info *types.Info, body ast.Node, f cmpFact, lenNames map[string]bool) []cfgEdge {
	matchLo := func(e ast.Expr) bool {
		if f.lo == "" {
			v, ok := intConst(info, e)
			return ok && v == 0
		}
		return types.ExprString(ast.Unparen(e)) == f.lo
	}
	matchHi := func(e ast.Expr) bool {
		if f.hiIsLen {
			if id, ok := ast.Unparen(e).(*ast.Ident); ok && lenNames[id.Name] {
				return true
			}
			return isLenLike(info, body, e)
		}
		return types.ExprString(ast.Unparen(e)) == f.hi
	}
	cls := func(e ast.Expr) (string, bool) {
		be, ok := ast.Unparen(e).(*ast.BinaryExpr)
		if !ok {
			return "", false
		}
		var loLeft bool
		switch {
		case matchLo(be.X) && matchHi(be.Y):
			loLeft = true
		case matchHi(be.X) && matchLo(be.Y):
			loLeft = false
		default:
			return "", false
		}
		op := be.Op
		if !loLeft { // normalise to lo OP hi
			switch op {
			case token.LSS:
				op = token.GTR
			case token.LEQ:
				op = token.GEQ
			case token.GTR:
				op = token.LSS
			case token.GEQ:
				op = token.LEQ
			}
		}
		// atom "holds" = the fact lo<=hi (or lo<hi); return (name, negated)
		switch op {
		case token.LEQ: // lo <= hi
			if f.strict {
				return "", false // true edge gives only <=
			}
			return "holds", false
		case token.LSS: // lo < hi : implies both
			return "holds", false
		case token.GTR: // lo > hi : false edge gives lo <= hi
			if f.strict {
				return "", false
			}
			return "holds", true
		case token.GEQ: // lo >= hi : false edge gives lo < hi
			return "holds", true
		}
		return "", false
	}
	out := fc.edgesEntailing(cls, func(v map[string]bool) bool { return v["$has:holds"] && v["holds"] })
	return append(out, helperFactEdges(fc, info, body, f, matchLo, matchHi)...)
}

// helperFactEdges: the bounds may be checked by a helper of the package that receives
// them — `if msg := sliceBoundsError(n, lo, hi); msg != "" { return error }`.  The edge
// on which the helper's result is its "all good" value ("" / nil / true) establishes
// the fact when every return of that value inside the helper lies behind edges that
// establish it for the corresponding parameters.
var boundsCtx *Ctx

func helperFactEdges(fc *FCFG, info *types.Info, body ast.Node, f cmpFact, matchLo, matchHi func(ast.Expr) bool) []cfgEdge {
	c := boundsCtx
	if c == nil {
		return nil
	}
	var out []cfgEdge
	for _, b := range fc.G.Blocks {
		cond := fc.CondOf(b)
		if !fc.Live(b) || cond == nil {
			continue
		}
		// which edge says "the helper's result is its zero / true value"
		var call *ast.CallExpr
		okOnTrue := false
		e := ast.Unparen(cond)
		neg := false
		if ue, ok := e.(*ast.UnaryExpr); ok && ue.Op == token.NOT {
			e, neg = ast.Unparen(ue.X), true
		}
		switch x := e.(type) {
		case *ast.BinaryExpr:
			if x.Op != token.EQL && x.Op != token.NEQ {
				continue
			}
			for _, pr := range [][2]ast.Expr{{x.X, x.Y}, {x.Y, x.X}} {
				zero := isNilIdent(info, pr[1])
				if sv, ok := constStringVal(info, pr[1]); ok && sv == "" {
					zero = true
				}
				if !zero {
					continue
				}
				d := ast.Unparen(pr[0])
				if sd := soleDef(info, body, d); sd != nil {
					d = ast.Unparen(sd)
				}
				if ce, ok := d.(*ast.CallExpr); ok {
					call = ce
					okOnTrue = (x.Op == token.EQL) != neg
				}
			}
		case *ast.CallExpr:
			call, okOnTrue = x, !neg
		case *ast.Ident:
			if sd := soleDef(info, body, x); sd != nil {
				if ce, ok := ast.Unparen(sd).(*ast.CallExpr); ok {
					call, okOnTrue = ce, !neg
				}
			}
		}
		if call == nil {
			continue
		}
		h := originOf(Callee(info, call))
		if h == nil || c.declOf[h] == nil || c.declOf[h].Body == nil {
			continue
		}
		hd := c.declOf[h]
		hu := FuncUnit{h, hd, c.pkgOf[hd]}
		hinfo := hu.Pkg.TypesInfo
		hps := paramObjs(hu)
		sig := h.Type().(*types.Signature)
		if sig.Results().Len() != 1 {
			continue
		}
		var pl, ph types.Object
		hlen := map[string]bool{}
		for i, a := range call.Args {
			if i >= len(hps) {
				break
			}
			if f.lo != "" && matchLo(a) {
				pl = hps[i]
			}
			if matchHi(a) {
				ph = hps[i]
				if f.hiIsLen {
					hlen[hps[i].Name()] = true
				}
			}
		}
		if ph == nil || (f.lo != "" && pl == nil) {
			continue
		}
		hf := cmpFact{hi: ph.Name(), strict: f.strict, hiIsLen: f.hiIsLen}
		if pl != nil {
			hf.lo = pl.Name()
		}
		hfc := c.cfgOf(hu, nil)
		saved := boundsCtx
		boundsCtx = nil // one level
		hEdges := factEdges(hfc, hinfo, hd.Body, hf, hlen)
		boundsCtx = saved
		if len(hEdges) == 0 {
			continue
		}
		good, nok := true, 0
		for _, hb := range hfc.G.Blocks {
			if !hfc.Live(hb) {
				continue
			}
			for _, n := range hb.Nodes {
				rs, ok := n.(*ast.ReturnStmt)
				if !ok || len(rs.Results) != 1 {
					continue
				}
				r := rs.Results[0]
				isOK := isNilIdent(hinfo, r) || isBoolConst(hinfo, r, true)
				if sv, ok := constStringVal(hinfo, r); ok && sv == "" {
					isOK = true
				}
				if !isOK {
					continue
				}
				nok++
				if hfc.reachableAvoiding(hb, hEdges) {
					good = false
				}
			}
		}
		if good && nok > 0 {
			k := 1
			if okOnTrue {
				k = 0
			}
			out = append(out, cfgEdge{b, k})
		}
	}
	return out
}

func init() {
	register(&Rule{ID: "BOUNDS.lisp-int", Floor: 3,
		Doc: "every Go slice expression X[i:j] and index expression X[i] in a registered builtin whose bound is a local taken straight from a lisp integer (defined as <value>.Int) is reached only over edges that establish 0 <= bound and bound <= (a length) — for an index, bound < length; for a slice's low bound, low <= high is accepted in place of the length test: an out-of-range bound is refused with a lisp error instead of panicking in the Go runtime (internal-panic, which handlers for `condition` do not contain)",
		Run: func(c *Ctx) []Obligation {
			intFld := c.LookupField("lisp.LVal.Int")
			if intFld == nil {
				return []Obligation{anchorMissing("BOUNDS.lisp-int", "LVal.Int")}
			}
			boundsCtx = c
			var obs []Obligation
			seenUnit := map[*types.Func]bool{}
			for _, e := range c.Registry() {
				body, u, _, ok := c.BodyOf(e)
				if !ok || u.Decl == nil || seenUnit[u.Obj] {
					continue
				}
				seenUnit[u.Obj] = true
				// closure over same-package helpers one level deep that receive an int derived from .Int is not followed:
				// the bound must be checked where the lisp integer is read
				info := u.Pkg.TypesInfo
				fc := c.cfgOf(u, nil)
				// locals defined from X.Int (directly or int(X.Int))
				lispInt := map[types.Object]bool{}
				// ... and locals that receive a number parsed out of program-supplied text
				ast.Inspect(body, func(n ast.Node) bool {
					as, ok := n.(*ast.AssignStmt)
					if ok && len(as.Rhs) == 1 && len(as.Lhs) == 2 && isStrconvInt(info, as.Rhs[0]) {
						if o := identObj(info, as.Lhs[0]); o != nil {
							lispInt[o] = true
						}
					}
					return true
				})
				ast.Inspect(body, func(n ast.Node) bool {
					as, ok := n.(*ast.AssignStmt)
					if !ok || len(as.Lhs) != len(as.Rhs) {
						return true
					}
					for i, r := range as.Rhs {
						r = ast.Unparen(r)
						if ce, ok := r.(*ast.CallExpr); ok && len(ce.Args) == 1 {
							if tv, ok := info.Types[ce.Fun]; ok && tv.IsType() {
								r = ast.Unparen(ce.Args[0])
							}
						}
						if FieldOfSelector(info, r) == intFld {
							if o := identObj(info, as.Lhs[i]); o != nil {
								lispInt[o] = true
							}
						}
					}
					return true
				})
				// locals that receive a result of a same-package helper which returns a lisp integer it read:
				// the bound facts must then hold on the helper's value-returning paths
				type viaHelper struct {
					h        FuncUnit
					local    string          // the helper's local returned in this position
					lenNames map[string]bool // helper parameters that receive a length
				}
				via := map[types.Object]viaHelper{}
				ast.Inspect(body, func(n ast.Node) bool {
					as, ok := n.(*ast.AssignStmt)
					if !ok || len(as.Rhs) != 1 || len(as.Lhs) < 2 {
						return true
					}
					ce, ok := ast.Unparen(as.Rhs[0]).(*ast.CallExpr)
					if !ok {
						return true
					}
					hfn := originOf(Callee(info, ce))
					if hfn == nil || hfn.Pkg() != u.Obj.Pkg() {
						return true
					}
					hfd := c.declOf[hfn]
					if hfd == nil || hfd.Body == nil {
						return true
					}
					hu := FuncUnit{hfn, hfd, c.pkgOf[hfd]}
					hinfo := hu.Pkg.TypesInfo
					hInt := map[types.Object]bool{}
					ast.Inspect(hfd.Body, func(m ast.Node) bool {
						if a2, ok := m.(*ast.AssignStmt); ok && len(a2.Rhs) == 1 && len(a2.Lhs) == 2 && isStrconvInt(hinfo, a2.Rhs[0]) {
							if o := identObj(hinfo, a2.Lhs[0]); o != nil {
								hInt[o] = true
							}
						}
						if a2, ok := m.(*ast.AssignStmt); ok && len(a2.Lhs) == len(a2.Rhs) {
							for i, r := range a2.Rhs {
								if FieldOfSelector(hinfo, ast.Unparen(r)) == intFld {
									if o := identObj(hinfo, a2.Lhs[i]); o != nil {
										hInt[o] = true
									}
								}
							}
						}
						return true
					})
					lenNames := map[string]bool{}
					hps := paramObjs(hu)
					for i, a := range ce.Args {
						if i < len(hps) && isLenLike(info, body, a) {
							lenNames[hps[i].Name()] = true
						}
					}
					for pos, l := range as.Lhs {
						lo := identObj(info, l)
						if lo == nil {
							continue
						}
						name := ""
						consistent := true
						for _, rs := range returnsOf(hfd.Body) {
							if pos >= len(rs.Results) {
								consistent = false
								continue
							}
							r := ast.Unparen(rs.Results[pos])
							if _, isConst := intConst(hinfo, r); isConst {
								continue // an error return
							}
							if cv, ok := r.(*ast.CallExpr); ok && len(cv.Args) == 1 {
								if tv, ok := hinfo.Types[cv.Fun]; ok && tv.IsType() {
									r = ast.Unparen(cv.Args[0]) // int(idx)
								}
							}
							ro := identObj(hinfo, r)
							if ro == nil || !hInt[ro] {
								consistent = false
								continue
							}
							if name != "" && name != ro.Name() {
								consistent = false
							}
							name = ro.Name()
						}
						if consistent && name != "" {
							via[lo] = viaHelper{h: hu, local: name, lenNames: lenNames}
						}
					}
					return true
				})
				// copy locals: a local with at least one definition that is a plain copy of a lisp-integer
				// local (`argIdx = idx`); a fact about it may be established on the source before the copy
				type copyDef struct {
					at  ast.Node
					src types.Object // nil: a definition from something that is not a lisp integer
				}
				copies := map[types.Object][]copyDef{}
				ast.Inspect(body, func(n ast.Node) bool {
					switch x := n.(type) {
					case *ast.FuncLit:
						return false
					case *ast.AssignStmt:
						if len(x.Lhs) != len(x.Rhs) {
							return true
						}
						for i, l := range x.Lhs {
							lo := identObj(info, l)
							if lo == nil || lispInt[lo] {
								continue
							}
							if _, isVia := via[lo]; isVia {
								continue
							}
							src := identObj(info, x.Rhs[i])
							if src != nil && !(lispInt[src]) {
								if _, isVia := via[src]; !isVia {
									src = nil
								}
							}
							copies[lo] = append(copies[lo], copyDef{x, src})
						}
					case *ast.IncDecStmt:
						if lo := identObj(info, x.X); lo != nil {
							copies[lo] = append(copies[lo], copyDef{x, nil})
						}
					case *ast.ValueSpec:
						for _, nm := range x.Names {
							if lo := info.Defs[nm]; lo != nil {
								copies[lo] = append(copies[lo], copyDef{x, nil})
							}
						}
					}
					return true
				})
				isCopy := func(o types.Object) bool {
					for _, d := range copies[o] {
						if d.src != nil {
							return true
						}
					}
					return false
				}
				ord := &ordinal{}
				// definitions of the lisp-integer locals: a bound may be CLAMPED instead of refused
				// (`k := n.Int; if k > len(xs) { k = len(xs) }`, `k = min(k, len(xs))`), and the test may be
				// written on the value the local was read from (`if n.Int < 0 { return … }; k := n.Int`)
				type ldef struct {
					at  ast.Node
					rhs ast.Expr // nil: not a plain one-to-one assignment
				}
				localDefs := map[types.Object][]ldef{}
				ast.Inspect(body, func(n ast.Node) bool {
					switch x := n.(type) {
					case *ast.FuncLit:
						return false
					case *ast.AssignStmt:
						for i, l := range x.Lhs {
							o := identObj(info, l)
							if o == nil || !lispInt[o] {
								continue
							}
							if len(x.Lhs) == len(x.Rhs) && (x.Tok == token.ASSIGN || x.Tok == token.DEFINE) {
								localDefs[o] = append(localDefs[o], ldef{x, x.Rhs[i]})
							} else {
								localDefs[o] = append(localDefs[o], ldef{x, nil})
							}
						}
					case *ast.IncDecStmt:
						if o := identObj(info, x.X); o != nil && lispInt[o] {
							localDefs[o] = append(localDefs[o], ldef{x, nil})
						}
					}
					return true
				})
				lispLocal := func(name string) types.Object {
					if name == "" {
						return nil
					}
					for o := range lispInt {
						if o.Name() == name {
							return o
						}
					}
					return nil
				}
				stripConv := func(e ast.Expr) ast.Expr {
					e = ast.Unparen(e)
					if ce, ok := e.(*ast.CallExpr); ok && len(ce.Args) == 1 {
						if tv, ok := info.Types[ce.Fun]; ok && tv.IsType() {
							return ast.Unparen(ce.Args[0])
						}
					}
					return e
				}
				builtinCall := func(e ast.Expr, name string) []ast.Expr {
					ce, ok := ast.Unparen(e).(*ast.CallExpr)
					if !ok {
						return nil
					}
					id, ok := ast.Unparen(ce.Fun).(*ast.Ident)
					if !ok || id.Name != name {
						return nil
					}
					if _, isB := info.Uses[id].(*types.Builtin); !isB {
						return nil
					}
					return ce.Args
				}
				// defFacts: for a fact about a lisp-integer LOCAL, the cut edges and same-block
				// definitions that establish it by construction.  Sound only when every definition of
				// the local is either the read of one and the same lisp integer (then a test of that
				// spelling counts) or establishes the fact itself.
				defFacts := func(f cmpFact) (cuts []cfgEdge, defs []ast.Node) {
					var o types.Object
					upper := false
					if lo := lispLocal(f.lo); lo != nil && (f.hiIsLen || lispLocal(f.hi) == nil) {
						o, upper = lo, true
					} else if f.lo == "" {
						o = lispLocal(f.hi)
					}
					if o == nil || len(localDefs[o]) == 0 {
						return nil, nil
					}
					var sat func(r ast.Expr) bool
					sat = func(r ast.Expr) bool {
						r = stripConv(r)
						if upper {
							if f.strict {
								return false
							}
							if f.hiIsLen && isLenLike(info, body, r) {
								return true
							}
							if !f.hiIsLen && types.ExprString(r) == f.hi {
								return true
							}
							for _, a := range builtinCall(r, "min") {
								if sat(a) {
									return true
								}
							}
							return false
						}
						if v, ok := intConst(info, r); ok {
							return v > 0 || (v == 0 && !f.strict)
						}
						if !f.strict && isLenLike(info, body, r) {
							return true
						}
						for _, a := range builtinCall(r, "max") {
							if sat(a) {
								return true
							}
						}
						return false
					}
					alias := ""
					for _, d := range localDefs[o] {
						if d.rhs == nil {
							return nil, nil
						}
						if sat(d.rhs) {
							continue
						}
						r := stripConv(d.rhs)
						if FieldOfSelector(info, r) == intFld {
							sp := types.ExprString(r)
							if alias != "" && alias != sp {
								return nil, nil
							}
							alias = sp
							continue
						}
						return nil, nil
					}
					for _, d := range localDefs[o] {
						if !sat(d.rhs) {
							continue
						}
						dl, ok := fc.Locate(d.at)
						if !ok {
							continue
						}
						// the definition must be the last word on the local in its block
						last := true
						for _, d2 := range localDefs[o] {
							if d2.at != d.at && d2.at.Pos() > d.at.Pos() {
								if l2, ok := fc.Locate(d2.at); ok && l2.B == dl.B {
									last = false
								}
							}
						}
						if !last {
							continue
						}
						defs = append(defs, d.at)
						for k := range dl.B.Succs {
							cuts = append(cuts, cfgEdge{dl.B, k})
						}
					}
					if alias != "" {
						af := f
						if upper {
							af.lo = alias
						} else {
							af.hi = alias
						}
						cuts = append(cuts, factEdges(fc, info, body, af, nil)...)
					}
					return cuts, defs
				}
				// term: the spelling of a bound that comes straight from a lisp integer, or ""
				term := func(e ast.Expr) string {
					if e == nil {
						return ""
					}
					e = ast.Unparen(e)
					if ce, ok := e.(*ast.CallExpr); ok && len(ce.Args) == 1 {
						if tv, ok := info.Types[ce.Fun]; ok && tv.IsType() {
							e = ast.Unparen(ce.Args[0])
						}
					}
					if FieldOfSelector(info, e) == intFld {
						return types.ExprString(e)
					}
					if o := identObj(info, e); o != nil && lispInt[o] {
						return o.Name()
					}
					if o := identObj(info, e); o != nil {
						if _, ok := via[o]; ok {
							return "via:" + o.Name()
						}
					}
					if o := identObj(info, e); o != nil && isCopy(o) {
						return "copy:" + o.Name()
					}
					return ""
				}
				copyOf := func(t string) (types.Object, bool) {
					if !strings.HasPrefix(t, "copy:") {
						return nil, false
					}
					for o := range copies {
						if o.Name() == t[5:] && isCopy(o) {
							return o, true
						}
					}
					return nil, false
				}
				viaOf := func(t string) (viaHelper, bool) {
					if !strings.HasPrefix(t, "via:") {
						return viaHelper{}, false
					}
					for o, v := range via {
						if o.Name() == t[4:] {
							return v, true
						}
					}
					return viaHelper{}, false
				}
				check := func(site ast.Expr, what string, facts []cmpFact) {
					loc, ok := fc.Locate(site)
					construct := ord.next(what)
					if !ok {
						obs = append(obs, mkOb(c, "BOUNDS.lisp-int", u, construct, site, Undecided, "site not located in the CFG (inside a function literal?)", false))
						return
					}
					for _, f := range facts {
						holds := false
						// a copy local: the fact holds on the local itself between copy and use, or was
						// established on the source before every copy (definitions from anything else
						// — a counter, a constant — are not lisp integers and need no fact)
						cl, okcl := copyOf(f.lo)
						ch, okch := copyOf(f.hi)
						if okcl || okch {
							co := cl
							side := "lo"
							if !okcl {
								co, side = ch, "hi"
							}
							own := f
							if side == "lo" {
								own.lo = co.Name()
							} else {
								own.hi = co.Name()
							}
							if okcl && okch {
								own.lo, own.hi = cl.Name(), ch.Name()
							}
							cut := factEdges(fc, info, body, own, nil)
							holds = len(cut) > 0 && !fc.reachableAvoiding(loc.B, cut)
							if !holds && !(okcl && okch) {
								holds = true
								for _, d := range copies[co] {
									if d.src == nil {
										continue
									}
									sf := f
									if side == "lo" {
										sf.lo = d.src.Name()
									} else {
										sf.hi = d.src.Name()
									}
									dl, ok := fc.Locate(d.at)
									scut := factEdges(fc, info, body, sf, nil)
									if !ok || len(scut) == 0 || fc.reachableAvoiding(dl.B, scut) {
										holds = false
									}
								}
							}
							if !holds {
								lo, hi := own.lo, own.hi
								if lo == "" {
									lo = "0"
								}
								if f.hiIsLen {
									hi = "a length"
								}
								rel := "<="
								if f.strict {
									rel = "<"
								}
								obs = append(obs, mkOb(c, "BOUNDS.lisp-int", u, construct, site, Violated,
									fmt.Sprintf("`%s` is reached without `%s %s %s` having been established (on the bound or on the lisp integer it was copied from): a lisp integer out of range panics in the Go runtime here (internal-panic instead of an ordinary error)", types.ExprString(site), lo, rel, hi), true))
								return
							}
							continue
						}
						vl, okl := viaOf(f.lo)
						vh, okh := viaOf(f.hi)
						if okl || okh {
							// decide the fact inside the helper, on every value-returning path
							v := vl
							if !okl {
								v = vh
							}
							hf := f
							if okl {
								hf.lo = vl.local
							}
							if okh {
								hf.hi = vh.local
							}
							if (okl && okh && vl.h.Obj != vh.h.Obj) || (f.lo != "" && !okl) || (f.hi != "" && !f.hiIsLen && !okh) {
								holds = false
							} else {
								hfc := c.cfgOf(v.h, nil)
								hcut := factEdges(hfc, v.h.Pkg.TypesInfo, v.h.Decl.Body, hf, v.lenNames)
								holds = len(hcut) > 0
								for _, hb := range hfc.G.Blocks {
									if !hfc.Live(hb) {
										continue
									}
									for _, hn := range hb.Nodes {
										rs, ok := hn.(*ast.ReturnStmt)
										if !ok {
											continue
										}
										valueRet := false
										for _, r := range rs.Results {
											if o := identObj(v.h.Pkg.TypesInfo, r); o != nil && (o.Name() == vl.local || o.Name() == vh.local) {
												valueRet = true
											}
										}
										if valueRet && hfc.reachableAvoiding(hb, hcut) {
											holds = false
										}
									}
								}
							}
						} else {
							cut := factEdges(fc, info, body, f, nil)
							dcut, ddefs := defFacts(f)
							cut = append(cut, dcut...)
							holds = len(cut) > 0 && !fc.reachableAvoiding(loc.B, cut)
							if !holds {
								// clamped in the very block of the use: `k = min(k, len(xs)); … xs[:k]`
								for _, dn := range ddefs {
									if dl, ok := fc.Locate(dn); ok && dl.B == loc.B && dn.End() <= site.Pos() {
										holds = true
									}
								}
							}
						}
						if !holds {
							lo := f.lo
							if lo == "" {
								lo = "0"
							}
							hi := f.hi
							if f.hiIsLen {
								hi = "a length"
							}
							rel := "<="
							if f.strict {
								rel = "<"
							}
							obs = append(obs, mkOb(c, "BOUNDS.lisp-int", u, construct, site, Violated,
								fmt.Sprintf("`%s` is reached without `%s %s %s` having been established: a lisp integer out of range panics in the Go runtime here (internal-panic instead of an ordinary error)", types.ExprString(site), lo, rel, hi), true))
							return
						}
					}
					obs = append(obs, mkOb(c, "BOUNDS.lisp-int", u, construct, site, Proved, "every bound taken from a lisp integer is compared with 0 and with a length on every path", true))
				}
				ast.Inspect(body, func(n ast.Node) bool {
					switch x := n.(type) {
					case *ast.FuncLit:
						return false
					case *ast.SliceExpr:
						lo, hi := term(x.Low), term(x.High)
						var facts []cmpFact
						if hi != "" {
							facts = append(facts, cmpFact{lo: hi, hiIsLen: true})
							if lo == "" {
								facts = append(facts, cmpFact{lo: "", hi: hi})
							}
						}
						if lo != "" {
							facts = append(facts, cmpFact{lo: "", hi: lo})
							if hi != "" {
								facts = append(facts, cmpFact{lo: lo, hi: hi})
							} else {
								facts = append(facts, cmpFact{lo: lo, hiIsLen: true})
							}
						}
						if len(facts) > 0 {
							check(x, "slice with a lisp-integer bound", facts)
						}
					case *ast.IndexExpr:
						if tv, ok := info.Types[x.X]; ok {
							if _, isMap := tv.Type.Underlying().(*types.Map); isMap {
								return true
							}
						}
						if idx := term(x.Index); idx != "" {
							check(x, "index with a lisp integer", []cmpFact{{lo: "", hi: idx}, {lo: idx, hiIsLen: true, strict: true}})
						}
					}
					return true
				})
			}
			return obs
		}})
}

// isStrconvInt: e is a call of strconv.Atoi / ParseInt / ParseUint.
func isStrconvInt(info *types.Info, e ast.Expr) bool {
	ce, ok := ast.Unparen(e).(*ast.CallExpr)
	if !ok {
		return false
	}
	return stdFuncCalled(info, ce, "strconv", "Atoi") || stdFuncCalled(info, ce, "strconv", "ParseInt") || stdFuncCalled(info, ce, "strconv", "ParseUint")
}

func init() {
	register(&Rule{ID: "SLEEP.cap-positive", Floor: 2,
		Doc: "sleepCap never hands back a cap that is not positive: every return without an error returns a positive constant (the one-hour default), or a value that was compared with zero on the way (`x <= 0` refused, or an edge `x > 0`) — a zero or negative cap means `no limit` to time:sleep, so a host setting that means `disabled` must not leak into the default cap; and Runtime.MaxSleepCeiling reports every non-positive setting as 0",
		Run: func(c *Ctx) []Obligation {
			var obs []Obligation
			fn, fd, pkg := c.LookupFunc("lisp/lisplib/libtime.sleepCap")
			if fn == nil {
				obs = append(obs, anchorMissing("SLEEP.cap-positive", "libtime.sleepCap"))
			} else {
				ord := &ordinal{}
				var checkReturns func(u FuncUnit, nres int, depth int)
				checkReturns = func(u FuncUnit, nres int, depth int) {
				fd := u.Decl
				info := u.Pkg.TypesInfo
				fc := c.cfgOf(u, nil)
				for _, b := range fc.G.Blocks {
					if !fc.Live(b) {
						continue
					}
					for _, n := range b.Nodes {
						rs, ok := n.(*ast.ReturnStmt)
						if !ok || len(rs.Results) != nres {
							continue
						}
						if nres == 2 {
							if tv, ok := info.Types[rs.Results[1]]; !ok || !tv.IsNil() {
								continue // an error return
							}
						}
						// the cap is computed by a helper of the package: its returns are the caps
						if ce, ok := ast.Unparen(rs.Results[0]).(*ast.CallExpr); ok && depth < 2 {
							if h := originOf(Callee(info, ce)); h != nil && h.Type().(*types.Signature).Results().Len() == 1 {
								if hd := c.declOf[h]; hd != nil && hd.Body != nil {
									checkReturns(FuncUnit{h, hd, c.pkgOf[hd]}, 1, depth+1)
									continue
								}
							}
						}
						v := ast.Unparen(rs.Results[0])
						construct := ord.next("cap returned")
						// a positive constant
						if tv, ok := info.Types[v]; ok && tv.Value != nil {
							if k, ok := constantInt64(tv); ok && k > 0 {
								obs = append(obs, mkOb(c, "SLEEP.cap-positive", u, construct, rs, Proved, "positive constant", false))
								continue
							}
						}
						// min(a, b, …) of values each shown positive is positive
						if mc, ok := v.(*ast.CallExpr); ok {
							if id, ok := ast.Unparen(mc.Fun).(*ast.Ident); ok && id.Name == "min" {
								if _, isB := info.Uses[id].(*types.Builtin); isB && len(mc.Args) > 0 {
									allPos := true
									for _, a := range mc.Args {
										a = ast.Unparen(a)
										if tv, ok := info.Types[a]; ok && tv.Value != nil {
											if k, ok := constantInt64(tv); ok && k > 0 {
												continue
											}
										}
										acut := factEdges(fc, info, fd.Body, cmpFact{lo: "", hi: types.ExprString(a), strict: true}, nil)
										if len(acut) > 0 && !fc.reachableAvoiding(b, acut) {
											continue
										}
										allPos = false
									}
									if allPos {
										obs = append(obs, mkOb(c, "SLEEP.cap-positive", u, construct, rs, Proved, "the minimum of values each shown positive", true))
										continue
									}
								}
							}
						}
						term := types.ExprString(v)
						// every definition of the returned local is positive in the same sense, or the path established 0 < term
						cut := factEdges(fc, info, fd.Body, cmpFact{lo: "", hi: term, strict: true}, nil)
						if len(cut) > 0 && !fc.reachableAvoiding(b, cut) {
							obs = append(obs, mkOb(c, "SLEEP.cap-positive", u, construct, rs, Proved, "`"+term+"` was compared with zero on every path (0 < "+term+")", true))
							continue
						}
						// a local whose every assignment is a positive constant or such a checked value
						if o := identObj(info, v); o != nil {
							allOK, ndef := true, 0
							ast.Inspect(fd.Body, func(m ast.Node) bool {
								as, ok := m.(*ast.AssignStmt)
								if !ok || len(as.Lhs) != len(as.Rhs) {
									return true
								}
								for i, l := range as.Lhs {
									if identObj(info, l) != o {
										continue
									}
									ndef++
									r := ast.Unparen(as.Rhs[i])
									if tv, ok := info.Types[r]; ok && tv.Value != nil {
										if k, ok := constantInt64(tv); ok && k > 0 {
											continue
										}
									}
									loc, ok := fc.Locate(as)
									rt := types.ExprString(r)
									rcut := factEdges(fc, info, fd.Body, cmpFact{lo: "", hi: rt, strict: true}, nil)
									if ok && len(rcut) > 0 && !fc.reachableAvoiding(loc.B, rcut) {
										continue
									}
									allOK = false
								}
								return true
							})
							if allOK && ndef > 0 {
								obs = append(obs, mkOb(c, "SLEEP.cap-positive", u, construct, rs, Proved, "every value assigned to `"+term+"` is a positive constant or was compared with zero", true))
								continue
							}
						}
						// a local that is the first result of a (value, error) helper of the module, returned after the
						// error was tested: the helper's error-free returns are the caps
						if o := identObj(info, v); o != nil && depth < 2 {
							var hcall *ast.CallExpr
							ndef := 0
							ast.Inspect(fd.Body, func(m ast.Node) bool {
								as, ok := m.(*ast.AssignStmt)
								if !ok {
									return true
								}
								for i, l := range as.Lhs {
									if identObj(info, l) != o {
										continue
									}
									ndef++
									if i == 0 && len(as.Lhs) == 2 && len(as.Rhs) == 1 {
										hcall, _ = ast.Unparen(as.Rhs[0]).(*ast.CallExpr)
									}
								}
								return true
							})
							if ndef == 1 && hcall != nil {
								if h := originOf(Callee(info, hcall)); h != nil && h.Type().(*types.Signature).Results().Len() == 2 {
									if hd := c.declOf[h]; hd != nil && hd.Body != nil {
										checkReturns(FuncUnit{h, hd, c.pkgOf[hd]}, 2, depth+1)
										continue
									}
								}
							}
						}
						obs = append(obs, mkOb(c, "SLEEP.cap-positive", u, construct, rs, Violated, "sleepCap can return `"+term+"` without it having been shown positive: a zero or negative cap reads as `no limit`, so a host ceiling that is disabled (negative) removes the one-hour default", true))
					}
				}
				}
				checkReturns(FuncUnit{fn, fd, pkg}, 2, 0)
			}
			// the accessor
			afn, afd, apkg := c.LookupFunc("lisp.(*Runtime).MaxSleepCeiling")
			fld := c.LookupField("lisp.Runtime.MaxSleep")
			if afn == nil || fld == nil {
				obs = append(obs, anchorMissing("SLEEP.cap-positive", "Runtime.MaxSleepCeiling / Runtime.MaxSleep"))
				return obs
			}
			au := FuncUnit{afn, afd, apkg}
			ainfo := apkg.TypesInfo
			afc := c.cfgOf(au, nil)
			ord := &ordinal{}
			for _, b := range afc.G.Blocks {
				if !afc.Live(b) {
					continue
				}
				for _, n := range b.Nodes {
					rs, ok := n.(*ast.ReturnStmt)
					if !ok || len(rs.Results) != 1 {
						continue
					}
					construct := ord.next("ceiling returned")
					v := ast.Unparen(rs.Results[0])
					if k, ok := intConst(ainfo, v); ok && k == 0 {
						obs = append(obs, mkOb(c, "SLEEP.cap-positive", au, construct, rs, Proved, "reports `none` as 0", false))
						continue
					}
					term := types.ExprString(v)
					cut := factEdges(afc, ainfo, afd.Body, cmpFact{lo: "", hi: term, strict: true}, nil)
					if len(cut) > 0 && !afc.reachableAvoiding(b, cut) {
						obs = append(obs, mkOb(c, "SLEEP.cap-positive", au, construct, rs, Proved, "`"+term+"` is returned only when positive", true))
					} else {
						obs = append(obs, mkOb(c, "SLEEP.cap-positive", au, construct, rs, Violated, "MaxSleepCeiling can return a non-positive setting as it is: callers compare the ceiling with `> 0` or `== 0` and a negative (disabled) value then behaves like a ceiling", true))
					}
				}
			}
			return obs
		}})

	register(&Rule{ID: "TIME.duration-float", Floor: 2,
		Doc: "duration-s / duration-ms / duration-ns and their siblings convert a duration with float arithmetic on its nanosecond count (float64(d)/unit, d.Seconds()) — none of the truncating integer accessors time.Duration.Milliseconds / Microseconds is used in libtime, so a duration that is not a whole number of the unit keeps its fraction",
		Run: func(c *Ctx) []Obligation {
			var obs []Obligation
			nconv := 0
			for _, u := range c.Funcs(func(p string) bool { return rel(p) == "lisp/lisplib/libtime" }) {
				info := u.Pkg.TypesInfo
				ord := &ordinal{}
				ast.Inspect(u.Decl.Body, func(n ast.Node) bool {
					ce, ok := n.(*ast.CallExpr)
					if !ok {
						return true
					}
					// float64(d) conversions of a Duration
					if tv, ok := info.Types[ce.Fun]; ok && tv.IsType() && len(ce.Args) == 1 {
						if bt, ok := tv.Type.Underlying().(*types.Basic); ok && bt.Kind() == types.Float64 {
							if at, ok := info.Types[ce.Args[0]]; ok && strings.HasSuffix(at.Type.String(), "time.Duration") {
								nconv++
								obs = append(obs, mkOb(c, "TIME.duration-float", u, ord.next("float64(duration)"), ce, Proved, "float conversion of the nanosecond count", false))
							}
						}
						return true
					}
					fn := Callee(info, ce)
					if fn == nil || fn.Pkg() == nil || fn.Pkg().Path() != "time" {
						return true
					}
					if sig, ok := fn.Type().(*types.Signature); ok && sig.Recv() != nil && strings.HasSuffix(sig.Recv().Type().String(), "time.Duration") {
						switch fn.Name() {
						case "Milliseconds", "Microseconds":
							obs = append(obs, mkOb(c, "TIME.duration-float", u, ord.next("Duration."+fn.Name()), ce, Violated, "Duration."+fn.Name()+"() truncates to a whole number of units: (duration-ms (parse-duration \"1500us\")) would be 1, not 1.5", true))
						case "Seconds", "Minutes", "Hours":
							nconv++
							obs = append(obs, mkOb(c, "TIME.duration-float", u, ord.next("Duration."+fn.Name()), ce, Proved, "float accessor", false))
						}
					}
					return true
				})
			}
			if nconv < 2 {
				obs = append(obs, Obligation{Rule: "TIME.duration-float", Func: "lisp/lisplib/libtime", Construct: "coverage", Verdict: Undecided, Detail: fmt.Sprintf("only %d float conversions of a duration found in libtime", nconv)})
			}
			return obs
		}})
}

func init() {
	register(&Rule{ID: "NAT.assert-guarded", Floor: 3,
		Doc: "a single-value type assertion on an LVal's Native payload (x.Native.(T), which panics on a mismatch) occurs only inside the partial accessors whose callers ACC.domain checks, or on a path that established x's LType first (an edge entailing x.Type == <some type>): a lisp value of the wrong kind reaches it as an ordinary error, not as a Go panic",
		Run: func(c *Ctx) []Obligation {
			nativeFld := c.LookupField("lisp.LVal.Native")
			typeFld := c.LookupField("lisp.LVal.Type")
			if nativeFld == nil || typeFld == nil {
				return []Obligation{anchorMissing("NAT.assert-guarded", "LVal.Native / LVal.Type")}
			}
			var obs []Obligation
			for _, u := range c.Funcs(isKernel) {
				info := u.Pkg.TypesInfo
				ord := &ordinal{}
				// assertions used in a comma-ok assignment or a type switch are safe by form
				okForm := map[*ast.TypeAssertExpr]bool{}
				ast.Inspect(u.Decl.Body, func(n ast.Node) bool {
					switch x := n.(type) {
					case *ast.AssignStmt:
						if len(x.Lhs) == 2 && len(x.Rhs) == 1 {
							if ta, ok := ast.Unparen(x.Rhs[0]).(*ast.TypeAssertExpr); ok {
								okForm[ta] = true
							}
						}
					case *ast.ValueSpec:
						if len(x.Names) == 2 && len(x.Values) == 1 {
							if ta, ok := ast.Unparen(x.Values[0]).(*ast.TypeAssertExpr); ok {
								okForm[ta] = true
							}
						}
					case *ast.TypeSwitchStmt:
						ast.Inspect(x.Assign, func(m ast.Node) bool {
							if ta, ok := m.(*ast.TypeAssertExpr); ok {
								okForm[ta] = true
							}
							return true
						})
					}
					return true
				})
				var fc *FCFG
				ast.Inspect(u.Decl.Body, func(n ast.Node) bool {
					ta, ok := n.(*ast.TypeAssertExpr)
					if !ok || ta.Type == nil || okForm[ta] {
						return true
					}
					se, ok := ast.Unparen(ta.X).(*ast.SelectorExpr)
					if !ok || FieldOfSelector(info, se) != nativeFld {
						return true
					}
					construct := ord.next("Native.(" + types.ExprString(ta.Type) + ")")
					if _, isAcc := baseAccessors[u.Name()]; isAcc {
						obs = append(obs, mkOb(c, "NAT.assert-guarded", u, construct, ta, Proved, "inside a partial accessor: every caller is checked by ACC.domain", false))
						return true
					}
					if fc == nil {
						fc = c.cfgOf(u, nil)
					}
					owner := types.ExprString(se.X)
					cls := func(e ast.Expr) (string, bool) {
						be, ok := ast.Unparen(e).(*ast.BinaryExpr)
						if !ok || (be.Op != token.EQL && be.Op != token.NEQ) || FieldOfSelector(info, be.X) != typeFld {
							return "", false
						}
						if xs, ok := ast.Unparen(be.X).(*ast.SelectorExpr); !ok || types.ExprString(xs.X) != owner {
							return "", false
						}
						return "typed", be.Op == token.NEQ
					}
					cut := fc.edgesEntailing(cls, func(v map[string]bool) bool { return v["$has:typed"] && v["typed"] })
					loc, lok := fc.Locate(ta)
					inCase := false
					// or inside `case <const>` of a switch on owner.Type
					ast.Inspect(u.Decl.Body, func(m ast.Node) bool {
						sw, ok := m.(*ast.SwitchStmt)
						if !ok || sw.Tag == nil || FieldOfSelector(info, sw.Tag) != typeFld {
							return true
						}
						if xs, ok := ast.Unparen(sw.Tag).(*ast.SelectorExpr); !ok || types.ExprString(xs.X) != owner {
							return true
						}
						for _, cl := range sw.Body.List {
							cc := cl.(*ast.CaseClause)
							if cc.List != nil && cc.Pos() <= ta.Pos() && ta.End() <= cc.End() {
								inCase = true
							}
						}
						return true
					})
					if inCase || (lok && len(cut) > 0 && !fc.reachableAvoiding(loc.B, cut)) {
						obs = append(obs, mkOb(c, "NAT.assert-guarded", u, construct, ta, Proved, "reached only after `"+owner+".Type == ...` was established", true))
					} else {
						obs = append(obs, mkOb(c, "NAT.assert-guarded", u, construct, ta, Undecided, "`"+types.ExprString(ta)+"` panics if the payload is of another Go type, and no test of `"+owner+".Type` dominates it", true))
					}
					return true
				})
			}
			return obs
		}})
}

// BOUNDS.validator-post — C03 ("no builtin answers with internal-panic"): the
// elpspath operations do not test their positions themselves; they all go
// through two small validators and then index or slice with what comes back.
// The validators' contract is therefore the bounds check: a success return
// must be preceded, on every path, by comparisons that establish the window.
func init() {
	register(&Rule{ID: "BOUNDS.validator-post", Floor: 5,
		Doc: "libelpspath.validateRange returns (from, to, nil) only over paths that establish 0 <= from, from <= to and to <= n, and resolveIndex returns (index, true) only over paths that establish 0 <= index and index < n — each fact from a comparison later than the last assignment to the variable: every range and index step of a path expression slices within the sequence",
		Run: func(c *Ctx) []Obligation {
			const rid = "BOUNDS.validator-post"
			type fact struct {
				lo, hi string
				strict bool
			}
			type spec struct {
				fname string
				okRet func(info *types.Info, rs *ast.ReturnStmt) bool
				facts func(params []string) []fact
			}
			isNil := func(info *types.Info, e ast.Expr) bool { tv, ok := info.Types[e]; return ok && tv.IsNil() }
			specs := []spec{
				{"lisp/lisplib/libelpspath.validateRange",
					func(info *types.Info, rs *ast.ReturnStmt) bool { return len(rs.Results) == 3 && isNil(info, rs.Results[2]) },
					func(p []string) []fact {
						return []fact{{"", p[1], false}, {p[1], p[2], false}, {p[2], p[0], false}}
					}},
				{"lisp/lisplib/libelpspath.resolveIndex",
					func(info *types.Info, rs *ast.ReturnStmt) bool {
						return len(rs.Results) == 2 && isBoolConst(info, rs.Results[1], true)
					},
					func(p []string) []fact { return []fact{{"", p[1], false}, {p[1], p[0], true}} }},
			}
			var obs []Obligation
			for _, sp := range specs {
				fn, fd, pkg := c.LookupFunc(sp.fname)
				if fn == nil {
					obs = append(obs, anchorMissing(rid, sp.fname))
					continue
				}
				u := FuncUnit{fn, fd, pkg}
				info := pkg.TypesInfo
				var params []string
				for _, f := range fd.Type.Params.List {
					for _, nm := range f.Names {
						params = append(params, nm.Name)
					}
				}
				if len(params) < 2 {
					obs = append(obs, mkOb(c, rid, u, "parameters", fd, Undecided, "unexpected parameter list", true))
					continue
				}
				fc := c.cfgOf(u, nil)
				lastAssign := func(name string) token.Pos {
					var p token.Pos
					ast.Inspect(fd.Body, func(n ast.Node) bool {
						switch x := n.(type) {
						case *ast.AssignStmt:
							for _, l := range x.Lhs {
								if id, ok := l.(*ast.Ident); ok && id.Name == name && x.End() > p {
									p = x.End()
								}
							}
						case *ast.IncDecStmt:
							if id, ok := x.X.(*ast.Ident); ok && id.Name == name && x.End() > p {
								p = x.End()
							}
						}
						return true
					})
					return p
				}
				nret := 0
				for _, b := range fc.G.Blocks {
					if !fc.Live(b) {
						continue
					}
					for _, n := range b.Nodes {
						rs, ok := n.(*ast.ReturnStmt)
						if !ok || !sp.okRet(info, rs) {
							continue
						}
						nret++
						// the returned positions must be the validated parameters themselves
						for _, f := range sp.facts(params) {
							lo := f.lo
							if lo == "" {
								lo = "0"
							}
							op := "<="
							if f.strict {
								op = "<"
							}
							construct := fmt.Sprintf("success return: %s %s %s", lo, op, f.hi)
							edges := factEdges(fc, info, fd.Body, cmpFact{lo: f.lo, hi: f.hi, strict: f.strict}, nil)
							// keep only edges whose condition comes after the last assignment to either variable
							var late []cfgEdge
							after := lastAssign(f.hi)
							if f.lo != "" && lastAssign(f.lo) > after {
								after = lastAssign(f.lo)
							}
							for _, e := range edges {
								if cnd := fc.CondOf(e.B); cnd != nil && cnd.Pos() >= after {
									late = append(late, e)
								}
							}
							if fc.reachableAvoiding(b, late) {
								obs = append(obs, mkOb(c, rid, u, construct, rs, Violated, "the validator can report success on a path that never establishes this bound (after the last adjustment of the position): callers slice or index with the returned value unchecked, so e.g. (elpspath:? (vector 1 2 3) '(range -5 2)) reaches a Go slice expression with a negative bound and answers internal-panic, which a catch-all handler does not contain", true))
							} else {
								obs = append(obs, mkOb(c, rid, u, construct, rs, Proved, "established on every path to the success return", true))
							}
						}
					}
				}
				if nret == 0 {
					obs = append(obs, mkOb(c, rid, u, "success return", fd, Undecided, "no success return recognised", true))
				}
			}
			return obs
		}})
}
