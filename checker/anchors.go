package main

import (
	"regexp"
	"encoding/json"
	"fmt"
	"go/ast"
	"go/types"
	"os"
	"path/filepath"
	"sort"
	"strings"
)

// Rename resilience of rule anchors.
//
// Rules are anchored on code elements by name ("lisp.(*LEnv).getSimple",
// "lisp.LEnv.scope").  Exported names are API: renaming one is not a
// behaviour-preserving change.  UNEXPORTED functions, methods and fields can be
// renamed freely, and a check that reports "anchor unresolved" for a mere
// rename raises an alarm on code where the property holds.  So when a lookup
// of an unexported name fails, the element is looked for under a NEW name by
// its fingerprint on the audited tree (tables/anchor_fingerprints.json): the
// same package and receiver, the same signature (or field type), and mostly
// the same neighbours in the static call graph (or the same functions touching
// the field).  Only a unique, clearly best candidate whose current name did not
// exist on the audited tree is accepted; the substitution is reported in the
// output.  Everything a rule then proves is proved about the code that exists.

type funcFP struct {
	Pkg     string   `json:"pkg"`
	Recv    string   `json:"recv,omitempty"`
	Sig     string   `json:"sig"`
	Callees []string `json:"callees,omitempty"`
	Callers []string `json:"callers,omitempty"`
	// Uses: the exported struct fields the body selects and the functions outside the module
	// it calls — what tells apart two leaf helpers with the same signature and the same
	// single caller when both are renamed at once
	Uses []string `json:"uses,omitempty"`
}

type fieldFP struct {
	Struct string   `json:"struct"`
	Type   string   `json:"type"`
	Users  []string `json:"users,omitempty"`
}

type anchorTable struct {
	Funcs  map[string]funcFP  `json:"funcs"`  // by FuncName
	Fields map[string]fieldFP `json:"fields"` // by "pkg.Type.field"
	Types  map[string]string  `json:"types"`  // unexported named types: "pkg.Type" -> shape (underlying + method names)
	Objs   map[string]objFP   `json:"objs"`   // unexported package-level constants and variables: "pkg.name"
}

type objFP struct {
	Kind  string   `json:"kind"` // const | var
	Type  string   `json:"type"`
	Value string   `json:"value,omitempty"`
	Users []string `json:"users,omitempty"`
}

// typeCanon maps "full/pkg/path.NewName" of a renamed unexported type to
// "full/pkg/path.OldName"; applied to receiver and signature strings.
var typeCanon = map[string]string{}

func canonTypes(s string) string {
	for nw, old := range typeCanon {
		s = strings.ReplaceAll(s, nw, old)
	}
	return s
}

func typeShape(tn *types.TypeName) string {
	n, ok := tn.Type().(*types.Named)
	if !ok {
		return ""
	}
	self := tn.Pkg().Path() + "." + tn.Name()
	var ms []string
	for i := 0; i < n.NumMethods(); i++ {
		ms = append(ms, n.Method(i).Name())
	}
	sort.Strings(ms)
	// references to unexported types of the module are structure, not names; so are the names
	// of a struct's unexported fields (a type and its fields are often renamed in one commit)
	us := n.Underlying().String()
	if st, ok := n.Underlying().(*types.Struct); ok {
		var fs []string
		for i := 0; i < st.NumFields(); i++ {
			f := st.Field(i)
			if f.Exported() || f.Embedded() {
				fs = append(fs, f.Name()+" "+f.Type().String())
			} else {
				fs = append(fs, "_ "+f.Type().String())
			}
		}
		us = "struct{" + strings.Join(fs, "; ") + "}"
	}
	u := strings.ReplaceAll(us, self, "·")
	u = unexportedTypeRef.ReplaceAllString(u, "$1·u")
	return u + " {" + strings.Join(ms, ",") + "}"
}

var unexportedTypeRef = regexp.MustCompile(`(github\.com/luthersystems/elps[\w/]*\.)[a-z]\w*`)

var anchorFPs *anchorTable

func loadAnchorFPs() *anchorTable {
	if anchorFPs != nil {
		return anchorFPs
	}
	anchorFPs = &anchorTable{Funcs: map[string]funcFP{}, Fields: map[string]fieldFP{}, Types: map[string]string{}, Objs: map[string]objFP{}}
	if b, err := os.ReadFile(filepath.Join(verifDir(), "tables", "anchor_fingerprints.json")); err == nil {
		_ = json.Unmarshal(b, anchorFPs)
	}
	return anchorFPs
}

func sigString(fn *types.Func) string {
	sig, _ := fn.Type().(*types.Signature)
	if sig == nil {
		return ""
	}
	var ps, rs []string
	for i := 0; i < sig.Params().Len(); i++ {
		ps = append(ps, typeStringNoNames(sig.Params().At(i).Type()))
	}
	for i := 0; i < sig.Results().Len(); i++ {
		rs = append(rs, typeStringNoNames(sig.Results().At(i).Type()))
	}
	v := ""
	if sig.Variadic() {
		v = "..."
	}
	return canonTypes("(" + strings.Join(ps, ",") + v + ")(" + strings.Join(rs, ",") + ")")
}

// typeStringNoNames renders a type without the parameter / result names of the
// function types inside it (`func(length, bound int) bool` and
// `func(length int, comparison int) bool` are one type).
func typeStringNoNames(t types.Type) string {
	switch x := t.(type) {
	case *types.Signature:
		var ps, rs []string
		for i := 0; i < x.Params().Len(); i++ {
			ps = append(ps, typeStringNoNames(x.Params().At(i).Type()))
		}
		for i := 0; i < x.Results().Len(); i++ {
			rs = append(rs, typeStringNoNames(x.Results().At(i).Type()))
		}
		v := ""
		if x.Variadic() {
			v = "..."
		}
		return "func(" + strings.Join(ps, ",") + v + ")(" + strings.Join(rs, ",") + ")"
	case *types.Pointer:
		return "*" + typeStringNoNames(x.Elem())
	case *types.Slice:
		return "[]" + typeStringNoNames(x.Elem())
	case *types.Array:
		return fmt.Sprintf("[%d]", x.Len()) + typeStringNoNames(x.Elem())
	case *types.Map:
		return "map[" + typeStringNoNames(x.Key()) + "]" + typeStringNoNames(x.Elem())
	case *types.Chan:
		return "chan " + typeStringNoNames(x.Elem())
	}
	return t.String()
}

func recvString(fn *types.Func) string {
	sig, _ := fn.Type().(*types.Signature)
	if sig == nil || sig.Recv() == nil {
		return ""
	}
	return canonTypes(sig.Recv().Type().String())
}

// currentFingerprints computes the fingerprints of every unexported declared
// function and every unexported struct field of the module.
func (c *Ctx) currentFingerprints() *anchorTable {
	if t, ok := c.memo["anchorCurrent"].(*anchorTable); ok {
		return t
	}
	t := &anchorTable{Funcs: map[string]funcFP{}, Fields: map[string]fieldFP{}, Types: map[string]string{}, Objs: map[string]objFP{}}
	objUsers := map[types.Object]map[string]bool{}
	callees := map[string]map[string]bool{}
	callers := map[string]map[string]bool{}
	fieldUsers := map[*types.Var]map[string]bool{}
	uses := map[string]map[string]bool{}
	for _, u := range c.Funcs(nil) {
		if u.Decl == nil || u.Decl.Body == nil {
			continue
		}
		name := u.Name()
		info := u.Pkg.TypesInfo
		use := func(s string) {
			if uses[name] == nil {
				uses[name] = map[string]bool{}
			}
			uses[name][s] = true
		}
		ast.Inspect(u.Decl.Body, func(n ast.Node) bool {
			switch x := n.(type) {
			case *ast.CallExpr:
				if f := originOf(Callee(info, x)); f != nil && f.Pkg() != nil && !strings.HasPrefix(f.Pkg().Path(), modPath) {
					use("call:" + f.Pkg().Path() + "." + f.Name())
				}
			case *ast.SelectorExpr:
				if f := FieldOfSelector(info, x); f != nil && f.Exported() {
					use("field:" + f.Name())
				}
			}
			switch x := n.(type) {
			case *ast.CallExpr:
				if f := originOf(Callee(info, x)); f != nil && f.Pkg() != nil && strings.HasPrefix(f.Pkg().Path(), modPath) {
					g := FuncName(f)
					if callees[name] == nil {
						callees[name] = map[string]bool{}
					}
					callees[name][g] = true
					if callers[g] == nil {
						callers[g] = map[string]bool{}
					}
					callers[g][name] = true
				}
			case *ast.Ident:
				if o := info.Uses[x]; o != nil && o.Pkg() != nil && !o.Exported() && o.Parent() == o.Pkg().Scope() {
					switch o.(type) {
					case *types.Const, *types.Var:
						if objUsers[o] == nil {
							objUsers[o] = map[string]bool{}
						}
						objUsers[o][name] = true
					}
				}
			case *ast.SelectorExpr:
				if f := FieldOfSelector(info, x); f != nil && !f.Exported() {
					if fieldUsers[f] == nil {
						fieldUsers[f] = map[string]bool{}
					}
					fieldUsers[f][name] = true
				}
			}
			return true
		})
	}
	keys := func(m map[string]bool) []string {
		var out []string
		for k := range m {
			out = append(out, k)
		}
		sort.Strings(out)
		return out
	}
	for _, u := range c.Funcs(nil) {
		if u.Obj.Exported() {
			continue
		}
		name := u.Name()
		selfless := func(xs []string) []string {
			out := make([]string, 0, len(xs))
			for _, x := range xs {
				if x == name {
					x = "·self"
				}
				out = append(out, x)
			}
			sort.Strings(out)
			return out
		}
		t.Funcs[name] = funcFP{Pkg: rel(u.Pkg.PkgPath), Recv: recvString(u.Obj), Sig: sigString(u.Obj), Callees: selfless(keys(callees[name])), Callers: selfless(keys(callers[name])), Uses: keys(uses[name])}
	}
	for _, p := range c.Pkgs {
		if p.Types == nil || !strings.HasPrefix(p.PkgPath, modPath) {
			continue
		}
		sc := p.Types.Scope()
		for _, nm := range sc.Names() {
			switch o := sc.Lookup(nm).(type) {
			case *types.Const:
				if !o.Exported() {
					t.Objs[rel(p.PkgPath)+"."+nm] = objFP{Kind: "const", Type: canonTypes(o.Type().String()), Value: o.Val().ExactString(), Users: keys(objUsers[o])}
				}
			case *types.Var:
				if !o.Exported() {
					t.Objs[rel(p.PkgPath)+"."+nm] = objFP{Kind: "var", Type: canonTypes(o.Type().String()), Users: keys(objUsers[o])}
				}
			}
			tn, ok := sc.Lookup(nm).(*types.TypeName)
			if !ok {
				continue
			}
			if !tn.Exported() {
				if _, isNamed := tn.Type().(*types.Named); isNamed {
					t.Types[rel(p.PkgPath)+"."+nm] = typeShape(tn)
				}
			}
			st, ok := tn.Type().Underlying().(*types.Struct)
			if !ok {
				continue
			}
			for i := 0; i < st.NumFields(); i++ {
				f := st.Field(i)
				if f.Exported() {
					continue
				}
				owner := nm
				if o, ok := typeCanon[p.PkgPath+"."+nm]; ok {
					owner = o[strings.LastIndex(o, ".")+1:]
				}
				t.Fields[rel(p.PkgPath)+"."+owner+"."+f.Name()] = fieldFP{Struct: rel(p.PkgPath) + "." + owner, Type: canonTypes(f.Type().String()), Users: keys(fieldUsers[f])}
			}
		}
	}
	c.memo["anchorCurrent"] = t
	return t
}

func jaccard(a, b []string) float64 {
	if len(a) == 0 && len(b) == 0 {
		return 1
	}
	m := map[string]bool{}
	for _, x := range a {
		m[x] = true
	}
	inter, union := 0, len(m)
	for _, x := range b {
		if m[x] {
			inter++
		} else {
			union++
		}
	}
	if union == 0 {
		return 1
	}
	return float64(inter) / float64(union)
}

var anchorNotes []string

// renamedFunc: the function recorded on the audited tree as `name` (FuncName
// form), which no longer exists under that name — found under a new name.
func (c *Ctx) renamedFunc(name string) *types.Func {
	return c.renamedFuncWith(name, nil)
}

// renamedFuncWith: known maps current names already identified as renames to
// their audited names, so that a function whose neighbours were renamed too is
// still recognised by its neighbourhood.
func (c *Ctx) renamedFuncWith(name string, known map[string]string) *types.Func {
	key := "renamedFunc:" + name
	if v, ok := c.memo[key]; ok && known == nil {
		f, _ := v.(*types.Func)
		return f
	}
	c.memo[key] = (*types.Func)(nil)
	cands := c.renameCands(name, known)
	if os.Getenv("ELPS_DEBUG_RENAMES") != "" {
		fmt.Fprintf(os.Stderr, "rename? %s: %v\n", name, cands)
	}
	if len(cands) == 0 || cands[0].score < 0.5 {
		return nil
	}
	if len(cands) > 1 && cands[1].score > cands[0].score-0.2 {
		// look-alikes with one neighbourhood (leaf helpers of one caller): what each body
		// touches tells them apart
		if oldFP, ok := loadAnchorFPs().Funcs[name]; ok && len(oldFP.Uses) > 0 {
			cur := c.currentFingerprints()
			bi, bs, second := -1, -1.0, -1.0
			for i, cd := range cands {
				if cd.score <= cands[0].score-0.2 {
					continue
				}
				r := jaccard(oldFP.Uses, cur.Funcs[cd.name].Uses)
				if r > bs {
					second, bs, bi = bs, r, i
				} else if r > second {
					second = r
				}
			}
			if bi >= 0 && bs >= 0.5 && second <= bs-0.2 {
				cands[0], cands[bi] = cands[bi], cands[0]
				cands = cands[:1]
			}
		}
	}
	if len(cands) > 1 && cands[1].score > cands[0].score-0.2 {
		// several look-alikes (siblings renamed together): the spelling breaks the tie,
		// when one candidate's name is clearly closest to the audited name
		short := func(n string) string { return n[strings.LastIndex(n, ".")+1:] }
		type sc struct {
			i int
			s float64
		}
		var ss []sc
		for i, cd := range cands {
			if cd.score > cands[0].score-0.2 {
				ss = append(ss, sc{i, lcsRatio(short(name), short(cd.name))})
			}
		}
		sort.Slice(ss, func(a, b int) bool { return ss[a].s > ss[b].s })
		if ss[0].s < 0.7 || (len(ss) > 1 && ss[1].s > ss[0].s-0.1) {
			return nil
		}
		cands[0] = cands[ss[0].i]
	}
	fn, _, _ := c.lookupFuncExact(cands[0].name)
	if fn != nil {
		anchorNotes = append(anchorNotes, fmt.Sprintf("anchor %s not found; analysing %s instead (same package, receiver and signature, call-graph similarity %.2f: renamed)", name, cands[0].name, cands[0].score))
		c.memo[key] = fn
	}
	return fn
}

type renameCand struct {
	name  string
	score float64
}

// renameCands ranks the functions of this tree that could be the audited function `name`
// under a new name (same package, receiver and signature, not present on the audited tree)
// by call-graph similarity.
func (c *Ctx) renameCands(name string, known map[string]string) []renameCand {
	old, ok := loadAnchorFPs().Funcs[name]
	if !ok {
		return nil
	}
	cur := c.currentFingerprints()
	canonList := func(xs []string) []string {
		if len(known) == 0 {
			return xs
		}
		out := make([]string, 0, len(xs))
		for _, x := range xs {
			if o, ok := known[x]; ok {
				x = o
			}
			out = append(out, x)
		}
		return out
	}
	var cands []renameCand
	for cn, fp := range cur.Funcs {
		if fp.Pkg != old.Pkg || fp.Sig != old.Sig {
			continue
		}
		// the same receiver — or a method that never used its receiver turned into a plain
		// function (or the reverse)
		if fp.Recv != old.Recv && fp.Recv != "" && old.Recv != "" {
			continue
		}
		if _, existed := loadAnchorFPs().Funcs[cn]; existed {
			continue // that function existed under its own name on the audited tree
		}
		if _, taken := known[cn]; taken {
			continue
		}
		s := (jaccard(old.Callees, canonList(fp.Callees)) + jaccard(old.Callers, canonList(fp.Callers))) / 2
		// renamed AND split: helpers extracted from the function did not exist on the
		// audited tree; read through them (their callees are the function's callees, the
		// function calling itself through them is still calling itself)
		if s < 0.9 {
			through := func(xs []string, next func(fp funcFP) []string) []string {
				set := map[string]bool{}
				seen := map[string]bool{}
				var visit func(x string, depth int)
				visit = func(x string, depth int) {
					if x == "·self" || x == cn {
						set["·self"] = true
						return
					}
					nfp, isCur := cur.Funcs[x]
					_, existed := loadAnchorFPs().Funcs[x]
					_, isKnown := known[x]
					if isCur && !existed && !isKnown && depth < 4 && nfp.Pkg == fp.Pkg {
						if !seen[x] {
							seen[x] = true
							for _, y := range next(nfp) {
								visit(y, depth+1)
							}
						}
						return
					}
					set[x] = true
				}
				for _, x := range xs {
					visit(x, 0)
				}
				var out []string
				for k := range set {
					out = append(out, k)
				}
				sort.Strings(out)
				return out
			}
			ce := through(fp.Callees, func(f funcFP) []string { return f.Callees })
			cr := through(fp.Callers, func(f funcFP) []string { return f.Callers })
			if s2 := (jaccard(old.Callees, canonList(ce)) + jaccard(old.Callers, canonList(cr))) / 2; s2 > s {
				s = s2
			}
		}
		cands = append(cands, renameCand{cn, s})
	}
	sort.Slice(cands, func(i, j int) bool {
		if cands[i].score != cands[j].score {
			return cands[i].score > cands[j].score
		}
		return cands[i].name < cands[j].name
	})
	return cands
}

// renamedField: likewise for an unexported struct field "pkg.Type.field".
func (c *Ctx) renamedField(name string) *types.Var {
	key := "renamedField:" + name
	if v, ok := c.memo[key]; ok {
		f, _ := v.(*types.Var)
		return f
	}
	c.memo[key] = (*types.Var)(nil)
	old, ok := loadAnchorFPs().Fields[name]
	if !ok {
		return nil
	}
	cur := c.currentFingerprints()
	best, bestScore, second := "", 0.0, 0.0
	type fcand struct {
		name  string
		score float64
	}
	var fcands []fcand
	for cn, fp := range cur.Fields {
		if fp.Struct != old.Struct || fp.Type != old.Type {
			continue
		}
		if _, existed := loadAnchorFPs().Fields[cn]; existed {
			continue
		}
		s := jaccard(old.Users, fp.Users)
		fcands = append(fcands, fcand{cn, s})
		if s > bestScore {
			second, bestScore, best = bestScore, s, cn
		} else if s > second {
			second = s
		}
	}
	if best != "" && bestScore >= 0.5 && second > bestScore-0.2 {
		// sibling fields of one type renamed together (precedingNewlines / precedingSpaces ->
		// gapNewlines / gapSpaces) have the same users: the spelling breaks the tie when one
		// candidate's name is clearly the closest to the audited name
		short := func(n string) string { return n[strings.LastIndex(n, ".")+1:] }
		b0, b1, bn := -1.0, -1.0, ""
		for _, fc := range fcands {
			if fc.score <= bestScore-0.2 {
				continue
			}
			r := lcsRatio(short(name), short(fc.name))
			if r > b0 {
				b1, b0, bn = b0, r, fc.name
			} else if r > b1 {
				b1 = r
			}
		}
		if b0 >= 0.4 && b1 <= b0-0.15 {
			best, second = bn, 0
		}
	}
	if best != "" && bestScore < 0.5 && len(fcands) == 1 {
		// the only new field of this struct and type, and the only audited field of this
		// struct and type that is gone: the same field, whatever its users were split into
		gone := 0
		for on, ofp := range loadAnchorFPs().Fields {
			if ofp.Struct == old.Struct && ofp.Type == old.Type {
				if _, still := cur.Fields[on]; !still {
					gone++
				}
			}
		}
		if gone == 1 && bestScore >= 0.1 {
			bestScore, second = 0.5, 0
		}
	}
	if best == "" || bestScore < 0.5 || second > bestScore-0.2 {
		return nil
	}
	i := strings.LastIndex(best, ".")
	n := c.LookupType(best[:i])
	if n == nil {
		return nil
	}
	st, _ := n.Underlying().(*types.Struct)
	for k := 0; st != nil && k < st.NumFields(); k++ {
		if st.Field(k).Name() == best[i+1:] {
			anchorNotes = append(anchorNotes, fmt.Sprintf("anchor field %s not found; using %s instead (same struct and type, user similarity %.2f: renamed)", name, best, bestScore))
			c.memo[key] = st.Field(k)
			return st.Field(k)
		}
	}
	return nil
}

// shortName: the audited (canonical) short name of a declared function.
func shortName(fn *types.Func) string {
	n := FuncName(fn)
	return n[strings.LastIndex(n, ".")+1:]
}

func unexportedName(name string) bool {
	i := strings.LastIndex(name, ".")
	base := strings.TrimPrefix(name[i+1:], ")")
	return base != "" && base[0] >= 'a' && base[0] <= 'z'
}

// computeRenames fills nameCanon for this tree: every function of the audited
// tree that no longer exists under its name and is found under a new one.
func (c *Ctx) computeRenames() {
	nameCanon = map[string]string{}
	typeCanon = map[string]string{}
	delete(c.memo, "funcIndex")
	// renamed unexported types: same package, same shape, a name the audited tree did not have
	{
		old := loadAnchorFPs().Types
		curShapes := map[string]string{} // rel name -> shape
		full := map[string]string{}      // rel name -> full path name
		for _, p := range c.Pkgs {
			if p.Types == nil {
				continue
			}
			for _, nm := range p.Types.Scope().Names() {
				if tn, ok := p.Types.Scope().Lookup(nm).(*types.TypeName); ok && !tn.Exported() {
					if _, isNamed := tn.Type().(*types.Named); isNamed {
						curShapes[rel(p.PkgPath)+"."+nm] = typeShape(tn)
						full[rel(p.PkgPath)+"."+nm] = p.PkgPath + "." + nm
					}
				}
			}
		}
		for on, shape := range old {
			if _, still := curShapes[on]; still {
				continue
			}
			pkgPart := on[:strings.LastIndex(on, ".")]
			var cands []string
			for cn, cs := range curShapes {
				if _, existed := old[cn]; existed || cs != shape || cn[:strings.LastIndex(cn, ".")] != pkgPart {
					continue
				}
				cands = append(cands, cn)
			}
			if len(cands) > 1 {
				// look-alike types: the spelling breaks the tie when one is clearly closest
				sort.Slice(cands, func(a, b int) bool {
					return lcsRatio(on[strings.LastIndex(on, ".")+1:], cands[a][strings.LastIndex(cands[a], ".")+1:]) > lcsRatio(on[strings.LastIndex(on, ".")+1:], cands[b][strings.LastIndex(cands[b], ".")+1:])
				})
				r0 := lcsRatio(on[strings.LastIndex(on, ".")+1:], cands[0][strings.LastIndex(cands[0], ".")+1:])
				r1 := lcsRatio(on[strings.LastIndex(on, ".")+1:], cands[1][strings.LastIndex(cands[1], ".")+1:])
				if r0 >= 0.7 && r1 <= r0-0.1 {
					cands = cands[:1]
				}
			}
			if len(cands) == 1 {
				fullOld := full[cands[0]][:strings.LastIndex(full[cands[0]], ".")+1] + on[strings.LastIndex(on, ".")+1:]
				typeCanon[full[cands[0]]] = fullOld
			}
		}
	}
	cur := c.currentFingerprints()
	c.computeFieldRenames()
	c.computeObjRenames()
	var missing []string
	for a := range loadAnchorFPs().Funcs {
		if _, ok := cur.Funcs[a]; !ok {
			missing = append(missing, a)
		}
	}
	sort.Strings(missing)
	canon := map[string]string{}
	for round := 0; round < 6; round++ {
		added := false
		for _, a := range missing {
			already := false
			for _, o := range canon {
				if o == a {
					already = true
				}
			}
			if already {
				continue
			}
			if r := c.renamedFuncWith(a, canon); r != nil {
				canon[funcNameRaw(r)] = a
				added = true
			}
		}
		if !added {
			break
		}
	}
	// a cluster of functions that call each other and were all renamed: none is recognisable
	// by neighbours that changed their names too.  Pair each missing function with its best
	// candidate provisionally, then score every pairing with the others assumed; keep the
	// pairings that then reach the usual threshold.
	for round := 0; round < 3; round++ {
		tentative := map[string]string{}
		takenOld := map[string]bool{}
		for _, o := range canon {
			takenOld[o] = true
		}
		for _, a := range missing {
			if takenOld[a] {
				continue
			}
			cs := c.renameCands(a, canon)
			if len(cs) == 0 || cs[0].score <= 0 {
				continue
			}
			best := cs[0]
			if len(cs) > 1 && cs[1].score > cs[0].score-0.05 {
				// spelling breaks near ties
				short := func(n string) string { return n[strings.LastIndex(n, ".")+1:] }
				bi, bs, second := -1, -1.0, -1.0
				for i, cd := range cs {
					if cd.score > cs[0].score-0.05 {
						r := lcsRatio(short(a), short(cd.name))
						if r > bs {
							second, bs, bi = bs, r, i
						} else if r > second {
							second = r
						}
					}
				}
				if bi < 0 || second > bs-0.1 {
					continue
				}
				best = cs[bi]
			}
			if _, dup := tentative[best.name]; dup {
				continue
			}
			tentative[best.name] = a
		}
		if len(tentative) == 0 {
			break
		}
		added := false
		for cn, a := range tentative {
			assumed := map[string]string{}
			for k, v := range canon {
				assumed[k] = v
			}
			for k, v := range tentative {
				if k != cn {
					assumed[k] = v
				}
			}
			if r := c.renamedFuncWith(a, assumed); r != nil && funcNameRaw(r) == cn {
				canon[cn] = a
				added = true
			}
		}
		if !added {
			break
		}
	}
	anchorNotes = nil
	for cn, a := range canon {
		anchorNotes = append(anchorNotes, fmt.Sprintf("%s is the audited tree's %s under a new name (same package, receiver, signature and call-graph neighbourhood): tables and reports use the audited name", cn, a))
	}
	sort.Strings(anchorNotes)
	nameCanon = canon
	// indexes keyed by name are rebuilt with the canonical names
	delete(c.memo, "funcIndex")
	delete(c.memo, "anchorCurrent")
	for k := range c.memo {
		if strings.HasPrefix(k, "renamedFunc:") || strings.HasPrefix(k, "renamedField:") || strings.HasPrefix(k, "renamedObj:") {
			delete(c.memo, k)
		}
	}
	// fields and package-level objects are recognised by the functions that use them: now that
	// renamed functions answer to their audited names, match them again (a commit that renames
	// a field together with one of its two users would otherwise hide the field)
	c.computeFieldRenames()
	c.computeObjRenames()
}

// LookupPkgObj finds a package-level constant or variable "pkgRel.name"; an
// unexported one that no longer exists is looked for under a new name by its
// fingerprint (kind, type, constant value, using functions).
func (c *Ctx) LookupPkgObj(name string) types.Object {
	i := strings.LastIndex(name, ".")
	if i < 0 {
		return nil
	}
	p := c.Pkg(name[:i])
	if p == nil {
		return nil
	}
	if o := p.Types.Scope().Lookup(name[i+1:]); o != nil {
		switch o.(type) {
		case *types.Const, *types.Var:
			return o
		}
		return nil
	}
	if !unexportedName(name) {
		return nil
	}
	key := "renamedObj:" + name
	if v, ok := c.memo[key]; ok {
		o, _ := v.(types.Object)
		return o
	}
	c.memo[key] = nil
	old, ok := loadAnchorFPs().Objs[name]
	if !ok {
		return nil
	}
	cur := c.currentFingerprints()
	best, bestScore, second := "", -1.0, -1.0
	for cn, fp := range cur.Objs {
		if cn[:strings.LastIndex(cn, ".")] != name[:i] || fp.Kind != old.Kind || fp.Type != old.Type || fp.Value != old.Value {
			continue
		}
		if _, existed := loadAnchorFPs().Objs[cn]; existed {
			continue
		}
		sc := jaccard(old.Users, fp.Users)
		if sc > bestScore {
			second, bestScore, best = bestScore, sc, cn
		} else if sc > second {
			second = sc
		}
	}
	if best == "" || bestScore < 0.5 || second > bestScore-0.2 {
		return nil
	}
	o := p.Types.Scope().Lookup(best[strings.LastIndex(best, ".")+1:])
	if o != nil {
		anchorNotes = append(anchorNotes, fmt.Sprintf("anchor %s not found; using %s instead (same kind, type, value and users: renamed)", name, best))
		c.memo[key] = o
	}
	return o
}

// lcsRatio: length of the longest common subsequence over the longer length.
func lcsRatio(a, b string) float64 {
	if len(a) == 0 || len(b) == 0 {
		return 0
	}
	prev := make([]int, len(b)+1)
	for i := 1; i <= len(a); i++ {
		cur := make([]int, len(b)+1)
		for j := 1; j <= len(b); j++ {
			if a[i-1] == b[j-1] {
				cur[j] = prev[j-1] + 1
			} else if prev[j] > cur[j-1] {
				cur[j] = prev[j]
			} else {
				cur[j] = cur[j-1]
			}
		}
		prev = cur
	}
	m := len(a)
	if len(b) > m {
		m = len(b)
	}
	return float64(prev[len(b)]) / float64(m)
}

// fieldCanon: renamed unexported fields -> the name they had on the audited tree.
var fieldCanon = map[*types.Var]string{}

func canonFieldName(f *types.Var) string {
	if o, ok := fieldCanon[f]; ok {
		return o
	}
	return f.Name()
}

func (c *Ctx) computeFieldRenames() {
	fieldCanon = map[*types.Var]string{}
	cur := c.currentFingerprints()
	var missing []string
	for a := range loadAnchorFPs().Fields {
		if _, ok := cur.Fields[a]; !ok {
			missing = append(missing, a)
		}
	}
	sort.Strings(missing)
	for _, a := range missing {
		if f := c.renamedField(a); f != nil {
			fieldCanon[f] = a[strings.LastIndex(a, ".")+1:]
		}
	}
}

// objCanon: renamed unexported package-level constants / variables -> "pkgRel.oldName".
var objCanon = map[types.Object]string{}

func canonObjName(o types.Object) string {
	if n, ok := objCanon[o]; ok {
		return n
	}
	if o.Pkg() == nil {
		return o.Name()
	}
	return rel(o.Pkg().Path()) + "." + o.Name()
}

func (c *Ctx) computeObjRenames() {
	objCanon = map[types.Object]string{}
	cur := c.currentFingerprints()
	var missing []string
	for a := range loadAnchorFPs().Objs {
		if _, ok := cur.Objs[a]; !ok {
			missing = append(missing, a)
		}
	}
	sort.Strings(missing)
	for _, a := range missing {
		if o := c.LookupPkgObj(a); o != nil {
			objCanon[o] = a
		}
	}
}
