package main

import (
	"fmt"
	"go/ast"
	"go/token"
	"go/types"
	"strings"

	"golang.org/x/tools/go/cfg"
)

// C18 — error locations and stack traces.

func init() {
	register(&Rule{ID: "LOC.eval-sets", Floor: 3,
		Doc: "in eval the store `env.loc = v.source` dominates every call that can raise or stamp an error for the form being evaluated (Get, Errorf, evalSExpr, ErrorAssociate, package lookups): an error is stamped with the location of the form that raised it, whatever its type",
		Run: func(c *Ctx) []Obligation {
			fn, fd, pkg := c.LookupFunc("lisp.(*LEnv).eval")
			loc := c.LookupField("lisp.LEnv.loc")
			src := c.LookupField("lisp.LVal.source")
			if fn == nil || loc == nil || src == nil {
				return []Obligation{anchorMissing("LOC.eval-sets", "eval / LEnv.loc / LVal.source")}
			}
			u := FuncUnit{fn, fd, pkg}
			info := pkg.TypesInfo
			fc := c.cfgOf(u, nil)
			var storeLoc *Loc
			for _, b := range fc.G.Blocks {
				if !fc.Live(b) {
					continue
				}
				for i, n := range b.Nodes {
					if as, ok := n.(*ast.AssignStmt); ok && len(as.Lhs) == 1 && len(as.Rhs) == 1 &&
						FieldOfSelector(info, as.Lhs[0]) == loc && FieldOfSelector(info, as.Rhs[0]) == src {
						l := Loc{b, i}
						storeLoc = &l
					}
				}
			}
			if storeLoc == nil {
				return []Obligation{mkOb(c, "LOC.eval-sets", u, "location register", fd, Violated, "eval no longer stores the evaluated form's location into env.loc", true)}
			}
			var obs []Obligation
			ord := &ordinal{}
			for _, b := range fc.G.Blocks {
				if !fc.Live(b) {
					continue
				}
				for i, n := range b.Nodes {
					for _, ce := range callsIn(n, false) {
						f := originOf(Callee(info, ce))
						if f == nil {
							continue
						}
						switch FuncName(f) {
						case "lisp.(*LEnv).Get", "lisp.(*LEnv).Errorf", "lisp.(*LEnv).evalSExpr", "lisp.(*LEnv).ErrorAssociate", "lisp.(*Package).Get":
						default:
							continue
						}
						// the limit / nesting / spliced checks at the very top run before the form is looked at:
						// they are stamped with the caller's location by design; only calls after the store's
						// block or in blocks it dominates are of interest, others must be before it in program order
						construct := ord.next("call " + shortName(f))
						if fc.Dominates(*storeLoc, Loc{b, i}) {
							obs = append(obs, mkOb(c, "LOC.eval-sets", u, construct, ce, Proved, "dominated by `env.loc = v.source`", true))
						} else if fc.Dominates(Loc{b, i}, *storeLoc) {
							obs = append(obs, mkOb(c, "LOC.eval-sets", u, construct, ce, Proved, "precedes the dispatch on the form (entry checks)", false))
						} else {
							obs = append(obs, mkOb(c, "LOC.eval-sets", u, construct, ce, Violated, "an error for this form can be raised although env.loc was not set to its location on this path: it is blamed on the previously evaluated form", true))
						}
					}
				}
			}
			return obs
		}})

	register(&Rule{ID: "TRACE.copied", Floor: 4,
		Doc: "every call stack attached to an error value (the Native field of an LError literal, the argument of SetCallStack) is the result of CallStack.Copy() on the runtime's stack, every location attached is a Copy(), and Copy itself allocates a fresh frame slice: what an error reports cannot change when evaluation continues",
		Run: func(c *Ctx) []Obligation {
			cp := c.LookupMethod("lisp.CallStack.Copy")
			lcp := c.LookupMethod("parser/token.Location.Copy")
			scs := c.LookupMethod("lisp.LVal.SetCallStack")
			csT := c.LookupType("lisp.CallStack")
			locT := c.LookupType("parser/token.Location")
			if cp == nil || scs == nil || csT == nil {
				return []Obligation{anchorMissing("TRACE.copied", "CallStack.Copy / SetCallStack")}
			}
			isPtrTo := func(t types.Type, n *types.Named) bool {
				p, ok := t.(*types.Pointer)
				if !ok || n == nil {
					return false
				}
				nt, ok := types.Unalias(p.Elem()).(*types.Named)
				return ok && nt.Obj() == n.Obj()
			}
			var obs []Obligation
			for _, u := range c.Funcs(func(p string) bool { return rel(p) == "lisp" }) {
				info := u.Pkg.TypesInfo
				ord := &ordinal{}
				ast.Inspect(u.Decl.Body, func(n ast.Node) bool {
					switch x := n.(type) {
					case *ast.CompositeLit:
						tv, ok := info.Types[x]
						if !ok || tv.Type.String() != modPath+"/lisp.LVal" {
							return true
						}
						isErr := false
						for _, el := range x.Elts {
							if kv, ok := el.(*ast.KeyValueExpr); ok {
								if id, ok := kv.Key.(*ast.Ident); ok && id.Name == "Type" {
									if vid, ok := ast.Unparen(kv.Value).(*ast.Ident); ok && vid.Name == "LError" {
										isErr = true
									}
								}
							}
						}
						if !isErr {
							return true
						}
						for _, el := range x.Elts {
							kv, ok := el.(*ast.KeyValueExpr)
							if !ok {
								continue
							}
							id, _ := kv.Key.(*ast.Ident)
							if id == nil {
								continue
							}
							vt, ok := info.Types[kv.Value]
							if !ok {
								continue
							}
							switch {
							case id.Name == "Native" && isPtrTo(vt.Type, csT):
								construct := ord.next("error literal Native")
								if c.valueIsResultOf(u, kv.Value, cp, 0) {
									obs = append(obs, mkOb(c, "TRACE.copied", u, construct, kv, Proved, "Stack.Copy()", false))
								} else {
									obs = append(obs, mkOb(c, "TRACE.copied", u, construct, kv, Violated, "an error is given a call stack that is not a Copy() of the runtime's stack: later pushes and pops rewrite the trace the error reports", true))
								}
							case id.Name == "source" && isPtrTo(vt.Type, locT):
								construct := ord.next("error literal source")
								if lcp != nil && c.valueIsResultOf(u, kv.Value, lcp, 0) {
									obs = append(obs, mkOb(c, "TRACE.copied", u, construct, kv, Proved, "loc.Copy()", false))
								} else {
									obs = append(obs, mkOb(c, "TRACE.copied", u, construct, kv, Violated, "an error aliases the evaluator's current-location object instead of copying it: the reported position moves when evaluation continues", true))
								}
							}
						}
					case *ast.CallExpr:
						if originOf(Callee(info, x)) == scs && len(x.Args) == 1 {
							construct := ord.next("SetCallStack argument")
							if u.Name() == "lisp.(*LVal).SetCallStack" {
								return true
							}
							if ce, ok := ast.Unparen(x.Args[0]).(*ast.CallExpr); ok && originOf(Callee(info, ce)) == cp {
								obs = append(obs, mkOb(c, "TRACE.copied", u, construct, x, Proved, "Stack.Copy() (and SetCallStack copies again)", false))
							} else {
								obs = append(obs, mkOb(c, "TRACE.copied", u, construct, x, Proved, "SetCallStack stores stack.Copy() itself", false))
							}
						}
					}
					return true
				})
			}
			// SetCallStack stores a copy; Copy allocates
			if fn, fd, pkg := c.LookupFunc("lisp.(*LVal).SetCallStack"); fn != nil {
				u := FuncUnit{fn, fd, pkg}
				ok := false
				ast.Inspect(fd.Body, func(n ast.Node) bool {
					if as, isAs := n.(*ast.AssignStmt); isAs && len(as.Rhs) == 1 {
						if ce, isCall := ast.Unparen(as.Rhs[0]).(*ast.CallExpr); isCall && originOf(Callee(pkg.TypesInfo, ce)) == cp {
							ok = true
						}
					}
					return true
				})
				if ok {
					obs = append(obs, mkOb(c, "TRACE.copied", u, "stores a copy", fd, Proved, "v.Native = stack.Copy()", false))
				} else {
					obs = append(obs, mkOb(c, "TRACE.copied", u, "stores a copy", fd, Violated, "SetCallStack no longer copies the stack it is given", true))
				}
			}
			if fn, fd, pkg := c.LookupFunc("lisp.(*CallStack).Copy"); fn != nil {
				u := FuncUnit{fn, fd, pkg}
				info := pkg.TypesInfo
				frames := c.LookupField("lisp.CallStack.Frames")
				var madeObj types.Object
				copied := false
				usedInLit := false
				ast.Inspect(fd.Body, func(n ast.Node) bool {
					switch x := n.(type) {
					case *ast.AssignStmt:
						if len(x.Lhs) == 1 && len(x.Rhs) == 1 {
							if ce, ok := ast.Unparen(x.Rhs[0]).(*ast.CallExpr); ok {
								if id, ok := ast.Unparen(ce.Fun).(*ast.Ident); ok && id.Name == "make" {
									madeObj = identObj(info, x.Lhs[0])
								}
							}
						}
					case *ast.CallExpr:
						if id, ok := ast.Unparen(x.Fun).(*ast.Ident); ok && id.Name == "copy" && len(x.Args) == 2 {
							if identObj(info, x.Args[0]) == madeObj && FieldOfSelector(info, x.Args[1]) == frames {
								copied = true
							}
						}
					case *ast.KeyValueExpr:
						if id, ok := x.Key.(*ast.Ident); ok && id.Name == "Frames" && madeObj != nil && identObj(info, x.Value) == madeObj {
							usedInLit = true
						}
					}
					return true
				})
				if madeObj != nil && copied && usedInLit {
					obs = append(obs, mkOb(c, "TRACE.copied", u, "fresh frame slice", fd, Proved, "Frames: make + copy", true))
				} else {
					obs = append(obs, mkOb(c, "TRACE.copied", u, "fresh frame slice", fd, Violated, "CallStack.Copy does not give the copy its own frame slice", true))
				}
			}
			return obs
		}})

	register(&Rule{ID: "TRACE.push-site", Floor: 1,
		Doc: "every frame push passes the evaluator's current location (env.loc) as the frame's call site",
		Run: func(c *Ctx) []Obligation {
			push := c.LookupMethod("lisp.CallStack.PushFID")
			loc := c.LookupField("lisp.LEnv.loc")
			if push == nil || loc == nil {
				return []Obligation{anchorMissing("TRACE.push-site", "PushFID / LEnv.loc")}
			}
			sites, _ := c.CallsTo(nil, push)
			var obs []Obligation
			for _, s := range sites {
				if len(s.Call.Args) == 0 {
					continue
				}
				if FieldOfSelector(s.Unit.Pkg.TypesInfo, s.Call.Args[0]) == loc {
					obs = append(obs, mkOb(c, "TRACE.push-site", s.Unit, "call PushFID", s.Call, Proved, "frame records env.loc", false))
				} else {
					obs = append(obs, mkOb(c, "TRACE.push-site", s.Unit, "call PushFID", s.Call, Violated, "the frame's call site is not the evaluator's current location", true))
				}
			}
			return obs
		}})

	register(&Rule{ID: "STAMP.walk-complete", Floor: 1,
		Doc: "the macro-expansion stamping walk descends into the children of a node whether or not the node itself already had a position (stamping a node and visiting its children are independent)",
		Run: func(c *Ctx) []Obligation {
			fn, fd, pkg := c.LookupFunc("lisp.stampGuarded")
			src := c.LookupField("lisp.LVal.source")
			if fn == nil || src == nil {
				return []Obligation{anchorMissing("STAMP.walk-complete", "stampGuarded")}
			}
			u := FuncUnit{fn, fd, pkg}
			info := pkg.TypesInfo
			fc := c.cfgOf(u, nil)
			rec := fc.findCalls(fn)
			if len(rec) == 0 {
				return []Obligation{mkOb(c, "STAMP.walk-complete", u, "recursion", fd, Violated, "stampGuarded no longer visits children", true)}
			}
			// A path on which the node already has a position must still reach the recursion: cut every edge whose
			// logical content entails "no position" (source == nil or Pos < 0) and require reachability from entry.
			posFld := c.LookupField("parser/token.Location.Pos")
			cls := func(e ast.Expr) (string, bool) {
				be, ok := ast.Unparen(e).(*ast.BinaryExpr)
				if !ok {
					return "", false
				}
				if (be.Op == token.EQL || be.Op == token.NEQ) && FieldOfSelector(info, be.X) == src && isNilIdent(info, be.Y) {
					return "srcNil", be.Op == token.NEQ
				}
				if posFld != nil && FieldOfSelector(info, be.X) == posFld {
					if k, okc := intConst(info, be.Y); okc && k == 0 {
						switch be.Op {
						case token.LSS:
							return "posNeg", false
						case token.GEQ:
							return "posNeg", true
						}
					}
				}
				return "", false
			}
			noPos := fc.edgesEntailing(cls, func(v map[string]bool) bool { return v["srcNil"] || v["posNeg"] })
			if len(noPos) == 0 {
				return []Obligation{mkOb(c, "STAMP.walk-complete", u, "recursion", fd, Undecided, "no test of the node's position found", false)}
			}
			ok := false
			for _, r := range rec {
				if fc.reachableAvoiding(r.Loc.B, noPos) {
					ok = true
				}
			}
			if ok {
				return []Obligation{mkOb(c, "STAMP.walk-complete", u, "recursion", rec[0].Call, Proved, "children are visited on the already-positioned edge too", true)}
			}
			return []Obligation{mkOb(c, "STAMP.walk-complete", u, "recursion", rec[0].Call, Violated, "a node that already has a position stops the walk: position-less nodes below it (a gensym unquoted inside a template) keep no location and errors on them are blamed elsewhere", true)}
		}})
}

var _ = cfg.KindBody

func init() {
	register(&Rule{ID: "LOC.synthesized-calls", Floor: 3,
		Doc: "a special operator that builds a call form in Go and hands it to the evaluator (env.Eval / env.Terminal of an SExpr(...) it constructed) first gives that form the source location of the user-written form it stands for (`x.source = <form>.source`): eval sets the current location from the form it is given, so a form without one makes the callee's errors and frame point at <native code> or at an unrelated enclosing call",
		Run: func(c *Ctx) []Obligation {
			sexpr := c.LookupPkgFunc("lisp.SExpr")
			srcFld := c.LookupField("lisp.LVal.source")
			if sexpr == nil || srcFld == nil {
				return []Obligation{anchorMissing("LOC.synthesized-calls", "lisp.SExpr / LVal.source")}
			}
			var obs []Obligation
			type unit struct {
				body   *ast.BlockStmt
				u      FuncUnit
				values map[types.Object]bool // parameters that receive an evaluated value
			}
			var units []unit
			seenUnit := map[*types.Func]bool{}
			for _, e := range c.Registry() {
				if rel(e.Pkg.PkgPath) != "lisp" || e.Kind != "op" {
					continue
				}
				body, u, _, ok := c.BodyOf(e)
				if !ok || u.Decl == nil || seenUnit[u.Obj] {
					continue
				}
				seenUnit[u.Obj] = true
				units = append(units, unit{body, u, map[types.Object]bool{}})
			}
			// helpers (one level) that an operator hands an evaluated value to
			for i := 0; i < len(units); i++ {
				un := units[i]
				if len(un.values) > 0 {
					continue // already a helper
				}
				info := un.u.Pkg.TypesInfo
				vals := map[types.Object]bool{}
				ast.Inspect(un.body, func(n ast.Node) bool {
					if as, ok := n.(*ast.AssignStmt); ok && len(as.Lhs) == len(as.Rhs) {
						for j, r := range as.Rhs {
							if ce, ok := ast.Unparen(r).(*ast.CallExpr); ok {
								if se, ok := ast.Unparen(ce.Fun).(*ast.SelectorExpr); ok && se.Sel.Name == "Eval" {
									if o := identObj(info, as.Lhs[j]); o != nil {
										vals[o] = true
									}
								}
							}
						}
					}
					return true
				})
				ast.Inspect(un.body, func(n ast.Node) bool {
					ce, ok := n.(*ast.CallExpr)
					if !ok {
						return true
					}
					fn := originOf(Callee(info, ce))
					if fn == nil || fn.Pkg() != un.u.Obj.Pkg() || seenUnit[fn] {
						return true
					}
					fd := c.declOf[fn]
					if fd == nil || fd.Body == nil {
						return true
					}
					hu := FuncUnit{fn, fd, c.pkgOf[fd]}
					ps := paramObjs(hu)
					hv := map[types.Object]bool{}
					for k, a := range ce.Args {
						if o := identObj(info, a); o != nil && vals[o] && k < len(ps) {
							hv[ps[k]] = true
						}
					}
					if len(hv) > 0 {
						seenUnit[fn] = true
						units = append(units, unit{fd.Body, hu, hv})
					}
					return true
				})
			}
			for _, un := range units {
				body, u := un.body, un.u
				info := u.Pkg.TypesInfo
				ord := &ordinal{}
				// locals defined by SExpr(...) and those that got a source
				synth := map[types.Object]bool{}
				sourced := map[types.Object]bool{}
				ast.Inspect(body, func(n ast.Node) bool {
					as, ok := n.(*ast.AssignStmt)
					if !ok || len(as.Lhs) != len(as.Rhs) {
						return true
					}
					for i, l := range as.Lhs {
						if ce, ok := ast.Unparen(as.Rhs[i]).(*ast.CallExpr); ok && originOf(Callee(info, ce)) == sexpr {
							if o := identObj(info, l); o != nil {
								synth[o] = true
							}
						}
						if se, ok := ast.Unparen(l).(*ast.SelectorExpr); ok && FieldOfSelector(info, se) == srcFld {
							if o := identObj(info, se.X); o != nil {
								// the value must come from another node's source
								if FieldOfSelector(info, as.Rhs[i]) == srcFld {
									sourced[o] = true
								}
							}
						}
					}
					return true
				})
				// a location must come from a form the user wrote (an argument of the operator),
				// never from a VALUE the operator obtained by evaluation (its .source is where the
				// value was defined, e.g. a function's defun)
				evalVals := map[types.Object]bool{}
				for o := range un.values {
					evalVals[o] = true
				}
				ast.Inspect(body, func(n ast.Node) bool {
					if as, ok := n.(*ast.AssignStmt); ok && len(as.Lhs) == len(as.Rhs) {
						for i, r := range as.Rhs {
							if ce, ok := ast.Unparen(r).(*ast.CallExpr); ok {
								if se, ok := ast.Unparen(ce.Fun).(*ast.SelectorExpr); ok && se.Sel.Name == "Eval" {
									if tv, ok := info.Types[se.X]; ok && strings.HasSuffix(tv.Type.String(), "lisp.LEnv") {
										if o := identObj(info, as.Lhs[i]); o != nil {
											evalVals[o] = true
										}
									}
								}
							}
						}
					}
					return true
				})
				ast.Inspect(body, func(n ast.Node) bool {
					as, ok := n.(*ast.AssignStmt)
					if !ok || len(as.Lhs) != len(as.Rhs) {
						return true
					}
					for i, r := range as.Rhs {
						rse, ok := ast.Unparen(r).(*ast.SelectorExpr)
						if !ok || FieldOfSelector(info, rse) != srcFld {
							continue
						}
						// only stores that set a location: x.source = ... or env.loc = ...
						lse, ok := ast.Unparen(as.Lhs[i]).(*ast.SelectorExpr)
						if !ok || (lse.Sel.Name != "source" && lse.Sel.Name != "loc") {
							continue
						}
						construct := ord.next("location taken from " + types.ExprString(rse))
						if o := identObj(info, rse.X); o != nil && evalVals[o] {
							obs = append(obs, mkOb(c, "LOC.synthesized-calls", u, construct, as, Violated, "`"+types.ExprString(as.Lhs[i])+" = "+types.ExprString(rse)+"` takes the location of an evaluated VALUE: for a function given by name that is its definition site, so the call's frame and errors point at the defun instead of at the form in this operator's arguments", true))
						} else {
							obs = append(obs, mkOb(c, "LOC.synthesized-calls", u, construct, as, Proved, "the location comes from a form of the operator's own arguments", false))
						}
					}
					return true
				})
				ast.Inspect(body, func(n ast.Node) bool {
					ce, ok := n.(*ast.CallExpr)
					if !ok || len(ce.Args) != 1 {
						return true
					}
					se, ok := ast.Unparen(ce.Fun).(*ast.SelectorExpr)
					if !ok || (se.Sel.Name != "Eval" && se.Sel.Name != "Terminal") {
						return true
					}
					if tv, ok := info.Types[se.X]; !ok || !strings.HasSuffix(tv.Type.String(), "lisp.LEnv") {
						return true
					}
					arg := ast.Unparen(ce.Args[0])
					if inner, ok := arg.(*ast.CallExpr); ok && originOf(Callee(info, inner)) == sexpr {
						obs = append(obs, mkOb(c, "LOC.synthesized-calls", u, ord.next(se.Sel.Name+" of a synthesized form"), ce, Violated,
							"`"+types.ExprString(ce)+"` evaluates a form built here that has no source location: errors raised by the call, and its frame, are reported at <native code> or at an unrelated enclosing call", true))
						return true
					}
					if o := identObj(info, arg); o != nil && synth[o] {
						construct := ord.next(se.Sel.Name + " of a synthesized form")
						if sourced[o] {
							obs = append(obs, mkOb(c, "LOC.synthesized-calls", u, construct, ce, Proved, "`"+o.Name()+"` was given the source of the form it stands for", true))
						} else {
							obs = append(obs, mkOb(c, "LOC.synthesized-calls", u, construct, ce, Violated, "`"+o.Name()+"` is built by SExpr(...) and evaluated without a source location", true))
						}
					}
					return true
				})
			}
			return obs
		}})
}

func init() {
	register(&Rule{ID: "TRACE.stack-before-pop", Floor: 1,
		Doc: "in funCall an error returned by the callee gets the runtime's call stack attached (SetCallStack, unless it already has one) before funCall returns — that is, before the deferred Pop removes the callee's frame: an error built without an environment (lisp.Errorf in the map/array helpers) then lists the function that raised it as its innermost frame",
		Run: func(c *Ctx) []Obligation {
			fn, fd, pkg := c.LookupFunc("lisp.(*LEnv).funCall")
			call := c.LookupMethod("lisp.LEnv.call")
			setCS := c.LookupMethod("lisp.LVal.SetCallStack")
			getCS := c.LookupMethod("lisp.LVal.CallStack")
			typeFld := c.LookupField("lisp.LVal.Type")
			lerror := c.LookupConst("lisp.LError")
			if fn == nil || call == nil || setCS == nil || getCS == nil || typeFld == nil || lerror == nil {
				return []Obligation{anchorMissing("TRACE.stack-before-pop", "funCall / LEnv.call / SetCallStack / CallStack / LError")}
			}
			u := FuncUnit{fn, fd, pkg}
			info := pkg.TypesInfo
			fc := c.cfgOf(u, nil)
			// r := env.call(...)
			var rObj types.Object
			ast.Inspect(fd.Body, func(n ast.Node) bool {
				if as, ok := n.(*ast.AssignStmt); ok && len(as.Lhs) == 1 && len(as.Rhs) == 1 {
					if ce, ok := ast.Unparen(as.Rhs[0]).(*ast.CallExpr); ok && originOf(Callee(info, ce)) == call {
						rObj = identObj(info, as.Lhs[0])
					}
				}
				return true
			})
			if rObj == nil {
				return []Obligation{mkOb(c, "TRACE.stack-before-pop", u, "callee result", fd, Undecided, "funCall no longer binds the result of env.call to a local", false)}
			}
			edges := errorEdges(fc, typeFld, lerror)
			var obs []Obligation
			n := 0
			for _, e := range edges {
				if e.Obj != rObj {
					continue
				}
				n++
				start := e.E.B.Succs[e.E.K]
				// blocked: blocks that call r.SetCallStack; cut: edges entailing r.CallStack() != nil
				blocked := map[*cfg.Block]bool{}
				for _, b := range fc.G.Blocks {
					for _, nd := range b.Nodes {
						for _, ce := range callsIn(nd, false) {
							if originOf(Callee(info, ce)) == setCS {
								if se, ok := ast.Unparen(ce.Fun).(*ast.SelectorExpr); ok && identObj(info, se.X) == rObj {
									blocked[b] = true
								}
							}
						}
					}
				}
				cls := func(x ast.Expr) (string, bool) {
					be, ok := ast.Unparen(x).(*ast.BinaryExpr)
					if !ok || (be.Op != token.EQL && be.Op != token.NEQ) {
						return "", false
					}
					ce, ok := ast.Unparen(be.X).(*ast.CallExpr)
					if !ok || originOf(Callee(info, ce)) != getCS {
						return "", false
					}
					if se, ok := ast.Unparen(ce.Fun).(*ast.SelectorExpr); !ok || identObj(info, se.X) != rObj {
						return "", false
					}
					if tv, ok := info.Types[be.Y]; !ok || !tv.IsNil() {
						return "", false
					}
					return "hasStack", be.Op == token.EQL
				}
				cut := fc.edgesEntailing(cls, func(v map[string]bool) bool { return v["$has:hasStack"] && v["hasStack"] })
				isCut := func(b *cfg.Block, k int) bool {
					for _, ce := range cut {
						if ce.B == b && ce.K == k {
							return true
						}
					}
					return false
				}
				// can a return be reached from start without passing a blocked block or a cut edge?
				bad := false
				seen := map[*cfg.Block]bool{}
				var dfs func(b *cfg.Block)
				dfs = func(b *cfg.Block) {
					if bad || seen[b] {
						return
					}
					seen[b] = true
					if blocked[b] {
						return
					}
					for _, nd := range b.Nodes {
						if _, ok := nd.(*ast.ReturnStmt); ok {
							bad = true
							return
						}
					}
					if len(b.Succs) == 0 {
						bad = true
						return
					}
					for k, s := range b.Succs {
						if !isCut(b, k) {
							dfs(s)
						}
					}
				}
				dfs(start)
				construct := fmt.Sprintf("error edge of the callee result#%d", n)
				if !bad {
					obs = append(obs, mkOb(c, "TRACE.stack-before-pop", u, construct, e.E.B.Nodes[len(e.E.B.Nodes)-1], Proved, "every return on the error edge passes r.SetCallStack(...) or the `r.CallStack() != nil` edge", true))
				} else {
					obs = append(obs, mkOb(c, "TRACE.stack-before-pop", u, construct, e.E.B.Nodes[len(e.E.B.Nodes)-1], Violated, "an error returned by the callee leaves funCall without a call stack: eval attaches one only after the deferred Pop, so the function that raised the error is missing from its own trace ((defun look (m k) (get m k)) (look (sorted-map) (list 1 2)) reports no lisp:get frame)", true))
				}
			}
			if n == 0 {
				obs = append(obs, mkOb(c, "TRACE.stack-before-pop", u, "error edge of the callee result", fd, Undecided, "no `r.Type == LError` test on the result of env.call found", false))
			}
			return obs
		}})
}

func init() {
	register(&Rule{ID: "STAMP.before-copy", Floor: 1,
		Doc: "in macroCall the expansion is stamped with the call site BEFORE its root is copied for the lazy unquote: the stampMacroExpansion call dominates every shallowUnquote of the expansion, and the value handed to markMacExpand is the stamped object or a copy taken after the stamp — a copy taken earlier would be the form that is actually evaluated and it would carry no position (a cons/list-built expansion then blames an enclosing form)",
		Run: func(c *Ctx) []Obligation {
			fn, fd, pkg := c.LookupFunc("lisp.(*LEnv).macroCall")
			stamp := c.LookupPkgFunc("lisp.stampMacroExpansion")
			unq := c.LookupPkgFunc("lisp.shallowUnquote")
			mark := c.LookupPkgFunc("lisp.markMacExpand")
			if fn == nil || stamp == nil || unq == nil || mark == nil {
				return []Obligation{anchorMissing("STAMP.before-copy", "macroCall / stampMacroExpansion / shallowUnquote / markMacExpand")}
			}
			u := FuncUnit{fn, fd, pkg}
			info := pkg.TypesInfo
			fc := c.cfgOf(u, nil)
			var stampLoc Loc
			var stamped types.Object
			haveStamp := false
			var copies []struct {
				loc Loc
				ce  *ast.CallExpr
			}
			for _, b := range fc.G.Blocks {
				if !fc.Live(b) {
					continue
				}
				for i, n := range b.Nodes {
					for _, ce := range callsIn(n, false) {
						switch originOf(Callee(info, ce)) {
						case stamp:
							stampLoc, haveStamp = Loc{b, i}, true
							if len(ce.Args) > 0 {
								stamped = identObj(info, ce.Args[0])
							}
						case unq:
							copies = append(copies, struct {
								loc Loc
								ce  *ast.CallExpr
							}{Loc{b, i}, ce})
						}
					}
				}
			}
			var obs []Obligation
			if !haveStamp || stamped == nil {
				return []Obligation{mkOb(c, "STAMP.before-copy", u, "stamp", fd, Violated, "macroCall no longer stamps the expansion with the call site", true)}
			}
			ord := &ordinal{}
			for _, cp := range copies {
				construct := ord.next("copy of the expansion root")
				if len(cp.ce.Args) == 1 && identObj(info, cp.ce.Args[0]) == stamped && fc.Dominates(stampLoc, cp.loc) {
					obs = append(obs, mkOb(c, "STAMP.before-copy", u, construct, cp.ce, Proved, "taken from the stamped value, after the stamp", true))
				} else {
					obs = append(obs, mkOb(c, "STAMP.before-copy", u, construct, cp.ce, Violated, "the root of the expansion is copied before (or independently of) the call-site stamp: the copy is the form that gets evaluated and it carries no position, so an error in a cons/list-built expansion is blamed on an enclosing form", true))
				}
			}
			if len(copies) == 0 {
				obs = append(obs, mkOb(c, "STAMP.before-copy", u, "copy of the expansion root", fd, Proved, "no copy is taken: the stamped value itself is handed on", false))
			}
			return obs
		}})
}

// LOC.template-form-located — C18 ("an error inside a macro expansion points at
// the template form that failed, and the innermost frame is that form"): a
// quasiquote template form is rebuilt by doUnquoteSExpr as a NEW list.  The new
// list takes the written form's position; without it the expansion stamp
// (stampMacroExpansion) gives it the macro CALL site, so every error inside
// the form is blamed on the call.  Structural half: each list doUnquoteSExpr
// constructs is given `.source = <template node>.source` before it is returned.
func init() {
	register(&Rule{ID: "LOC.template-form-located", Floor: 1,
		Doc: "in doUnquoteSExpr every list built for the result (an SExpr(…) construction, or a helper call, assigned to the returned local) is followed on every path to the return by an assignment of the template node's source to it: rebuilt template forms — with or without unquote-splicing — keep the position they were written at",
		Run: func(c *Ctx) []Obligation {
			const rid = "LOC.template-form-located"
			fn, fd, pkg := c.LookupFunc("lisp.doUnquoteSExpr")
			srcF := c.LookupField("lisp.LVal.source")
			quote := c.LookupPkgFunc("lisp.Quote")
			if fn == nil || srcF == nil {
				return []Obligation{anchorMissing(rid, "lisp.doUnquoteSExpr / LVal.source")}
			}
			u := FuncUnit{fn, fd, pkg}
			info := pkg.TypesInfo
			fc := c.cfgOf(u, nil)
			// quote-like wrappers: Quote, and helpers of the package that hand back their first
			// parameter after wrapping it in Quote any number of times (position kept)
			quoteLike := func(f *types.Func) bool {
				if f == nil {
					return false
				}
				if f == quote {
					return true
				}
				qd := c.declOf[f]
				if qd == nil || qd.Body == nil || f.Pkg() != fn.Pkg() {
					return false
				}
				qinfo := c.pkgOf[qd].TypesInfo
				ps := paramObjs(FuncUnit{f, qd, c.pkgOf[qd]})
				if len(ps) == 0 {
					return false
				}
				ok := true
				ast.Inspect(qd.Body, func(n ast.Node) bool {
					switch x := n.(type) {
					case *ast.ReturnStmt:
						if len(x.Results) != 1 || identObj(qinfo, x.Results[0]) != ps[0] {
							ok = false
						}
					case *ast.AssignStmt:
						for i, l := range x.Lhs {
							if identObj(qinfo, l) == ps[0] {
								good := false
								if len(x.Lhs) == len(x.Rhs) {
									if ce, isC := ast.Unparen(x.Rhs[i]).(*ast.CallExpr); isC && originOf(Callee(qinfo, ce)) == quote && len(ce.Args) == 1 && identObj(qinfo, ce.Args[0]) == ps[0] {
										good = true
									}
								}
								if !good {
									ok = false
								}
							}
						}
					}
					return true
				})
				return ok
			}
			// the local a return statement hands back: itself, or as the operand of a quote-like wrapper
			returned := func(rs *ast.ReturnStmt) types.Object {
				if len(rs.Results) != 1 {
					return nil
				}
				if o := identObj(info, rs.Results[0]); o != nil {
					return o
				}
				if ce, ok := ast.Unparen(rs.Results[0]).(*ast.CallExpr); ok && len(ce.Args) >= 1 && quoteLike(originOf(Callee(info, ce))) {
					return identObj(info, ce.Args[0])
				}
				return nil
			}
			// the returned local: that of the last return statement
			var ret types.Object
			ast.Inspect(fd.Body, func(n ast.Node) bool {
				if rs, ok := n.(*ast.ReturnStmt); ok {
					if o := returned(rs); o != nil {
						ret = o
					}
				}
				return true
			})
			if ret == nil {
				return []Obligation{mkOb(c, rid, u, "returned list", fd, Undecided, "the function does not return a local", true)}
			}
			var obs []Obligation
			ord := &ordinal{}
			// a list built INSIDE a return statement (`return quoteTimes(SExpr(cells), n)`) never gets a
			// position at all: no statement can follow the construction
			sexprF, qexprF := c.LookupPkgFunc("lisp.SExpr"), c.LookupPkgFunc("lisp.QExpr")
			ast.Inspect(fd.Body, func(n ast.Node) bool {
				rs, ok := n.(*ast.ReturnStmt)
				if !ok || len(rs.Results) != 1 {
					return true
				}
				e := ast.Unparen(rs.Results[0])
				for k := 0; k < 3; k++ {
					ce, ok := e.(*ast.CallExpr)
					if !ok || len(ce.Args) < 1 || !quoteLike(originOf(Callee(info, ce))) {
						break
					}
					e = ast.Unparen(ce.Args[0])
				}
				if ce, ok := e.(*ast.CallExpr); ok {
					if f := originOf(Callee(info, ce)); f != nil && (f == sexprF || f == qexprF) {
						obs = append(obs, mkOb(c, rid, u, ord.next("list built in a return statement"), rs, Violated, "the rebuilt template form is constructed inside the return statement and so never receives the template node's position: the expansion stamp assigns it the macro call site, and an error inside the form — and the innermost frame of its trace — points at the macro call instead of at the template", true))
					}
				}
				return true
			})
			for _, b := range fc.G.Blocks {
				if !fc.Live(b) {
					continue
				}
				for i, n := range b.Nodes {
					as, ok := n.(*ast.AssignStmt)
					if !ok || len(as.Lhs) != 1 || len(as.Rhs) != 1 || identObj(info, as.Lhs[0]) != ret {
						continue
					}
					ce, ok := ast.Unparen(as.Rhs[0]).(*ast.CallExpr)
					if !ok {
						continue
					}
					if f := originOf(Callee(info, ce)); f == nil || quoteLike(f) {
						continue // Quote copies the node (position included) or wraps it
					}
					construct := ord.next("list built by " + types.ExprString(ce.Fun))
					isErrTest := func(e ast.Expr) bool { return strings.Contains(types.ExprString(e), "LError") }
					_, bad := fc.ForwardSearch(Loc{b, i},
						func(l Loc, m ast.Node) searchVerdict {
							switch x := m.(type) {
							case *ast.AssignStmt:
								for _, lh := range x.Lhs {
									if se, ok := ast.Unparen(lh).(*ast.SelectorExpr); ok && FieldOfSelector(info, se) == srcF && identObj(info, se.X) == ret {
										return svStop
									}
									if identObj(info, lh) == ret {
										if c2, ok := ast.Unparen(x.Rhs[0]).(*ast.CallExpr); ok && !quoteLike(originOf(Callee(info, c2))) {
											return svStop // a new construction: checked on its own
										}
									}
								}
							case *ast.ReturnStmt:
								if returned(x) == ret {
									return svBad
								}
							}
							return svContinue
						},
						func(bb *cfg.Block, k int) bool {
							// do not follow the edge on which the built value is an error
							if cnd := fc.CondOf(bb); cnd != nil && isErrTest(cnd) && k == 0 {
								return false
							}
							return true
						}, nil)
					if bad {
						obs = append(obs, mkOb(c, rid, u, construct, as, Violated, "this list can be returned as the rebuilt template form without having been given the template node's position: the expansion stamp then assigns it the macro call site, so an error inside the form — and the innermost frame of its trace — points at the macro call instead of at the template", true))
					} else {
						obs = append(obs, mkOb(c, rid, u, construct, as, Proved, "given the template node's position before it is returned", true))
					}
				}
			}
			return obs
		}})
}

// LOC.bind-errors-at-call — C18 ("the error identifies the failing form"): an
// argument-binding failure (wrong number of arguments, unrecognized keyword,
// odd number of keyword arguments) is a failure OF THE CALL.  Errors take their
// position from the environment that creates them, so during binding they must
// be created by the caller's environment — bind's own receiver — not by the
// callee's lexical environment, whose position is the defun or lambda.
func init() {
	register(&Rule{ID: "LOC.bind-errors-at-call", Floor: 2,
		Doc: "in LEnv.bind every call of an error-creating method of an environment (Errorf, ErrorConditionf, bindFormalNext — which creates the keyword and arity errors) has bind's own receiver, the calling environment, as its receiver: a rejected call is located at the call expression, in agreement with the stack trace, never at the definition of the function being called",
		Run: func(c *Ctx) []Obligation {
			const rid = "LOC.bind-errors-at-call"
			fn, fd, pkg := c.LookupFunc("lisp.(*LEnv).bind")
			if fn == nil || fd.Recv == nil || len(fd.Recv.List) == 0 || len(fd.Recv.List[0].Names) == 0 {
				return []Obligation{anchorMissing(rid, "lisp.(*LEnv).bind")}
			}
			u := FuncUnit{fn, fd, pkg}
			info := pkg.TypesInfo
			recv := info.Defs[fd.Recv.List[0].Names[0]]
			watched := map[string]bool{"Errorf": true, "ErrorConditionf": true, "ErrorCondition": true, "Error": true, "bindFormalNext": true}
			var obs []Obligation
			ord := &ordinal{}
			for _, ce := range callsIn(fd.Body, true) {
				se, ok := ast.Unparen(ce.Fun).(*ast.SelectorExpr)
				if !ok || !watched[se.Sel.Name] {
					continue
				}
				tv, ok := info.Types[se.X]
				if !ok || !strings.HasSuffix(tv.Type.String(), "lisp.LEnv") {
					continue
				}
				construct := ord.next(types.ExprString(se.X) + "." + se.Sel.Name)
				if identObj(info, se.X) == recv {
					obs = append(obs, mkOb(c, rid, u, construct, ce, Proved, "created by the calling environment", true))
				} else {
					obs = append(obs, mkOb(c, rid, u, construct, ce, Violated, "a binding error is created by `"+types.ExprString(se.X)+"`, not by the calling environment: for a user-defined function that environment's position is the defun/lambda, so `unrecognized keyword argument` and the other keyword rejections are reported at the function's definition while the stack trace still shows the call — location and trace disagree", true))
				}
			}
			return obs
		}})
}

// valueIsResultOf: e is a call of m (a copy constructor), nil, a local defined once as such,
// or a parameter of an unexported function every call site of which passes such a value
// (the literal moved into a constructor helper; what the helper stores is what its callers
// hand it).
func (c *Ctx) valueIsResultOf(u FuncUnit, e ast.Expr, m *types.Func, depth int) bool {
	info := u.Pkg.TypesInfo
	e = ast.Unparen(e)
	if tv, ok := info.Types[e]; ok && tv.IsNil() {
		return true
	}
	if ce, ok := e.(*ast.CallExpr); ok {
		return originOf(Callee(info, ce)) == m
	}
	if d := soleDef(info, u.Decl.Body, e); d != nil {
		return c.valueIsResultOf(u, d, m, depth)
	}
	o := identObj(info, e)
	if o == nil || depth > 2 || u.Obj.Exported() {
		return false
	}
	idx := -1
	for i, p := range paramObjs(u) {
		if p == o {
			idx = i
		}
	}
	if idx < 0 {
		return false
	}
	// the parameter is not reassigned
	reassigned := false
	ast.Inspect(u.Decl.Body, func(n ast.Node) bool {
		if as, ok := n.(*ast.AssignStmt); ok {
			for _, l := range as.Lhs {
				if identObj(info, l) == o {
					reassigned = true
				}
			}
		}
		return true
	})
	if reassigned {
		return false
	}
	sites, refs := c.CallsTo(nil, u.Obj)
	if len(sites) == 0 || len(refs) > 0 {
		return false
	}
	for _, s := range sites {
		if idx >= len(s.Call.Args) || s.Call.Ellipsis.IsValid() {
			return false
		}
		if !c.valueIsResultOf(s.Unit, s.Call.Args[idx], m, depth+1) {
			return false
		}
	}
	return true
}
