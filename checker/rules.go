package main

import (
	"go/ast"
	"go/types"
)

var ruleRegistry = map[string]*Rule{}

func register(r *Rule) { ruleRegistry[r.ID] = r }

var propSpecs = map[string]PropSpec{}

func registerProp(p PropSpec) { propSpecs[p.ID] = p }

func notTest(string) bool { return true } // Tests=false at load: no test files present

func moduleNoX(pkgPath string) bool { return true }

// riskyCall reports whether node n (not descending into function literals)
// contains a call that can run arbitrary code, panic or not return.  Type
// conversions and the pure builtins do not count.
func riskyCall(info *types.Info, n ast.Node) *ast.CallExpr {
	var found *ast.CallExpr
	ast.Inspect(n, func(m ast.Node) bool {
		if found != nil {
			return false
		}
		if _, ok := m.(*ast.FuncLit); ok {
			return false
		}
		ce, ok := m.(*ast.CallExpr)
		if !ok {
			return true
		}
		if tv, ok := info.Types[ce.Fun]; ok && tv.IsType() {
			return true // conversion
		}
		if id, ok := ast.Unparen(ce.Fun).(*ast.Ident); ok {
			if b, ok := info.Uses[id].(*types.Builtin); ok {
				switch b.Name() {
				case "len", "cap", "append", "make", "new", "copy", "min", "max", "delete", "clear", "recover":
					return true
				}
			}
		}
		found = ce
		return false
	})
	return found
}

// deferredCall returns the call of a defer statement and, when the deferred
// function is a literal, its body.
func deferredLit(d *ast.DeferStmt) *ast.FuncLit {
	if l, ok := ast.Unparen(d.Call.Fun).(*ast.FuncLit); ok {
		return l
	}
	return nil
}

func mkOb(c *Ctx, rule string, u FuncUnit, construct string, n ast.Node, verdict, detail string, nontrivial bool) Obligation {
	pos := "-"
	if n != nil {
		pos = c.Pos(n.Pos())
	}
	return Obligation{Rule: rule, Func: u.Name(), Construct: construct, Pos: pos, Verdict: verdict, Detail: detail, Nontrivial: nontrivial}
}

func anchorMissing(rule, what string) Obligation {
	return Obligation{Rule: rule, Func: "-", Construct: "ANCHOR-UNRESOLVED " + what, Verdict: Undecided,
		Detail: "the code element this rule is anchored on could not be resolved in the type-checked program"}
}
