package main

import (
	"go/ast"

	"golang.org/x/tools/go/cfg"
)

// LOC.tail-reentry-located (C18, C02) — an eliminated tail call is made by the frame that opened the loop:
// funCall takes function and arguments out of the tail-recursion mark and calls again.  An error OF that call
// — the argument list does not fit the function — is raised by the re-entering frame, whose environment
// still points at the call that opened the loop: `(defun f (n) (if (= n 0) (f) (f (- n 1)))) (f 3)` located
// "invalid number of arguments: 0" at (f 3) with elimination and at (f) without.  The structural half: on
// every path from taking the call out of the mark to the next call(), the environment's location is set from
// the mark's own position (which markTailRec records), and a deferred store puts the caller's location back.

func init() {
	register(&Rule{ID: "LOC.tail-reentry-located", Floor: 1,
		Doc: "in funCall every path from extractMarkTailRec (the call taken out of a finished tail-recursion mark) back to LEnv.call passes a store of the mark's own position (<mark>.source) into LEnv.loc, markTailRec records a position in the mark it builds, and funCall registers a deferred store back to LEnv.loc: an error of the re-entered call (its arguments do not fit) is located at the tail call expression that was eliminated, exactly as without elimination, and the caller's location is restored",
		Run: func(c *Ctx) []Obligation {
			const rid = "LOC.tail-reentry-located"
			fn, fd, pkg := c.LookupFunc("lisp.(*LEnv).funCall")
			ext := c.LookupPkgFunc("lisp.extractMarkTailRec")
			call := c.LookupMethod("lisp.LEnv.call")
			locFld := c.LookupField("lisp.LEnv.loc")
			srcFld := c.LookupField("lisp.LVal.source")
			mk := c.LookupPkgFunc("lisp.markTailRec")
			if fn == nil || ext == nil || call == nil || locFld == nil || srcFld == nil || mk == nil {
				return []Obligation{anchorMissing(rid, "funCall / extractMarkTailRec / LEnv.call / LEnv.loc / LVal.source / markTailRec")}
			}
			u := FuncUnit{fn, fd, pkg}
			info := pkg.TypesInfo
			fc := c.cfgOf(u, nil)
			var obs []Obligation
			// the mark records a position
			recorded := false
			if md := c.declOf[mk]; md != nil && md.Body != nil {
				minfo := c.pkgOf[md].TypesInfo
				ast.Inspect(md.Body, func(n ast.Node) bool {
					switch x := n.(type) {
					case *ast.KeyValueExpr:
						if id, ok := x.Key.(*ast.Ident); ok && minfo.Uses[id] == srcFld {
							recorded = true
						}
					case *ast.AssignStmt:
						for _, l := range x.Lhs {
							if FieldOfSelector(minfo, l) == srcFld {
								recorded = true
							}
						}
					}
					return true
				})
			}
			if recorded {
				obs = append(obs, mkOb(c, rid, u, "mark records its position", fd, Proved, "markTailRec stores a position in the mark", false))
			} else {
				obs = append(obs, mkOb(c, rid, u, "mark records its position", fd, Violated, "markTailRec builds the mark without the position of the tail call: the frame that re-enters the call has nothing to locate it with", true))
			}
			// re-entry passes the store
			var extBlocks []*cfg.Block
			var markObj = map[*cfg.Block]ast.Expr{}
			stores := map[*cfg.Block]bool{}
			calls := map[*cfg.Block]bool{}
			for _, b := range fc.G.Blocks {
				if !fc.Live(b) {
					continue
				}
				for _, n := range b.Nodes {
					for _, ce := range callsIn(n, false) {
						switch originOf(Callee(info, ce)) {
						case ext:
							extBlocks = append(extBlocks, b)
							if len(ce.Args) == 1 {
								markObj[b] = ce.Args[0]
							}
						case call:
							calls[b] = true
						}
					}
					if as, ok := n.(*ast.AssignStmt); ok {
						for i, l := range as.Lhs {
							if FieldOfSelector(info, l) == locFld && i < len(as.Rhs) && FieldOfSelector(info, as.Rhs[i]) == srcFld {
								stores[b] = true
							}
						}
					}
				}
			}
			if len(extBlocks) == 0 {
				obs = append(obs, mkOb(c, rid, u, "re-entry located", fd, Undecided, "funCall no longer takes the call out of the mark with extractMarkTailRec", true))
				return obs
			}
			for _, eb := range extBlocks {
				ok := true
				if !stores[eb] {
					for cb := range calls {
						for _, sc := range eb.Succs {
							if fc.reachableFromAvoidingBlocks(sc, cb, stores) {
								ok = false
							}
						}
					}
				}
				if ok {
					obs = append(obs, mkOb(c, rid, u, "re-entry located", eb.Nodes[0], Proved, "the mark's position is stored into LEnv.loc before the call is made again", true))
				} else {
					obs = append(obs, mkOb(c, rid, u, "re-entry located", eb.Nodes[0], Violated, "the call taken out of the mark is made again with the environment still pointing at the call that opened the loop: (defun f (n) (if (= n 0) (f) (f (- n 1)))) (f 3) reports `invalid number of arguments: 0` at (f 3), not at (f) — the location of the error depends on whether the tail call was eliminated", true))
				}
			}
			// the caller's location is put back: a deferred literal stores LEnv.loc
			restored := false
			ast.Inspect(fd.Body, func(n ast.Node) bool {
				ds, ok := n.(*ast.DeferStmt)
				if !ok {
					return true
				}
				if lit, ok := ds.Call.Fun.(*ast.FuncLit); ok {
					ast.Inspect(lit.Body, func(m ast.Node) bool {
						if as, ok := m.(*ast.AssignStmt); ok {
							for _, l := range as.Lhs {
								if FieldOfSelector(info, l) == locFld {
									restored = true
								}
							}
						}
						return true
					})
				}
				return true
			})
			if restored || len(stores) == 0 {
				obs = append(obs, mkOb(c, rid, u, "caller's location restored", fd, Proved, "a deferred store puts LEnv.loc back (or funCall never moves it)", false))
			} else {
				obs = append(obs, mkOb(c, rid, u, "caller's location restored", fd, Violated, "funCall moves LEnv.loc for the re-entered call and never puts the caller's location back", true))
			}
			return obs
		}})
}
