package main

import (
	"fmt"
	"go/ast"
	"go/types"
	"sort"
)

// debugLValWrites surveys LVal field stores, appends on Cells and header constructions (development aid).
func debugLValWrites(c *Ctx) {
	lval := c.LookupType("lisp.LVal")
	st := lval.Underlying().(*types.Struct)
	fields := map[*types.Var]bool{}
	for i := 0; i < st.NumFields(); i++ {
		fields[st.Field(i)] = true
	}
	cs := c.censusFor(isKernel)
	var lines []string
	for _, w := range cs.Writes {
		if !fields[w.Field] || w.Kind == "addr" {
			continue
		}
		lines = append(lines, fmt.Sprintf("STORE %-8s %-14s %-40s %s  %s", w.Kind, w.Field.Name(), w.Unit.Name(), c.Pos(w.Node.Pos()), types.ExprString(w.LHS)))
	}
	for _, cp := range cs.Copies {
		if cp.Type.Obj() == lval.Obj() {
			lines = append(lines, fmt.Sprintf("COPY  %-40s %s", cp.Unit.Name(), c.Pos(cp.Node.Pos())))
		}
	}
	cellsF := c.LookupField("lisp.LVal.Cells")
	for _, u := range c.Funcs(isKernel) {
		info := u.Pkg.TypesInfo
		ast.Inspect(u.Decl.Body, func(n ast.Node) bool {
			ce, ok := n.(*ast.CallExpr)
			if !ok {
				return true
			}
			mentionsCells := func(e ast.Expr) bool {
				found := false
				ast.Inspect(e, func(m ast.Node) bool {
					if se, ok := m.(*ast.SelectorExpr); ok && FieldOfSelector(info, se) == cellsF {
						found = true
					}
					return !found
				})
				return found
			}
			if id, ok := ast.Unparen(ce.Fun).(*ast.Ident); ok && id.Name == "append" && len(ce.Args) > 0 {
				if _, isB := info.Uses[id].(*types.Builtin); isB && mentionsCells(ce.Args[0]) {
					lines = append(lines, fmt.Sprintf("APPEND %-40s %s  %s", u.Name(), c.Pos(ce.Pos()), types.ExprString(ce)))
				}
			}
			if fn := Callee(info, ce); fn != nil && fn.Pkg() != nil && rel(fn.Pkg().Path()) == "lisp" {
				switch fn.Name() {
				case "SExpr", "QExpr", "Array", "Vector":
					if len(ce.Args) > 0 && mentionsCells(ce.Args[len(ce.Args)-1]) {
						lines = append(lines, fmt.Sprintf("VIEW  %-40s %s  %s", u.Name(), c.Pos(ce.Pos()), types.ExprString(ce)))
					}
				}
			}
			return true
		})
	}
	sort.Strings(lines)
	for _, l := range lines {
		fmt.Println(l)
	}
}
