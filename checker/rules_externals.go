package main

import (
	"go/ast"
	"go/types"

	"golang.org/x/tools/go/cfg"
)

// ANALYZE.externals-all-installed — C17 ("names defined in one file and used in
// another keep working after a minify session"): what one file of a session
// defines reaches the analysis of another file as Config.ExtraGlobals, and the
// analysis installs them in its root scope before anything is resolved.  A
// definition that is not installed is unknown to that file's analysis: its
// references there stay unresolved and keep their spelling while the defining
// file renames the definition.
func init() {
	register(&Rule{ID: "ANALYZE.externals-all-installed", Floor: 1,
		Doc: "in analysis.Analyze every turn of the loop over Config.ExtraGlobals reaches a call that installs the element in the root scope (Scope.Define or Scope.DefineQualifiedOnly): no external definition is skipped, whatever its name, kind or package",
		Run: func(c *Ctx) []Obligation {
			const rid = "ANALYZE.externals-all-installed"
			fn, fd, pkg := c.LookupFunc("analysis.Analyze")
			extra := c.LookupField("analysis.Config.ExtraGlobals")
			def := c.LookupMethod("analysis.Scope.Define")
			defQ := c.LookupMethod("analysis.Scope.DefineQualifiedOnly")
			if fn == nil || extra == nil || def == nil {
				return []Obligation{anchorMissing(rid, "analysis.Analyze / Config.ExtraGlobals / Scope.Define")}
			}
			u := FuncUnit{fn, fd, pkg}
			info := pkg.TypesInfo
			var obs []Obligation
			for _, hu := range c.withHelpers(u) {
				hinfo := hu.Pkg.TypesInfo
				_ = info
				fc := c.cfgOf(hu, nil)
				for _, b := range fc.G.Blocks {
					rs, ok := b.Stmt.(*ast.RangeStmt)
					if !ok || b.Kind != cfg.KindRangeLoop || !fc.Live(b) || FieldOfSelector(hinfo, rs.X) != extra {
						continue
					}
					installs := func(bb *cfg.Block) bool {
						for _, n := range bb.Nodes {
							if n.Pos() < rs.Body.Pos() || n.End() > rs.Body.End() {
								continue
							}
							for _, ce := range callsIn(n, false) {
								f := originOf(Callee(hinfo, ce))
								if f == nil {
									continue
								}
								if f == def || (defQ != nil && f == defQ) || c.reachesAny(f, def, defQ) {
									return true
								}
							}
						}
						return false
					}
					skip := false
					for _, comp := range fc.cyclicSCCs(installs) {
						for _, bb := range comp {
							if bb == b {
								skip = true
							}
						}
					}
					if skip {
						obs = append(obs, mkOb(c, rid, hu, "loop over ExtraGlobals", rs, Violated, "a turn of the loop can finish without installing the external definition in the root scope: a name another file of the session defines is unknown to this file's analysis, so its references here keep their spelling while the definition is renamed there", true))
					} else {
						obs = append(obs, mkOb(c, rid, hu, "loop over ExtraGlobals", rs, Proved, "every turn installs the element (Define / DefineQualifiedOnly)", true))
					}
				}
			}
			return obs
		}})
}

// reachesAny: f statically reaches one of the (non-nil) targets inside their package.
func (c *Ctx) reachesAny(f *types.Func, targets ...*types.Func) bool {
	for _, t := range targets {
		if t != nil && c.reaches(f, t) && f != t {
			return true
		}
	}
	return false
}
