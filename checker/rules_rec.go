package main

import (
	"fmt"
	"go/ast"
	"go/token"
	"go/types"
	"sort"
	"strings"

	"golang.org/x/tools/go/callgraph"
	"golang.org/x/tools/go/ssa"
)

// E6.REC — every recursion over lisp values, parser input or evaluator state
// passes a guard.  For each non-trivial call-graph SCC that contains a kernel
// function, the functions in which every intra-SCC call site is dominated by a
// guard check are removed; what remains must be acyclic, or be a cycle listed
// in the audited table with the bound that makes it finite.

// guardFuncs: calls that are guard checks (type-qualified method names).
var guardFuncNames = map[string]string{
	"lisp.cycleGuard.descend":                    "depth/path guard for walks over one LVal graph",
	"lisp.pairGuard.descend":                     "depth/path guard for walks over a pair of LVal graphs",
	"lisp/lisplib/libjson.encodeGuard.enter":     "depth/path guard of the JSON encoder",
	"lisp/lisplib/libelpspath.cycleGuard.descend": "depth/path guard of the path library",
	"lisp.(*Runtime).evalNestingExceeded":        "evaluator nesting bound",
	"lisp.(*CallStack).PushFID":                  "physical stack height bound checked before every frame push",
	"lisp.(*detacher).seen":                      "",
}

// cycleOnlyGuards: guards that stop a walk from going round a cycle but put no bound on
// how DEEP an acyclic value may be (they start tracking a path at a fixed depth and
// then follow the value as far as it goes).  The evaluator's nesting bound and the
// frame-height check bound depth; these do not.
var cycleOnlyGuards = map[string]bool{
	"lisp.cycleGuard.descend":                     true,
	"lisp.pairGuard.descend":                      true,
	"lisp/lisplib/libjson.encodeGuard.enter":      true,
	"lisp/lisplib/libelpspath.cycleGuard.descend": true,
}

// recCycleOnly: functions of a recursive component whose recursion is guarded by a
// cycle-only guard (filled by runREC): name -> guard, position.
type cycleOnlySite struct {
	guard string
	pos   token.Pos
}

var recCycleOnly = map[string]cycleOnlySite{}

func ssaQualName(f *ssa.Function) string { return SSAFuncName(f) }

// isGuardCall: the instruction is a static call to a guard function.
func isGuardCall(in ssa.Instruction) (string, bool) {
	c, ok := in.(ssa.CallInstruction)
	if !ok {
		return "", false
	}
	callee := c.Common().StaticCallee()
	if callee == nil {
		return "", false
	}
	n := ssaQualName(callee)
	if why, ok := guardFuncNames[n]; ok && why != "" {
		return n, true
	}
	if via, ok := guardWrapper(callee, 0); ok {
		return via + " (through " + n + ")", true
	}
	return "", false
}

// guardWrapper: every path through f (a declared function of this module)
// makes a guard call before it returns — a call of f guards what follows it
// exactly as the guard call written in its place would (`pushFrame` around
// PushFID).
var guardWrapperMemo = map[*ssa.Function]string{}

// recursiveFns: members of recursive components (set by runREC).  A recursive
// function is never a guard wrapper: what its guard bounds is its own
// activation, which is over when it returns (eval's nesting counter).
var recursiveFns = map[*ssa.Function]bool{}

func guardWrapper(f *ssa.Function, depth int) (string, bool) {
	if f == nil || len(f.Blocks) == 0 || depth > 2 || f.Parent() != nil || recursiveFns[f] {
		return "", false
	}
	if v, ok := guardWrapperMemo[f]; ok {
		return v, v != ""
	}
	guardWrapperMemo[f] = ""
	type gp struct {
		b    *ssa.BasicBlock
		name string
	}
	var gs []gp
	for _, b := range f.Blocks {
		for _, ins := range b.Instrs {
			ci, ok := ins.(ssa.CallInstruction)
			if !ok {
				continue
			}
			if _, isDefer := ins.(*ssa.Defer); isDefer {
				continue
			}
			if _, isGo := ins.(*ssa.Go); isGo {
				continue
			}
			callee := ci.Common().StaticCallee()
			if callee == nil {
				continue
			}
			n := ssaQualName(callee)
			if why, ok := guardFuncNames[n]; ok && why != "" {
				gs = append(gs, gp{b, n})
			} else if via, ok := guardWrapper(callee, depth+1); ok {
				gs = append(gs, gp{b, via})
			}
		}
	}
	for _, g := range gs {
		all, nret := true, 0
		for _, b := range f.Blocks {
			if len(b.Instrs) == 0 {
				continue
			}
			if _, isRet := b.Instrs[len(b.Instrs)-1].(*ssa.Return); !isRet {
				continue
			}
			nret++
			if b != g.b && !g.b.Dominates(b) {
				all = false
			}
		}
		if all && nret > 0 {
			guardWrapperMemo[f] = g.name
			return g.name, true
		}
	}
	return "", false
}

// counterGuardBlocks finds `If fieldA > fieldB`-style tests on an int field
// that the same function increments earlier; it returns, for each such If, the
// successor on which the bound was NOT exceeded.
func counterGuardEdges(fn *ssa.Function) []*ssa.BasicBlock {
	// fields incremented in this function: Store(FieldAddr f, BinOp ADD(load FieldAddr f, const 1))
	incremented := map[string]bool{}
	fieldKey := func(v ssa.Value) string {
		u, ok := v.(*ssa.UnOp)
		if !ok || u.Op != token.MUL {
			return ""
		}
		fa, ok := u.X.(*ssa.FieldAddr)
		if !ok {
			return ""
		}
		return fmt.Sprintf("%s#%d", fa.X.Type().String(), fa.Field)
	}
	for _, b := range fn.Blocks {
		for _, in := range b.Instrs {
			st, ok := in.(*ssa.Store)
			if !ok {
				continue
			}
			fa, ok := st.Addr.(*ssa.FieldAddr)
			if !ok {
				continue
			}
			bo, ok := st.Val.(*ssa.BinOp)
			if !ok || bo.Op != token.ADD {
				continue
			}
			k := fmt.Sprintf("%s#%d", fa.X.Type().String(), fa.Field)
			if fieldKey(bo.X) == k {
				incremented[k] = true
			}
		}
	}
	var out []*ssa.BasicBlock
	for _, b := range fn.Blocks {
		cond, neg := condOfBlock(b)
		bo, ok := cond.(*ssa.BinOp)
		if !ok {
			continue
		}
		kx, ky := fieldKey(bo.X), fieldKey(bo.Y)
		var exceededOnTrue bool
		switch {
		case incremented[kx] && kx != "" && (bo.Op == token.GTR || bo.Op == token.GEQ):
			exceededOnTrue = true
		case incremented[ky] && ky != "" && (bo.Op == token.LSS || bo.Op == token.LEQ):
			exceededOnTrue = true
		default:
			continue
		}
		_ = exceededOnTrue
		okEdge := 1
		if neg {
			okEdge = 0
		}
		// the exceeded edge must return
		if !blockReturns(b.Succs[1-okEdge]) {
			continue
		}
		out = append(out, b.Succs[okEdge])
	}
	return out
}

type recResult struct {
	sccs     int
	relevant int
	obs      []Obligation
}

func runREC(c *Ctx) []Obligation {
	cg := c.CallGraph()
	inModule := func(f *ssa.Function) bool {
		p := funcPkgPath(f)
		return p != "" && strings.HasPrefix(p, modPath)
	}
	comps := callSCCs(cg, inModule)
	recCycleOnly = map[string]cycleOnlySite{}
	recursiveFns = map[*ssa.Function]bool{}
	guardWrapperMemo = map[*ssa.Function]string{}
	for _, comp := range comps {
		for _, nd := range comp {
			recursiveFns[nd.Func] = true
		}
	}
	lvalT := c.LookupType("lisp.LVal")
	relevantFn := func(f *ssa.Function) bool {
		p := funcPkgPath(f)
		if !isKernel(p) {
			return false
		}
		return true
	}
	mentionsLVal := func(f *ssa.Function) bool {
		sig := f.Signature
		check := func(t types.Type) bool {
			found := false
			var walk func(t types.Type, d int)
			walk = func(t types.Type, d int) {
				if d > 3 || found {
					return
				}
				switch x := t.(type) {
				case *types.Pointer:
					walk(x.Elem(), d+1)
				case *types.Slice:
					walk(x.Elem(), d+1)
				case *types.Named:
					if lvalT != nil && x.Obj() == lvalT.Obj() {
						found = true
					}
				}
			}
			walk(t, 0)
			return found
		}
		for i := 0; i < sig.Params().Len(); i++ {
			if check(sig.Params().At(i).Type()) {
				return true
			}
		}
		for i := 0; i < sig.Results().Len(); i++ {
			if check(sig.Results().At(i).Type()) {
				return true
			}
		}
		if sig.Recv() != nil {
			if check(sig.Recv().Type()) {
				return true
			}
			rs := sig.Recv().Type().String()
			if strings.Contains(rs, "rdparser.Parser") || strings.Contains(rs, "lexer.Lexer") || strings.Contains(rs, "token.Scanner") {
				return true
			}
		}
		return false
	}
	var obs []Obligation
	nrel := 0
	for _, comp := range comps {
		in := map[*callgraph.Node]bool{}
		rel := false
		for _, nd := range comp {
			in[nd] = true
			if relevantFn(nd.Func) && mentionsLVal(nd.Func) {
				rel = true
			}
		}
		if !rel {
			continue
		}
		nrel++
		// guard nodes
		guarded := map[*callgraph.Node]string{}
		for _, nd := range comp {
			fn := nd.Func
			if len(fn.Blocks) == 0 {
				continue
			}
			// guard instruction positions
			type gpos struct {
				b    *ssa.BasicBlock
				idx  int
				name string
			}
			var guards []gpos
			for _, b := range fn.Blocks {
				for i, ins := range b.Instrs {
					if n, ok := isGuardCall(ins); ok {
						guards = append(guards, gpos{b, i, n})
					}
				}
			}
			okBlocks := counterGuardEdges(fn)
			all := true
			nsites := 0
			why := ""
			for _, e := range nd.Out {
				if !in[e.Callee] || e.Site == nil {
					continue
				}
				nsites++
				sb := e.Site.Block()
				sidx := -1
				for i, ins := range sb.Instrs {
					if ins == ssa.Instruction(e.Site) {
						sidx = i
					}
				}
				dom := false
				for _, g := range guards {
					if (g.b == sb && g.idx < sidx) || (g.b != sb && g.b.Dominates(sb)) {
						dom = true
						why = g.name
					}
				}
				for _, ob := range okBlocks {
					if ob == sb || ob.Dominates(sb) {
						dom = true
						why = "counter increment/compare with early return"
					}
				}
				if !dom && len(guards) > 0 && c.guardedByLenRangeIdiom(fn, e.Site) {
					dom = true
					why = guards[0].name + " (under len(X)>0, recursion inside range X)"
				}
				if !dom {
					all = false
				}
			}
			if all && nsites > 0 {
				guarded[nd] = why
				base := why
				if i := strings.Index(base, " ("); i > 0 {
					base = base[:i]
				}
				if cycleOnlyGuards[base] && relevantFn(nd.Func) {
					recCycleOnly[SSAFuncName(nd.Func)] = cycleOnlySite{base, nd.Func.Pos()}
				}
			}
		}
		// residual graph
		residual := func(f *ssa.Function) bool { return true }
		_ = residual
		// Tarjan on comp minus guarded
		sub := map[*callgraph.Node]bool{}
		for _, nd := range comp {
			if _, g := guarded[nd]; !g {
				sub[nd] = true
			}
		}
		cycles := subSCCs(comp, sub)
		var gnames []string
		for nd, why := range guarded {
			gnames = append(gnames, SSAFuncName(nd.Func)+" ["+why+"]")
		}
		sort.Strings(gnames)
		smallest := func(nodes []*callgraph.Node) (string, []string) {
			var names []string
			seen := map[string]bool{}
			for _, nd := range nodes {
				n := SSAFuncName(nd.Func)
				if !seen[n] {
					seen[n] = true
					names = append(names, n)
				}
			}
			sort.Strings(names)
			return names[0], names
		}
		first, allNames := smallest(comp)
		if len(cycles) == 0 {
			detail := fmt.Sprintf("recursive component of %d functions; removing the guarded functions leaves no cycle; guards: %s", len(allNames), strings.Join(gnames, "; "))
			if len(detail) > 600 {
				detail = detail[:600] + "…"
			}
			obs = append(obs, Obligation{Rule: "REC.guarded", Func: first, Construct: fmt.Sprintf("recursive component (%d functions)", len(allNames)),
				Pos: c.Pos(comp[0].Func.Pos()), Verdict: Proved, Detail: detail, Nontrivial: true})
			continue
		}
		for _, cyc := range cycles {
			// A cycle is identified by its members without the private helpers that only
			// members call (unexported, declared, never used as a value): statements of an
			// audited cycle moved into such a helper are the same recursion.
			inCyc := map[*callgraph.Node]bool{}
			for _, nd := range cyc {
				inCyc[nd] = true
			}
			var core []*callgraph.Node
			for _, nd := range cyc {
				contract := false
				if obj, ok := nd.Func.Object().(*types.Func); ok && obj != nil && !obj.Exported() && nd.Func.Parent() == nil && len(nd.In) > 0 {
					contract = true
					for _, e := range nd.In {
						if !inCyc[e.Caller] {
							contract = false
						}
					}
					if _, refs := c.CallsTo(func(string) bool { return true }, obj); len(refs) > 0 {
						contract = false
					}
				}
				if !contract {
					core = append(core, nd)
				}
			}
			if len(core) == 0 {
				core = cyc
			}
			f0, names := smallest(core)
			// only cycles that involve kernel/LVal-typed functions
			relc := false
			for _, nd := range cyc {
				if relevantFn(nd.Func) && mentionsLVal(nd.Func) {
					relc = true
				}
			}
			if !relc {
				continue
			}
			show := names
			if len(show) > 3 {
				show = append(append([]string{}, show[:3]...), fmt.Sprintf("+%d", len(names)-3))
			}
			members := strings.Join(names, ", ")
			cycID := fmt.Sprintf("%d functions, id %s", len(names), shortHash(members)[:8])
			var pos token.Pos
			for _, nd := range cyc {
				if SSAFuncName(nd.Func) == f0 {
					pos = nd.Func.Pos()
				}
			}
			obs = append(obs, Obligation{Rule: "REC.guarded", Func: f0, Construct: "unguarded cycle (" + cycID + "): " + strings.Join(show, " -> "),
				Pos: c.Pos(pos), Verdict: Violated, Nontrivial: true,
				Detail: "recursion that no depth/cycle guard dominates: deep or self-containing input can exhaust the Go stack (fatal, not recoverable); members: " + members})
		}
	}
	return obs
}

// subSCCs: non-trivial SCCs of the call graph restricted to the node set sub.
func subSCCs(comp []*callgraph.Node, sub map[*callgraph.Node]bool) [][]*callgraph.Node {
	index := map[*callgraph.Node]int{}
	low := map[*callgraph.Node]int{}
	on := map[*callgraph.Node]bool{}
	var stack []*callgraph.Node
	var out [][]*callgraph.Node
	n := 0
	var strong func(v *callgraph.Node)
	strong = func(v *callgraph.Node) {
		index[v], low[v] = n, n
		n++
		stack = append(stack, v)
		on[v] = true
		for _, e := range v.Out {
			w := e.Callee
			if !sub[w] {
				continue
			}
			if _, seen := index[w]; !seen {
				strong(w)
				if low[w] < low[v] {
					low[v] = low[w]
				}
			} else if on[w] && index[w] < low[v] {
				low[v] = index[w]
			}
		}
		if low[v] == index[v] {
			var c []*callgraph.Node
			for {
				x := stack[len(stack)-1]
				stack = stack[:len(stack)-1]
				on[x] = false
				c = append(c, x)
				if x == v {
					break
				}
			}
			self := false
			for _, e := range v.Out {
				if e.Callee == v {
					self = true
				}
			}
			if len(c) > 1 || self {
				out = append(out, c)
			}
		}
	}
	nodes := make([]*callgraph.Node, 0, len(comp))
	for _, nd := range comp {
		if sub[nd] {
			nodes = append(nodes, nd)
		}
	}
	sort.Slice(nodes, func(i, j int) bool { return nodes[i].ID < nodes[j].ID })
	for _, nd := range nodes {
		if _, seen := index[nd]; !seen {
			strong(nd)
		}
	}
	return out
}

func init() {
	register(&Rule{ID: "REC.guarded", Floor: 15,
		Doc: "every recursive call-graph component over lisp values / parser input becomes acyclic once the functions whose intra-component calls are all dominated by a depth or cycle guard are removed; residual cycles must be audited with the bound that makes them finite",
		Run: runREC})

	register(&Rule{ID: "REC.depth-bounded", Floor: 1,
		Doc: "a recursive walk over a lisp value is bounded in DEPTH, not only against cycles: its recursion is dominated by a guard that refuses to go deeper than a limit (the evaluator's nesting bound, the frame-height check, a depth counter with an error exit).  The cycle guards (cycleGuard / pairGuard / encodeGuard) start recording a path at depth 64 and then follow an acyclic value as far as it goes, at several hundred bytes of Go stack per level",
		Run: func(c *Ctx) []Obligation {
			runREC(c) // fills recCycleOnly
			var obs []Obligation
			for _, name := range sortedKeys(recCycleOnly) {
				st := recCycleOnly[name]
				obs = append(obs, Obligation{Rule: "REC.depth-bounded", Func: name, Construct: "recursion guarded against cycles only", Pos: c.Pos(st.pos), Verdict: Violated, Nontrivial: true,
					Detail: "the recursion of this walk is guarded by " + st.guard + ", which detects a value that contains itself but does not limit how deep an acyclic value may be: a list nested a million and a half levels deep — built by a loop, at constant evaluation depth — overflows the 1 GB goroutine stack inside this walk and the Go runtime aborts the process (fatal error: stack overflow; recover() cannot catch it)"})
			}
			if len(obs) == 0 {
				obs = append(obs, Obligation{Rule: "REC.depth-bounded", Func: "module", Construct: "no walk guarded against cycles only", Verdict: Proved, Detail: "every guarded recursion over lisp values is bounded in depth", Nontrivial: true})
			}
			return obs
		}})

	register(&Rule{ID: "GUARD.abandoned", Floor: 3,
		Doc: "every walker that calls lisp.cycleGuard.descend first tests g.abandoned() and returns on it (stage 3 of the guard: without it a value that contains itself k times is unrolled k^depth times)",
		Run: func(c *Ctx) []Obligation {
			prog := c.SSA()
			var obs []Obligation
			for fn := range ssaAllFuncs(c) {
				if fn.Pkg == nil || !isKernel(fn.Pkg.Pkg.Path()) || len(fn.Blocks) == 0 {
					continue
				}
				ord := &ordinal{}
				for _, b := range fn.Blocks {
					for i, ins := range b.Instrs {
						call, ok := ins.(ssa.CallInstruction)
						if !ok {
							continue
						}
						callee := call.Common().StaticCallee()
						if callee == nil || SSAFuncName(callee) != "lisp.cycleGuard.descend" {
							continue
						}
						construct := ord.next("call cycleGuard.descend")
						dom := false
						for _, b2 := range fn.Blocks {
							cond, neg := condOfBlock(b2)
							cc, ok := cond.(*ssa.Call)
							if !ok {
								continue
							}
							ce := cc.Call.StaticCallee()
							if ce == nil || SSAFuncName(ce) != "lisp.cycleGuard.abandoned" {
								continue
							}
							abEdge, okEdge := 0, 1
							if neg {
								abEdge, okEdge = 1, 0
							}
							if !blockReturns(b2.Succs[abEdge]) {
								continue
							}
							ob := b2.Succs[okEdge]
							if ob == b || ob.Dominates(b) {
								dom = true
							}
						}
						_ = i
						o := Obligation{Rule: "GUARD.abandoned", Func: SSAFuncName(fn), Construct: construct, Pos: c.Pos(ins.Pos()), Nontrivial: true}
						if dom {
							o.Verdict, o.Detail = Proved, "dominated by the not-abandoned edge of `if g.abandoned() { return }`"
						} else {
							o.Verdict, o.Detail = Violated, "walker descends without the abandoned() early-out: a multiply self-containing value makes the walk exponential (wedges the host without using steps or stack)"
						}
						obs = append(obs, o)
					}
				}
			}
			_ = prog
			sort.Slice(obs, func(i, j int) bool { return obs[i].Key() < obs[j].Key() })
			return obs
		}})
}

func ssaAllFuncs(c *Ctx) map[*ssa.Function]bool {
	if m, ok := c.memo["ssaAll"].(map[*ssa.Function]bool); ok {
		return m
	}
	c.CallGraph()
	m := map[*ssa.Function]bool{}
	for f := range c.CG.Nodes {
		if f != nil {
			m[f] = true
		}
	}
	c.memo["ssaAll"] = m
	return m
}

// guardedByLenRangeIdiom recognises, at AST level, the shape
//
//	nested := len(P) > 0
//	if nested { ... g.descend(v) ... }
//	for _, c := range P { recurse(c) }
//
// the recursive call runs only when the loop body runs, i.e. len(P) > 0, which
// is exactly when the guard ran.  P must be the same access path and must not
// be assigned in the function.
func (c *Ctx) guardedByLenRangeIdiom(fn *ssa.Function, site ssa.CallInstruction) bool {
	obj, ok := fn.Object().(*types.Func)
	if !ok {
		return false
	}
	fd := c.declOf[originOf(obj)]
	if fd == nil || fd.Body == nil {
		return false
	}
	pkg := c.pkgOf[fd]
	info := pkg.TypesInfo
	pos := site.Pos()
	// innermost range statement containing the call
	var rng *ast.RangeStmt
	ast.Inspect(fd.Body, func(n ast.Node) bool {
		if r, ok := n.(*ast.RangeStmt); ok && r.Body.Pos() <= pos && pos <= r.Body.End() {
			rng = r
		}
		return true
	})
	if rng == nil {
		return false
	}
	rp, ok := PathOf(info, rng.X)
	if !ok {
		return false
	}
	// no assignment to that path in the function
	assigned := false
	ast.Inspect(fd.Body, func(n ast.Node) bool {
		if as, ok := n.(*ast.AssignStmt); ok {
			for _, l := range as.Lhs {
				if q, ok := PathOf(info, l); ok && SamePath(rp, q) {
					assigned = true
				}
			}
		}
		return true
	})
	if assigned {
		return false
	}
	// an if statement before the range, whose condition is (a variable defined as) len(P) > 0,
	// and whose body contains a guard call
	isLenPos := func(e ast.Expr) bool {
		be, ok := ast.Unparen(e).(*ast.BinaryExpr)
		if !ok || be.Op != token.GTR {
			return false
		}
		k, okc := intConst(info, be.Y)
		ce, okl := ast.Unparen(be.X).(*ast.CallExpr)
		if !okc || k != 0 || !okl || len(ce.Args) != 1 {
			return false
		}
		id, ok := ast.Unparen(ce.Fun).(*ast.Ident)
		if !ok || id.Name != "len" {
			return false
		}
		q, ok := PathOf(info, ce.Args[0])
		return ok && SamePath(rp, q)
	}
	found := false
	ast.Inspect(fd.Body, func(n ast.Node) bool {
		is, ok := n.(*ast.IfStmt)
		if !ok || is.End() > rng.Pos() {
			return true
		}
		cond := is.Cond
		condOK := isLenPos(cond)
		if o := identObj(info, cond); o != nil && !condOK {
			nassign := 0
			ast.Inspect(fd.Body, func(m ast.Node) bool {
				if as, ok := m.(*ast.AssignStmt); ok && len(as.Lhs) == len(as.Rhs) {
					for i, l := range as.Lhs {
						if identObj(info, l) == o {
							nassign++
							if isLenPos(as.Rhs[i]) {
								condOK = true
							}
						}
					}
				}
				return true
			})
			if nassign != 1 {
				condOK = false
			}
		}
		if !condOK {
			return true
		}
		for _, ce := range callsIn(is.Body, false) {
			if f := Callee(info, ce); f != nil {
				if _, isG := guardFuncNames[FuncName(originOf(f))]; isG {
					found = true
				}
			}
		}
		return true
	})
	return found
}
