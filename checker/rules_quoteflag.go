package main

import (
	"go/ast"
	"go/types"

	"golang.org/x/tools/go/cfg"
)

// QUOTE.flag-first (C07, C12) — one level of quoting is one bit: lisp.Quote marks an unquoted value by
// setting the flag on a copy and builds an LQuote NODE only around a value that already carries the flag.
// macroexpand re-quotes the expansion that MacroCall unquoted with exactly this function, so `eval of the
// expansion == the macro call` needs Quote to add one level and no more; the printer and the reader count
// levels the same way.  The structural half: the node-building return is reachable only over an edge that
// entails v.quoted — whatever else the condition looks at (the value's Type), an unflagged value never
// gets a node.

func init() {
	register(&Rule{ID: "QUOTE.flag-first", Floor: 1,
		Doc: "in lisp.Quote the construction of an LQuote node around the argument is reachable only over an edge entailing that the argument's quoted flag is already set: an unflagged value — of any type, an LQuote node included — is quoted by setting the flag on a copy, so Quote adds exactly one level and macroexpand's re-quoting of an expansion that is itself a quote form does not add a second one",
		Run: func(c *Ctx) []Obligation {
			const rid = "QUOTE.flag-first"
			fn, fd, pkg := c.LookupFunc("lisp.Quote")
			qf := c.LookupField("lisp.LVal.quoted")
			lquote := c.LookupConst("lisp.LQuote")
			typeFld := c.LookupField("lisp.LVal.Type")
			if fn == nil || fd == nil || qf == nil || lquote == nil || typeFld == nil {
				return []Obligation{anchorMissing(rid, "lisp.Quote / LVal.quoted / LQuote")}
			}
			u := FuncUnit{fn, fd, pkg}
			info := pkg.TypesInfo
			ps := paramObjs(u)
			if len(ps) != 1 {
				return []Obligation{mkOb(c, rid, u, "node construction", fd, Undecided, "Quote no longer takes the one value it quotes", true)}
			}
			arg := ps[0]
			fc := c.cfgOf(u, nil)
			cls := func(e ast.Expr) (string, bool) {
				se, ok := ast.Unparen(e).(*ast.SelectorExpr)
				if ok && FieldOfSelector(info, se) == qf && identObj(info, se.X) == arg {
					return "q", false
				}
				if ce, ok := ast.Unparen(e).(*ast.CallExpr); ok && len(ce.Args) == 0 {
					if s2, ok := ast.Unparen(ce.Fun).(*ast.SelectorExpr); ok && s2.Sel.Name == "IsQuoted" && identObj(info, s2.X) == arg {
						return "q", false
					}
				}
				return "", false
			}
			cut := fc.edgesEntailing(cls, func(v map[string]bool) bool { return v["$has:q"] && v["q"] })
			// blocks that build an LQuote node: a composite literal of LVal with Type: LQuote, or a store of
			// LQuote into a Type field
			var nodes []*cfg.Block
			var at ast.Node
			for _, b := range fc.G.Blocks {
				if !fc.Live(b) {
					continue
				}
				for _, n := range b.Nodes {
					hit := false
					ast.Inspect(n, func(m ast.Node) bool {
						switch x := m.(type) {
						case *ast.KeyValueExpr:
							if id, ok := x.Key.(*ast.Ident); ok && info.Uses[id] == types.Object(typeFld) && identObjOrSel(info, x.Value) == lquote {
								hit = true
							}
						case *ast.AssignStmt:
							for i, l := range x.Lhs {
								if i < len(x.Rhs) && FieldOfSelector(info, l) == typeFld && identObjOrSel(info, x.Rhs[i]) == lquote {
									hit = true
								}
							}
						}
						return !hit
					})
					if hit {
						nodes = append(nodes, b)
						if at == nil {
							at = n
						}
					}
				}
			}
			if len(nodes) == 0 {
				return []Obligation{mkOb(c, rid, u, "node construction", fd, Undecided, "no construction of an LQuote node found in Quote", true)}
			}
			for _, b := range nodes {
				if len(cut) == 0 || fc.reachableAvoiding(b, cut) {
					return []Obligation{mkOb(c, rid, u, "node construction", at, Violated, "an LQuote node can be built around a value whose quoted flag is not set: that value is quoted twice over (node + the flag the node carries) — (macroexpand '(m)) for a macro whose expansion is a quote form returns one level too many, and evaluating the expansion no longer equals the macro call", true)}
				}
			}
			return []Obligation{mkOb(c, rid, u, "node construction", at, Proved, "the node is built only for a value that already carries the flag", true)}
		}})
}
