package main

import (
	"go/ast"
	"go/token"
)

// WALK.heads-normalised — C19 ("a call is reported only if evaluating that call
// fails argument binding"): lint's arity checks read the program through the
// shared tree walker in package astutil, and that walker decides what is CODE:
// it does not descend into a quasiquote template.  `lisp:quasiquote` IS
// quasiquote (ARITY.heads-normalised makes every table in lint agree on that);
// a walker that recognises only the bare spelling walks the template of
// (lisp:quasiquote (car)) as code and builtin-arity reports a call that is
// never made.
func init() {
	register(&Rule{ID: "WALK.heads-normalised", Floor: 1,
		Doc: "in the shared tree walker (package astutil) every comparison of a node's head text with the name of a core operator has, in the same condition, the comparison with the language-package-qualified spelling of that name (or the head comes from a qualifier-stripping helper): what the walker treats as a template, it treats as one under both spellings",
		Run: func(c *Ctx) []Obligation {
			const rid = "WALK.heads-normalised"
			strFld := c.LookupField("lisp.LVal.Str")
			if strFld == nil {
				return []Obligation{anchorMissing(rid, "lisp.LVal.Str")}
			}
			core := map[string]bool{}
			for _, e := range c.Registry() {
				if rel(e.Pkg.PkgPath) == "lisp" {
					core[e.Name] = true
				}
			}
			var obs []Obligation
			for _, u := range c.Funcs(func(p string) bool { return rel(p) == "astutil" }) {
				if u.Decl == nil || u.Decl.Body == nil {
					continue
				}
				info := u.Pkg.TypesInfo
				ord := &ordinal{}
				// outermost boolean expressions: conditions of if / for / case, right sides of assignments, returns
				var conds []ast.Expr
				ast.Inspect(u.Decl.Body, func(n ast.Node) bool {
					switch x := n.(type) {
					case *ast.IfStmt:
						conds = append(conds, x.Cond)
					case *ast.ForStmt:
						if x.Cond != nil {
							conds = append(conds, x.Cond)
						}
					case *ast.CaseClause:
						conds = append(conds, x.List...)
					case *ast.AssignStmt:
						conds = append(conds, x.Rhs...)
					case *ast.ReturnStmt:
						conds = append(conds, x.Results...)
					}
					return true
				})
				for _, cnd := range conds {
					// comparisons of a symbol's raw text with a constant, inside this condition
					type cmp struct {
						lhs  string
						name string
						at   ast.Node
					}
					var cmps []cmp
					ast.Inspect(cnd, func(m ast.Node) bool {
						be, ok := m.(*ast.BinaryExpr)
						if !ok || (be.Op != token.EQL && be.Op != token.NEQ) {
							return true
						}
						for _, pr := range [][2]ast.Expr{{be.X, be.Y}, {be.Y, be.X}} {
							if FieldOfSelector(info, pr[0]) != strFld {
								continue
							}
							if s, ok := constStringVal(info, pr[1]); ok {
								cmps = append(cmps, cmp{exprShape(info, pr[0]), s, be})
							}
						}
						return true
					})
					for _, a := range cmps {
						if !core[a.name] {
							continue
						}
						construct := ord.next("head compared with \"" + a.name + "\"")
						twin := false
						for _, b := range cmps {
							if b.lhs == a.lhs && b.name == "lisp:"+a.name {
								twin = true
							}
						}
						if twin {
							obs = append(obs, mkOb(c, rid, u, construct, a.at, Proved, "the qualified spelling lisp:"+a.name+" is tested in the same condition", true))
						} else {
							obs = append(obs, mkOb(c, rid, u, construct, a.at, Violated, "the walker recognises `"+a.name+"` by its bare spelling only: under the spelling lisp:"+a.name+" — the same operator to the evaluator — the tree is walked differently, so (lisp:quasiquote (car)) has its template checked as code and builtin-arity reports a call of car that is never made", true))
						}
					}
				}
			}
			if len(obs) == 0 {
				return []Obligation{{Rule: rid, Func: "astutil", Construct: "head comparisons", Verdict: Undecided, Detail: "the shared walker no longer compares a head with a core operator name: the recogniser matches nothing (if heads now come from a normalising helper, extend the rule to accept it)", Nontrivial: true}}
			}
			return obs
		}})
}
