package main

import (
	"fmt"
	"go/ast"
	"go/token"
	"go/types"
)

// CYCLE.one-boundary — C12 ("printing any value … yields text that reads back
// as an equal value": a value that merely SHARES a sub-list prints in full,
// only a value that contains itself prints #<cycle>).  The cycle guard starts
// recording the nodes of the current path at a fixed depth and must take them
// off the path again when the walk leaves them.  Recording and un-recording
// are decided by two comparisons of the same depth with the same constant,
// written in different functions; if they do not cut at the same value, a node
// at the boundary depth is recorded and never removed, and the next sibling
// that shares it is reported as a cycle.
func init() {
	register(&Rule{ID: "CYCLE.one-boundary", Floor: 1,
		Doc: "every comparison of the cycle guard's depth with cycleGuardDepth, anywhere in the interpreter, splits the depths at the same value as the others (the test that decides whether a node is recorded on the path, and the tests that decide whether it is taken off) (`depth < K` / `depth >= K` cut at K; `depth <= K` / `depth > K` cut at K+1): what descend records, ascend / tracking un-records",
		Run: func(c *Ctx) []Obligation {
			const rid = "CYCLE.one-boundary"
			depth := c.LookupField("lisp.cycleGuard.depth")
			lp := c.Pkg("lisp")
			if depth == nil || lp == nil {
				return []Obligation{anchorMissing(rid, "lisp.cycleGuard.depth")}
			}
			k, _ := c.LookupPkgObj("lisp.cycleGuardDepth").(*types.Const)
			if k == nil {
				return []Obligation{anchorMissing(rid, "lisp.cycleGuardDepth")}
			}
			type cmp struct {
				u    FuncUnit
				node *ast.BinaryExpr
				cut  int // 0: at K, 1: at K+1
			}
			var cmps []cmp
			for _, u := range c.Funcs(func(p string) bool { return rel(p) == "lisp" }) {
				if u.Decl == nil || u.Decl.Body == nil {
					continue
				}
				info := u.Pkg.TypesInfo
				ast.Inspect(u.Decl.Body, func(n ast.Node) bool {
					be, ok := n.(*ast.BinaryExpr)
					if !ok {
						return true
					}
					op := be.Op
					var other ast.Expr
					isDepth := func(e ast.Expr) bool {
						f := FieldOfSelector(info, e)
						return f != nil && (f == depth || canonFieldName(f) == "depth")
					}
					switch {
					case isDepth(be.X):
						other = be.Y
					case isDepth(be.Y):
						other = be.X
						switch op {
						case token.LSS:
							op = token.GTR
						case token.GTR:
							op = token.LSS
						case token.LEQ:
							op = token.GEQ
						case token.GEQ:
							op = token.LEQ
						}
					default:
						return true
					}
					if identObjOrSel(info, other) != types.Object(k) {
						return true
					}
					switch op {
					case token.LSS, token.GEQ:
						cmps = append(cmps, cmp{u, be, 0})
					case token.LEQ, token.GTR:
						cmps = append(cmps, cmp{u, be, 1})
					case token.EQL, token.NEQ:
						cmps = append(cmps, cmp{u, be, -1})
					}
					return true
				})
			}
			// the reference cut: the one most comparisons use (ties: the cut of `<` / `>=`, which is
			// what "record from depth K on" reads like); with a single comparison there is nothing to disagree
			count := map[int]int{}
			for _, x := range cmps {
				count[x.cut]++
			}
			ref := 0
			if count[1] > count[0] {
				ref = 1
			}
			if len(cmps) == 0 {
				return []Obligation{anchorMissing(rid, "a comparison of a guard depth with cycleGuardDepth")}
			}
			var obs []Obligation
			ords := map[string]*ordinal{}
			for _, x := range cmps {
				name := x.u.Name()
				if ords[name] == nil {
					ords[name] = &ordinal{}
				}
				construct := ords[name].next("depth compared with cycleGuardDepth")
				if x.cut == ref {
					obs = append(obs, mkOb(c, rid, x.u, construct, x.node, Proved, "cuts at the same depth as every other comparison with cycleGuardDepth", true))
				} else {
					obs = append(obs, mkOb(c, rid, x.u, construct, x.node, Violated, fmt.Sprintf("`%s` does not split the depths where the other comparisons with cycleGuardDepth do: a node entered at exactly the boundary depth is put on the path and never taken off (or the reverse), so a value that only shares that node is printed as #<cycle> — and reads back as something else", types.ExprString(x.node)), true))
				}
			}
			return obs
		}})
}
