package main

import (
	"fmt"
	"go/ast"
	"go/constant"
	"go/token"
	"go/types"
	"strings"
)

// E7 — determinism lints (C10, C17).

// mapRangeVerdict classifies the body of a `for k, v := range <map>` loop.
// Order-insensitive shapes (each statement of the body, recursively through
// if/switch/blocks):
//   - stores into a map element, delete(), clear()
//   - increments / += on numeric locals (counting, summing)
//   - assignment of constants to locals (flags)
//   - appends to a slice that the same function sorts afterwards
//   - writes to slice elements indexed by a counter when the slice is sorted afterwards
//   - min-by-key selection: `if best == nil || k < bestKey { best, bestKey = v, k }`
//   - calls with no result used for flow (method calls on the value) are accepted
//     only for the sanctioned set below
//
// Anything that can leave the loop early (return, break, goto, labelled
// continue out) with a value that depends on the iteration is order-sensitive.
func (c *Ctx) mapRangeVerdict(u FuncUnit, rs *ast.RangeStmt) (bool, string) {
	info := u.Pkg.TypesInfo
	keyObj := identObj(info, rs.Key)
	// slices sorted later in the function
	sortedLater := map[types.Object]bool{}
	ast.Inspect(u.Decl.Body, func(n ast.Node) bool {
		ce, ok := n.(*ast.CallExpr)
		if !ok || ce.Pos() < rs.End() {
			return true
		}
		fn := Callee(info, ce)
		if fn == nil || fn.Pkg() == nil || (fn.Pkg().Path() != "sort" && fn.Pkg().Path() != "slices") {
			return true
		}
		for _, a := range ce.Args {
			ast.Inspect(a, func(m ast.Node) bool {
				if id, ok := m.(*ast.Ident); ok {
					if o := info.Uses[id]; o != nil {
						sortedLater[o] = true
					}
				}
				return true
			})
		}
		return true
	})
	var why string
	isNumericLocal := func(e ast.Expr) bool {
		o := identObj(info, e)
		v, ok := o.(*types.Var)
		if !ok || v.IsField() {
			return false
		}
		b, ok := v.Type().Underlying().(*types.Basic)
		return ok && b.Info()&types.IsNumeric != 0
	}
	isConstExpr := func(e ast.Expr) bool {
		tv, ok := info.Types[e]
		return ok && (tv.Value != nil || tv.IsNil())
	}
	var okStmt func(s ast.Stmt) bool
	okBlock := func(list []ast.Stmt) bool {
		for _, s := range list {
			if !okStmt(s) {
				return false
			}
		}
		return true
	}
	okStmt = func(s ast.Stmt) bool {
		switch x := s.(type) {
		case nil:
			return true
		case *ast.BlockStmt:
			return okBlock(x.List)
		case *ast.IfStmt:
			// min-by-key selection
			if keyObj != nil && x.Else == nil && len(x.Body.List) == 1 {
				if as, ok := x.Body.List[0].(*ast.AssignStmt); ok {
					usesKeyCompare := false
					// comparisons read with their polarity: `!(k >= best)` is `k < best`
					for _, be := range cmpAtomsOf(x.Cond) {
						if (be.Op == token.LSS || be.Op == token.GTR) && (identObj(info, be.X) == keyObj || identObj(info, be.Y) == keyObj) {
							usesKeyCompare = true
						}
					}
					assignsKey := false
					for _, r := range as.Rhs {
						if identObj(info, r) == keyObj {
							assignsKey = true
						}
					}
					if usesKeyCompare && assignsKey {
						return true
					}
				}
			}
			if x.Init != nil && !okStmt(x.Init) {
				return false
			}
			// a call of a function VALUE in the condition (`if !yield(p) { return }`): the callback
			// receives the elements in the map's order — an iterator over a Go map is as unordered as the map
			dyn := ""
			ast.Inspect(x.Cond, func(m ast.Node) bool {
				ce, ok := m.(*ast.CallExpr)
				if !ok {
					return true
				}
				if tv, ok := info.Types[ce.Fun]; ok && tv.IsType() {
					return true
				}
				if id, ok := ast.Unparen(ce.Fun).(*ast.Ident); ok {
					if _, isB := info.Uses[id].(*types.Builtin); isB {
						return true
					}
					if v, isVar := info.Uses[id].(*types.Var); isVar {
						if _, isSig := v.Type().Underlying().(*types.Signature); isSig {
							dyn = id.Name
						}
					}
				}
				return true
			})
			if dyn != "" && !c.unorderedProducers()[u.Obj] {
				why = "the loop hands each element to the function value `" + dyn + "` (a callback) in map order"
				return false
			}
			// (an iterator this function returns: the order question moves to whoever ranges over it —
			// see the consumer obligations of this rule)
			if !okBlock(x.Body.List) {
				return false
			}
			if x.Else != nil {
				return okStmt(x.Else)
			}
			return true
		case *ast.SwitchStmt:
			for _, cc := range x.Body.List {
				if !okBlock(cc.(*ast.CaseClause).Body) {
					return false
				}
			}
			return true
		case *ast.TypeSwitchStmt:
			for _, cc := range x.Body.List {
				if !okBlock(cc.(*ast.CaseClause).Body) {
					return false
				}
			}
			return true
		case *ast.IncDecStmt:
			return true
		case *ast.BranchStmt:
			if x.Tok == token.CONTINUE && x.Label == nil {
				return true
			}
			why = "leaves or re-enters the loop with `" + x.Tok.String() + "`: which element does so depends on map order"
			return false
		case *ast.ReturnStmt:
			// returning a constant (or nothing) is order-insensitive only if every iteration that
			// returns returns the same thing: accept constants / bare return
			for _, r := range x.Results {
				if !isConstExpr(r) {
					why = "returns a value computed from the current element: with several candidates the result depends on map order"
					return false
				}
			}
			return true
		case *ast.AssignStmt:
			for i, l := range x.Lhs {
				l = ast.Unparen(l)
				// map element store
				if ie, ok := l.(*ast.IndexExpr); ok {
					if tv, ok := info.Types[ie.X]; ok {
						if _, isMap := tv.Type.Underlying().(*types.Map); isMap {
							// distinct slot per iteration (indexed by the range key), a
							// constant, or a commutative numeric update: order-free.
							// Otherwise two elements may hit one slot and the last writer
							// (or the order of an append) depends on map order.
							if keyObj != nil && identObj(info, ie.Index) == keyObj {
								continue
							}
							if len(x.Rhs) == len(x.Lhs) && isConstExpr(x.Rhs[i]) {
								continue
							}
							if x.Tok != token.ASSIGN && x.Tok != token.DEFINE {
								if tvl, ok := info.Types[l]; ok {
									if b, ok := tvl.Type.Underlying().(*types.Basic); ok && b.Info()&types.IsNumeric != 0 {
										continue
									}
								}
							}
							if len(x.Rhs) == len(x.Lhs) && sameSlotOnly(info, x.Rhs[i], ie) {
								continue
							}
							why = "stores into map slot `" + types.ExprString(l) + "`, which is not indexed by the range key: when two elements share a slot the result (last writer / append order) depends on map order"
							return false
						}
						// slice element indexed by a counter, slice sorted later
						if o := identObj(info, ie.X); o != nil && sortedLater[o] {
							continue
						}
					}
					why = "stores into a slice/array element in iteration order and the slice is not sorted afterwards"
					return false
				}
				if id, ok := l.(*ast.Ident); ok && id.Name == "_" {
					continue
				}
				// x op= numeric
				if x.Tok != token.ASSIGN && x.Tok != token.DEFINE && isNumericLocal(l) {
					continue
				}
				// append to slice sorted later
				if len(x.Rhs) == len(x.Lhs) {
					if ce, ok := ast.Unparen(x.Rhs[i]).(*ast.CallExpr); ok {
						if fid, ok := ast.Unparen(ce.Fun).(*ast.Ident); ok && fid.Name == "append" {
							if o := identObj(info, l); o != nil && sortedLater[o] {
								continue
							}
							why = "appends in iteration order to a slice that is not sorted afterwards in this function"
							return false
						}
					}
					// constants / flags
					if isConstExpr(x.Rhs[i]) {
						continue
					}
				}
				// a fresh local defined per iteration
				if x.Tok == token.DEFINE {
					continue
				}
				why = "assigns `" + types.ExprString(l) + "` from the current element: the last writer depends on map order"
				return false
			}
			return true
		case *ast.ExprStmt:
			if ce, ok := ast.Unparen(x.X).(*ast.CallExpr); ok {
				if id, ok := ast.Unparen(ce.Fun).(*ast.Ident); ok {
					if _, isB := info.Uses[id].(*types.Builtin); isB && (id.Name == "delete" || id.Name == "clear") {
						return true
					}
				}
				// per-key normalisation: sort.X(m[key]) / sort.X(value)
				if fn := Callee(info, ce); fn != nil && fn.Pkg() != nil && (fn.Pkg().Path() == "sort" || fn.Pkg().Path() == "slices") && len(ce.Args) >= 1 {
					a0 := ast.Unparen(ce.Args[0])
					if valObj := identObj(info, rs.Value); valObj != nil && identObj(info, a0) == valObj {
						return true
					}
					if ie, ok := a0.(*ast.IndexExpr); ok && keyObj != nil && identObj(info, ie.Index) == keyObj &&
						types.ExprString(ie.X) == types.ExprString(rs.X) {
						return true
					}
				}
				// min-by-key selection behind a method: `best.record(k, v)` where record keeps its arguments only
				// when k orders before the key it already holds
				if keyObj != nil && c.minByKeyRecorder(info, ce, keyObj) {
					return true
				}
				// method call on a set-like receiver (Add, Insert, mark...) — treated as commutative only for
				// the local closures / methods listed by the auditor; otherwise undecided
				why = "calls `" + types.ExprString(ce.Fun) + "` once per element in iteration order (effect order may be observable)"
				return false
			}
			return false
		case *ast.DeclStmt:
			return true
		case *ast.RangeStmt:
			return okBlock(x.Body.List)
		case *ast.ForStmt:
			return okBlock(x.Body.List)
		}
		why = fmt.Sprintf("statement %T is not a recognised order-insensitive shape", s)
		return false
	}
	if okBlock(rs.Body.List) {
		return true, "body only stores into maps, counts, sets flags, fills slices sorted afterwards or selects a minimum by key"
	}
	return false, why
}

// minByKeyRecorder: ce is a call of a module function that receives the range key as one of its arguments
// and whose body is the min-by-key selection written on fields: one if statement whose condition
// compares the key parameter with a field (`f.key <= key`, with any "nothing recorded yet" test beside it)
// and whose body returns, followed only by assignments that store the parameters into fields, the key
// parameter into the field it was compared with.  Map keys are distinct, so the element that remains
// recorded is the one with the least (or greatest) key whatever the iteration order.
func (c *Ctx) minByKeyRecorder(info *types.Info, ce *ast.CallExpr, keyObj types.Object) bool {
	h := originOf(Callee(info, ce))
	if h == nil {
		return false
	}
	hd := c.declOf[h]
	if hd == nil || hd.Body == nil {
		return false
	}
	hinfo := c.pkgOf[hd].TypesInfo
	sig := h.Type().(*types.Signature)
	var keyParam types.Object
	for i, a := range ce.Args {
		if identObj(info, a) == keyObj && i < sig.Params().Len() {
			keyParam = sig.Params().At(i)
		}
	}
	if keyParam == nil || len(hd.Body.List) < 2 {
		return false
	}
	guard, ok := hd.Body.List[0].(*ast.IfStmt)
	if !ok || guard.Else != nil || guard.Init != nil || len(guard.Body.List) != 1 {
		return false
	}
	if rs, ok := guard.Body.List[0].(*ast.ReturnStmt); !ok || len(rs.Results) != 0 {
		return false
	}
	var keyField *types.Var
	for _, be := range cmpAtomsOf(guard.Cond) {
		switch be.Op {
		case token.LSS, token.LEQ, token.GTR, token.GEQ:
		default:
			continue
		}
		for _, pr := range [][2]ast.Expr{{be.X, be.Y}, {be.Y, be.X}} {
			if identObj(hinfo, pr[0]) == keyParam {
				if f := FieldOfSelector(hinfo, pr[1]); f != nil {
					keyField = f
				}
			}
		}
	}
	if keyField == nil {
		return false
	}
	storesKey := false
	for _, st := range hd.Body.List[1:] {
		as, ok := st.(*ast.AssignStmt)
		if !ok || as.Tok != token.ASSIGN || len(as.Lhs) != len(as.Rhs) {
			return false
		}
		for i, l := range as.Lhs {
			f := FieldOfSelector(hinfo, l)
			if f == nil {
				return false
			}
			ro := identObj(hinfo, as.Rhs[i])
			isParam := false
			for j := 0; j < sig.Params().Len(); j++ {
				if sig.Params().At(j) == ro {
					isParam = true
				}
			}
			if !isParam {
				return false
			}
			if f == keyField && ro == keyParam {
				storesKey = true
			}
		}
	}
	return storesKey
}

// sameSlotOnly: rhs is `append(slot, <anything>)` used as a set-union into a
// slot … is NOT order-free; the only accepted non-key shape is copying a
// value whose own identity is the slot index (m[v.Name] = v with v the range
// value is still last-writer-wins), so this returns false except for the
// idempotent `m[k2] = m[k2]`-style self assignment.
func sameSlotOnly(info *types.Info, rhs ast.Expr, slot *ast.IndexExpr) bool {
	return types.ExprString(ast.Unparen(rhs)) == types.ExprString(slot)
}

// unorderedProducers: declared functions of the module that return an iterator (a function literal
// taking a yield function) whose body ranges over a Go map and hands the elements to yield — the
// sequence they produce is as unordered as the map.
func (c *Ctx) unorderedProducers() map[*types.Func]bool {
	if m, ok := c.memo["unorderedProducers"].(map[*types.Func]bool); ok {
		return m
	}
	out := map[*types.Func]bool{}
	for _, u := range c.Funcs(nil) {
		if u.Decl == nil || u.Decl.Body == nil {
			continue
		}
		info := u.Pkg.TypesInfo
		ast.Inspect(u.Decl.Body, func(n ast.Node) bool {
			ret, ok := n.(*ast.ReturnStmt)
			if !ok {
				return true
			}
			for _, r := range ret.Results {
				lit, ok := ast.Unparen(r).(*ast.FuncLit)
				if !ok || lit.Type.Params == nil {
					continue
				}
				yields := map[types.Object]bool{}
				for _, f := range lit.Type.Params.List {
					for _, nm := range f.Names {
						if o := info.Defs[nm]; o != nil {
							if _, isSig := o.Type().Underlying().(*types.Signature); isSig {
								yields[o] = true
							}
						}
					}
				}
				if len(yields) == 0 {
					continue
				}
				ast.Inspect(lit.Body, func(m ast.Node) bool {
					rs, ok := m.(*ast.RangeStmt)
					if !ok {
						return true
					}
					if tv, ok := info.Types[rs.X]; !ok {
						return true
					} else if _, isMap := tv.Type.Underlying().(*types.Map); !isMap {
						return true
					}
					for _, ce := range callsIn(rs.Body, false) {
						if yields[identObj(info, ce.Fun)] {
							out[u.Obj] = true
						}
					}
					return true
				})
			}
			return true
		})
	}
	c.memo["unorderedProducers"] = out
	return out
}

func (c *Ctx) mapRangeObligations(rule string, keep func(string) bool) []Obligation {
	var obs []Obligation
	producers := c.unorderedProducers()
	for _, u := range c.Funcs(keep) {
		info := u.Pkg.TypesInfo
		ord := &ordinal{}
		ast.Inspect(u.Decl.Body, func(n ast.Node) bool {
			rs, ok := n.(*ast.RangeStmt)
			if !ok {
				return true
			}
			tv, ok := info.Types[rs.X]
			if !ok {
				return true
			}
			// a range over an iterator of the module that walks a Go map (`for p := range reg.All()`)
			// is a range over that map
			if ce, isCall := ast.Unparen(rs.X).(*ast.CallExpr); isCall {
				if f := originOf(Callee(info, ce)); f != nil && producers[f] {
					construct := ord.next("range over the unordered iterator " + f.Name() + "()")
					if ok, why := c.mapRangeVerdict(u, rs); ok {
						obs = append(obs, mkOb(c, rule, u, construct, rs, Proved, why, true))
					} else {
						obs = append(obs, mkOb(c, rule, u, construct, rs, Undecided, FuncName(f)+" yields the entries of a Go map in the map's (random) order, and the effect of this loop may depend on it: "+why, true))
					}
					return true
				}
			}
			if _, isMap := tv.Type.Underlying().(*types.Map); !isMap {
				return true
			}
			construct := ord.next("range over map " + exprShape(info, rs.X))
			if ok, why := c.mapRangeVerdict(u, rs); ok {
				obs = append(obs, mkOb(c, rule, u, construct, rs, Proved, why, true))
			} else {
				obs = append(obs, mkOb(c, rule, u, construct, rs, Undecided, "iteration over a Go map whose effect may depend on the (random) order: "+why, true))
			}
			return true
		})
	}
	return obs
}

// hasStringer: type has String/Error/Format/GoString method (value or pointer receiver).
func hasStringer(t types.Type) bool {
	for _, tt := range []types.Type{t, types.NewPointer(t)} {
		ms := types.NewMethodSet(tt)
		for _, name := range []string{"String", "Error", "Format"} {
			if ms.Lookup(nil, name) != nil {
				return true
			}
		}
	}
	return false
}

// pointerish reports whether formatting a value of type t with %v can print an
// address or an order-dependent rendering.
func pointerish(t types.Type, depth int) (bool, string) {
	if depth > 4 {
		return false, ""
	}
	// fmt replaces a reflect.Value operand by the value it holds, whatever its String method says
	if n, ok := types.Unalias(t).(*types.Named); ok && n.Obj().Pkg() != nil && n.Obj().Pkg().Path() == "reflect" && n.Obj().Name() == "Value" {
		return true, "reflect.Value (fmt prints the value it holds, including addresses of pointers, chans and funcs)"
	}
	if hasStringer(t) {
		return false, ""
	}
	switch x := t.Underlying().(type) {
	case *types.Pointer:
		if _, isStruct := x.Elem().Underlying().(*types.Struct); isStruct {
			// %v of *struct prints &{...}: fields are printed, nested pointers as addresses
			if st := x.Elem().Underlying().(*types.Struct); st != nil {
				for i := 0; i < st.NumFields(); i++ {
					if p, why := pointerish(st.Field(i).Type(), depth+1); p {
						return true, "field " + st.Field(i).Name() + ": " + why
					}
				}
			}
			return false, ""
		}
		return true, "pointer " + t.String()
	case *types.Chan:
		return true, "channel"
	case *types.Signature:
		return true, "func value"
	case *types.Map:
		return false, "" // fmt sorts map keys
	case *types.Slice:
		return pointerish(x.Elem(), depth+1)
	case *types.Array:
		return pointerish(x.Elem(), depth+1)
	case *types.Struct:
		for i := 0; i < x.NumFields(); i++ {
			if p, why := pointerish(x.Field(i).Type(), depth+1); p {
				return true, "field " + x.Field(i).Name() + ": " + why
			}
		}
	case *types.Basic:
		if x.Kind() == types.UnsafePointer || x.Kind() == types.Uintptr {
			return true, "uintptr"
		}
	}
	if n, ok := types.Unalias(t).(*types.Named); ok && n.Obj().Pkg() != nil && n.Obj().Pkg().Path() == "reflect" && n.Obj().Name() == "Value" {
		return true, "reflect.Value (prints the underlying value, including addresses of pointers, chans and funcs)"
	}
	return false, ""
}

var formatFuncs = map[string]int{ // function -> index of the format argument
	"fmt.Sprintf": 0, "fmt.Errorf": 0, "fmt.Fprintf": 1, "fmt.Printf": 0,
	"lisp.Errorf": 0, "lisp.(*LEnv).Errorf": 0, "lisp.(*LEnv).ErrorConditionf": 1, "lisp.ErrorConditionf": 1,
}

func init() {
	register(&Rule{ID: "DET.map-range", Floor: 6,
		Doc: "every range over a Go map in the interpreter kernel has an order-insensitive body (stores into maps, counting, flags, fills a slice that is sorted afterwards, selects a minimum by key) or is audited",
		Run: func(c *Ctx) []Obligation { return c.mapRangeObligations("DET.map-range", isKernel) }})

	register(&Rule{ID: "DET.map-range-tooling", Floor: 10,
		Doc: "every range over a Go map in the code that produces minified text and its symbol map (minifier, analysis, formatter and their internal helpers) has an order-insensitive body or is audited",
		Run: func(c *Ctx) []Obligation {
			return c.mapRangeObligations("DET.map-range-tooling", func(p string) bool { return isTooling(p) && rel(p) != "lint" })
		}})

	register(&Rule{ID: "DET.ptr-format", Floor: 1,
		Doc: "no format call in the kernel, formatter or minifier applies %p, or %v/%+v/%s/%d to an operand whose static type renders an address (pointer without String/Error/Format, chan, func, uintptr, reflect.Value), and none applies %#v (which bypasses Stringers) to a pointer-bearing operand",
		Run: func(c *Ctx) []Obligation {
			var obs []Obligation
			nops := 0
			keep := func(p string) bool {
				r := rel(p)
				return isKernel(p) || r == "formatter" || r == "minifier"
			}
			for _, u := range c.Funcs(keep) {
				info := u.Pkg.TypesInfo
				ord := &ordinal{}
				for _, ce := range callsIn(u.Decl.Body, true) {
					fn := originOf(Callee(info, ce))
					if fn == nil {
						continue
					}
					name := FuncName(fn)
					if fn.Pkg() != nil && fn.Pkg().Path() == "fmt" {
						name = "fmt." + fn.Name()
					}
					fi, ok := formatFuncs[name]
					if !ok || fi >= len(ce.Args) {
						continue
					}
					tv, ok := info.Types[ce.Args[fi]]
					if !ok || tv.Value == nil || tv.Value.Kind() != constant.String {
						continue
					}
					format := constant.StringVal(tv.Value)
					verbs := parseVerbs(format)
					ops := ce.Args[fi+1:]
					if ce.Ellipsis.IsValid() {
						continue
					}
					for i, v := range verbs {
						if i >= len(ops) {
							break
						}
						nops++
						otv, ok := info.Types[ops[i]]
						if !ok {
							continue
						}
						t := otv.Type
						construct := ""
						bad := ""
						switch {
						case v == 'p':
							bad = "%p prints an address"
						case strings.ContainsRune("vsdxq", v) || v == '#':
							if otv.IsNil() {
								continue
							}
							if _, isIface := t.Underlying().(*types.Interface); isIface {
								continue // dynamic: not decided
							}
							if v == '#' {
								// %#v bypasses String(): pointer-bearing structs print addresses of nested pointers
								if p, ok := t.Underlying().(*types.Pointer); ok {
									if isP, why := pointerishNoStringer(p.Elem(), 0); isP {
										bad = "%#v bypasses the Stringer and prints " + why
									}
								}
							} else if isP, why := pointerish(t, 0); isP {
								bad = "operand renders as " + why
							}
						}
						if bad == "" {
							continue
						}
						construct = ord.next(fmt.Sprintf("%s operand %d (%s)", name, i+1, types.ExprString(ops[i])))
						obs = append(obs, mkOb(c, "DET.ptr-format", u, construct, ce, Undecided, "format `"+format+"`: "+bad+" — the text differs between runs and processes", true))
					}
				}
			}
			obs = append(obs, Obligation{Rule: "DET.ptr-format", Func: "-", Construct: "format operands examined", Verdict: Proved,
				Detail: fmt.Sprintf("%d constant-format operands examined in kernel, formatter and minifier", nops)})
			if nops < 300 {
				obs = append(obs, Obligation{Rule: "DET.ptr-format", Func: "-", Construct: "coverage", Verdict: Undecided,
					Detail: fmt.Sprintf("only %d format operands found (expected several hundred): the rule lost its sites", nops)})
			}
			return obs
		}})
}

// pointerishNoStringer: like pointerish but ignoring String methods (for %#v).
func pointerishNoStringer(t types.Type, depth int) (bool, string) {
	if depth > 3 {
		return false, ""
	}
	switch x := t.Underlying().(type) {
	case *types.Pointer:
		return true, "a nested pointer as an address"
	case *types.Chan, *types.Signature:
		return true, "an address"
	case *types.Struct:
		for i := 0; i < x.NumFields(); i++ {
			if p, why := pointerishNoStringer(x.Field(i).Type(), depth+1); p {
				return true, "field " + x.Field(i).Name() + " (" + why + ")"
			}
		}
	case *types.Slice:
		return pointerishNoStringer(x.Elem(), depth+1)
	case *types.Interface:
		return true, "a dynamic value"
	}
	return false, ""
}

// parseVerbs returns the verb letter of each operand-consuming directive;
// `%#v` is reported as '#'.
func parseVerbs(f string) []rune {
	var out []rune
	rs := []rune(f)
	for i := 0; i < len(rs); i++ {
		if rs[i] != '%' {
			continue
		}
		i++
		sharp := false
		for i < len(rs) && strings.ContainsRune("+-# 0123456789.*[]", rs[i]) {
			if rs[i] == '#' {
				sharp = true
			}
			if rs[i] == '*' {
				out = append(out, 'd')
			}
			i++
		}
		if i >= len(rs) {
			break
		}
		if rs[i] == '%' {
			continue
		}
		if sharp && rs[i] == 'v' {
			out = append(out, '#')
		} else {
			out = append(out, rs[i])
		}
	}
	return out
}

// DET.map-iterators — the range statement is not the only way to walk a Go map
// in its (random) order: the standard iterators maps.Keys / maps.Values /
// maps.All hand the same order to whatever consumes them.  The only consumer
// that removes the order is a sort.
func init() {
	register(&Rule{ID: "DET.map-iterators", Floor: 0,
		Doc: "every call of the standard map iterators (maps.Keys, maps.Values, maps.All) in the kernel and in the text-producing tooling is the direct operand of slices.Sorted / slices.SortedFunc / slices.SortedStableFunc: collecting the sequence any other way (slices.Collect, slices.AppendSeq, a range over the iterator) keeps Go's per-run map order, which then reaches printed output, error text or generated names.  (No such call exists today; the seeded change C10-r3m3 is the standing positive example re-checked by selftest.)",
		Run: func(c *Ctx) []Obligation {
			const rid = "DET.map-iterators"
			var obs []Obligation
			keep := func(p string) bool { return isKernel(p) || (isTooling(p) && rel(p) != "lint") }
			for _, u := range c.Funcs(keep) {
				if u.Decl == nil || u.Decl.Body == nil {
					continue
				}
				info := u.Pkg.TypesInfo
				ord := &ordinal{}
				sorted := map[*ast.CallExpr]bool{}
				ast.Inspect(u.Decl.Body, func(n ast.Node) bool {
					ce, ok := n.(*ast.CallExpr)
					if !ok || len(ce.Args) == 0 {
						return true
					}
					if stdFuncCalled(info, ce, "slices", "Sorted") || stdFuncCalled(info, ce, "slices", "SortedFunc") || stdFuncCalled(info, ce, "slices", "SortedStableFunc") {
						if in, ok := ast.Unparen(ce.Args[0]).(*ast.CallExpr); ok {
							sorted[in] = true
						}
					}
					return true
				})
				ast.Inspect(u.Decl.Body, func(n ast.Node) bool {
					ce, ok := n.(*ast.CallExpr)
					if !ok {
						return true
					}
					which := ""
					for _, nm := range []string{"Keys", "Values", "All"} {
						if stdFuncCalled(info, ce, "maps", nm) {
							which = nm
						}
					}
					if which == "" {
						return true
					}
					construct := ord.next("maps." + which)
					if sorted[ce] {
						obs = append(obs, mkOb(c, rid, u, construct, ce, Proved, "sorted as it is collected", true))
					} else {
						obs = append(obs, mkOb(c, rid, u, construct, ce, Undecided, "the map's iteration order — different on every run — is handed on unsorted: whatever lists, prints or numbers the result depends on it", true))
					}
					return true
				})
			}
			return obs
		}})
}

// VALUE.no-pointer-identity — C01 / C10: lisp values are compared by what they
// ARE (type, name, number), never by which allocation they live in.  `false`
// is a symbol: the evaluator usually hands out one shared allocation of it,
// but `'false`, an element of a quoted list, or a value copied by a builtin is
// a different allocation of the same value.  A truth test (or any other
// decision) written as a pointer comparison with the shared allocation is
// right for every `false` the tests produce and wrong for the others.
func init() {
	register(&Rule{ID: "VALUE.no-pointer-identity", Floor: 1,
		Doc: "in the interpreter kernel an equality comparison between two non-nil *LVal operands (pointer identity) occurs only in the audited bookkeeping functions — isSingleton (which allocation may be sealed/mutated), the cycle guards (has this node been entered) and the environment/aliasing checks listed with a reason — never in a function that decides a value's truth, equality or type",
		Run: func(c *Ctx) []Obligation {
			const rid = "VALUE.no-pointer-identity"
			permitted := map[string]string{
				"lisp.isSingleton": "asks which allocation this is — the question is about storage (may it be written, sealed), not about the value",
				"lisp/lisplib/libschema.isValidator": "an unforgeable credential: the marker cell of a validator must be the package-private marker allocation itself, so that no value a program can build passes for a constraint",
			}
			var obs []Obligation
			for _, u := range c.Funcs(isKernel) {
				if u.Decl == nil || u.Decl.Body == nil {
					continue
				}
				info := u.Pkg.TypesInfo
				ord := &ordinal{}
				ast.Inspect(u.Decl.Body, func(n ast.Node) bool {
					be, ok := n.(*ast.BinaryExpr)
					if !ok || be.Op != token.EQL && be.Op != token.NEQ {
						return true
					}
					tx, okx := info.Types[be.X]
					ty, oky := info.Types[be.Y]
					if !okx || !oky || tx.IsNil() || ty.IsNil() {
						return true
					}
					if !isLValPtr(c, tx.Type) || !isLValPtr(c, ty.Type) {
						return true
					}
					construct := ord.next("pointer comparison " + types.ExprString(be))
					if why, ok := permitted[u.Name()]; ok {
						obs = append(obs, mkOb(c, rid, u, construct, be, Proved, "permitted: "+why, false))
					} else if via, ok := c.privateHelperOf(u.Obj, func(n string) bool { _, p := permitted[n]; return p }, 0); ok {
						obs = append(obs, mkOb(c, rid, u, construct, be, Proved, "private helper of the permitted "+via, false))
					} else {
						obs = append(obs, mkOb(c, rid, u, construct, be, Undecided, "two lisp values are compared by allocation: equal values that live in different allocations (a quoted `false`, a copied element) are told apart, so the decision taken here differs between values the language considers the same", true))
					}
					return true
				})
			}
			return obs
		}})
}
