package main

import (
	"fmt"
	"go/ast"
	"go/token"
	"go/types"
	"strings"
)

// C15, ordering clause.  Values are instants (time.Time); the clause's structural
// half is (1) no code compares time.Time structs with == / != (that compares wall
// clock encoding, monotonic reading and *Location pointer, not the instant), and
// (2) the three comparison builtins and time-from read their operands in mirror
// order: time< is "second after first", time> is "first after second", time= is
// Equal, time-from is second.Sub(first).

func isTimeTime(t types.Type) bool {
	n, ok := types.Unalias(t).(*types.Named)
	return ok && n.Obj().Pkg() != nil && n.Obj().Pkg().Path() == "time" && n.Obj().Name() == "Time"
}

// timeOperandIndex maps a local time.Time variable to the index k of the
// args.Cells[k] whose Native it was asserted from; it follows one same-package
// helper that returns the asserted values.
func timeOperandIndex(c *Ctx, u FuncUnit, argsP types.Object) map[types.Object]int {
	info := u.Pkg.TypesInfo
	out := map[types.Object]int{}
	// cell locals: a := args.Cells[k]
	cell := map[types.Object]int{}
	var cellOf func(e ast.Expr) (int, bool)
	cellOf = func(e ast.Expr) (int, bool) {
		e = ast.Unparen(e)
		if ie, ok := e.(*ast.IndexExpr); ok {
			if se, ok := ast.Unparen(ie.X).(*ast.SelectorExpr); ok && se.Sel.Name == "Cells" && identObj(info, se.X) == argsP {
				if k, ok := intConst(info, ie.Index); ok {
					return k, true
				}
			}
		}
		if o := identObj(info, e); o != nil {
			if k, ok := cell[o]; ok {
				return k, true
			}
		}
		return 0, false
	}
	fromNative := func(e ast.Expr) (int, bool) {
		// X.Native.(time.Time)  |  Get(X) style helper is not followed
		ta, ok := ast.Unparen(e).(*ast.TypeAssertExpr)
		if !ok || ta.Type == nil {
			return 0, false
		}
		if tv, ok := info.Types[ta.Type]; !ok || !isTimeTime(tv.Type) {
			return 0, false
		}
		se, ok := ast.Unparen(ta.X).(*ast.SelectorExpr)
		if !ok || se.Sel.Name != "Native" {
			return 0, false
		}
		return cellOf(se.X)
	}
	for pass := 0; pass < 3; pass++ {
		ast.Inspect(u.Decl.Body, func(n ast.Node) bool {
			as, ok := n.(*ast.AssignStmt)
			if !ok {
				return true
			}
			if len(as.Lhs) == len(as.Rhs) {
				for i, l := range as.Lhs {
					if k, ok := cellOf(as.Rhs[i]); ok {
						if o := identObj(info, l); o != nil {
							cell[o] = k
						}
					}
				}
			}
			if len(as.Rhs) == 1 && len(as.Lhs) == 2 {
				if k, ok := fromNative(as.Rhs[0]); ok {
					if o := identObj(info, as.Lhs[0]); o != nil {
						out[o] = k
					}
				}
			}
			if len(as.Rhs) == 1 && len(as.Lhs) == 1 {
				if k, ok := fromNative(as.Rhs[0]); ok {
					if o := identObj(info, as.Lhs[0]); o != nil {
						out[o] = k
					}
				}
			}
			// helper: t1, t2, err := helper(env, args)
			if len(as.Rhs) == 1 && len(as.Lhs) >= 2 {
				if ce, ok := ast.Unparen(as.Rhs[0]).(*ast.CallExpr); ok {
					fn := originOf(Callee(info, ce))
					if fn != nil && fn.Pkg() == u.Obj.Pkg() {
						if fd := c.declOf[fn]; fd != nil && fd.Body != nil {
							// which helper param receives args?
							hu := FuncUnit{fn, fd, c.pkgOf[fd]}
							var hArgs types.Object
							ps := paramObjs(hu)
							for i, a := range ce.Args {
								if i < len(ps) && identObj(info, a) == argsP {
									hArgs = ps[i]
								}
							}
							if hArgs != nil {
								inner := timeOperandIndex(c, hu, hArgs)
								// result i -> operand index: every return statement agrees
								res := map[int]int{}
								bad := map[int]bool{}
								sig := fn.Type().(*types.Signature)
								named := map[types.Object]int{}
								for i := 0; i < sig.Results().Len(); i++ {
									if sig.Results().At(i).Name() != "" {
										named[sig.Results().At(i)] = i
									}
								}
								ast.Inspect(fd.Body, func(m ast.Node) bool {
									if _, ok := m.(*ast.FuncLit); ok {
										return false
									}
									rs, ok := m.(*ast.ReturnStmt)
									if !ok {
										return true
									}
									for i, r := range rs.Results {
										ro := identObj(hu.Pkg.TypesInfo, r)
										if ro == nil {
											continue
										}
										if k, ok := inner[ro]; ok {
											if prev, seen := res[i]; seen && prev != k {
												bad[i] = true
											}
											res[i] = k
										} else if isTimeTime(ro.Type()) {
											// a named result not yet assigned (zero value on error paths) is fine
											if _, isNamed := named[ro]; !isNamed {
												bad[i] = true
											}
										}
									}
									return true
								})
								for i, l := range as.Lhs {
									if k, ok := res[i]; ok && !bad[i] {
										if o := identObj(info, l); o != nil {
											out[o] = k
										}
									}
								}
							}
						}
					}
				}
			}
			return true
		})
	}
	return out
}

func init() {
	register(&Rule{ID: "TIME.no-struct-compare", Floor: 1,
		Doc: "no == or != between time.Time values (nor a switch on one) anywhere in the kernel: struct comparison looks at the wall-clock encoding, the monotonic reading and the *Location pointer, so one instant written with two offsets would be unequal; instants are compared with Equal/Before/After/Compare",
		Run: func(c *Ctx) []Obligation {
			var obs []Obligation
			ncmp := 0
			for _, u := range c.Funcs(isKernel) {
				info := u.Pkg.TypesInfo
				ord := &ordinal{}
				ast.Inspect(u.Decl.Body, func(n ast.Node) bool {
					switch x := n.(type) {
					case *ast.BinaryExpr:
						if x.Op != token.EQL && x.Op != token.NEQ {
							return true
						}
						tx, ok1 := info.Types[x.X]
						ty, ok2 := info.Types[x.Y]
						if ok1 && ok2 && (isTimeTime(tx.Type) || isTimeTime(ty.Type)) {
							obs = append(obs, mkOb(c, "TIME.no-struct-compare", u, ord.next("time.Time "+x.Op.String()), x, Violated,
								"`"+types.ExprString(x)+"` compares time.Time structs, not instants: the same instant parsed with two different offsets is unequal", true))
						}
					case *ast.SwitchStmt:
						if x.Tag != nil {
							if tv, ok := info.Types[x.Tag]; ok && isTimeTime(tv.Type) {
								obs = append(obs, mkOb(c, "TIME.no-struct-compare", u, ord.next("switch on time.Time"), x, Violated, "switch on a time.Time compares structs, not instants", true))
							}
						}
					case *ast.CallExpr:
						if fn := Callee(info, x); fn != nil && fn.Pkg() != nil && fn.Pkg().Path() == "time" {
							if sig, ok := fn.Type().(*types.Signature); ok && sig.Recv() != nil && isTimeTime(sig.Recv().Type()) {
								switch fn.Name() {
								case "Equal", "Before", "After", "Compare":
									ncmp++
								}
							}
						}
					}
					return true
				})
			}
			obs = append(obs, Obligation{Rule: "TIME.no-struct-compare", Func: "-", Construct: "instant comparisons examined", Verdict: Proved,
				Detail: fmt.Sprintf("%d Equal/Before/After/Compare calls on time.Time in the kernel; struct comparisons listed separately", ncmp)})
			if ncmp < 3 {
				obs = append(obs, Obligation{Rule: "TIME.no-struct-compare", Func: "-", Construct: "coverage", Verdict: Undecided,
					Detail: fmt.Sprintf("only %d instant-comparison calls found (time=, time<, time> alone need 3)", ncmp)})
			}
			return obs
		}})

	register(&Rule{ID: "TIME.order-mirror", Floor: 4,
		Doc: "time=, time<, time> and time-from read their two operands in mirror order: time= is first.Equal(second) (either order); time< is first.Before(second) or second.After(first); time> is first.After(second) or second.Before(first); time-from is second.Sub(first) — so the three predicates partition every pair of instants and agree with the sign of time-from",
		Run: func(c *Ctx) []Obligation {
			type spec struct {
				fn   string
				what string
				ok   func(method string, recv, arg int) bool
			}
			specs := []spec{
				{"lisp/lisplib/libtime.BuiltinTimeEq", "time=", func(m string, r, a int) bool { return m == "Equal" && r != a }},
				{"lisp/lisplib/libtime.BuiltinTimeLT", "time<", func(m string, r, a int) bool {
					return (m == "Before" && r == 0 && a == 1) || (m == "After" && r == 1 && a == 0)
				}},
				{"lisp/lisplib/libtime.BuiltinTimeGT", "time>", func(m string, r, a int) bool {
					return (m == "After" && r == 0 && a == 1) || (m == "Before" && r == 1 && a == 0)
				}},
				{"lisp/lisplib/libtime.BuiltinDurationBetween", "time-from", func(m string, r, a int) bool { return m == "Sub" && r == 1 && a == 0 }},
			}
			var obs []Obligation
			for _, sp := range specs {
				fn, fd, pkg := c.LookupFunc(sp.fn)
				if fn == nil {
					obs = append(obs, anchorMissing("TIME.order-mirror", sp.fn))
					continue
				}
				u := FuncUnit{fn, fd, pkg}
				info := pkg.TypesInfo
				ps := paramObjs(u)
				if len(ps) != 2 {
					obs = append(obs, mkOb(c, "TIME.order-mirror", u, sp.what, fd, Undecided, "not an (env, args) builtin", false))
					continue
				}
				idx := timeOperandIndex(c, u, ps[1])
				// the value-producing returns: returns whose result is not an error constructor call on env
				nres := 0
				for _, rs := range returnsOf(fd.Body) {
					if len(rs.Results) != 1 {
						continue
					}
					// find the time.Time method call inside the result
					var mcall *ast.CallExpr
					ast.Inspect(rs.Results[0], func(n ast.Node) bool {
						ce, ok := n.(*ast.CallExpr)
						if !ok {
							return true
						}
						if f := Callee(info, ce); f != nil && f.Pkg() != nil && f.Pkg().Path() == "time" {
							if sig, ok := f.Type().(*types.Signature); ok && sig.Recv() != nil && isTimeTime(sig.Recv().Type()) {
								mcall = ce
							}
						}
						return true
					})
					usesTime := false
					ast.Inspect(rs.Results[0], func(n ast.Node) bool {
						if id, ok := n.(*ast.Ident); ok {
							if o := info.Uses[id]; o != nil {
								if _, ok := idx[o]; ok {
									usesTime = true
								}
							}
						}
						return true
					})
					if mcall == nil && !usesTime {
						continue // an error return
					}
					nres++
					construct := fmt.Sprintf("%s result#%d", sp.what, nres)
					if mcall == nil {
						obs = append(obs, mkOb(c, "TIME.order-mirror", u, construct, rs, Undecided, "the result uses the time operands without a time.Time method call (`"+types.ExprString(rs.Results[0])+"`): not a recognised comparison idiom", true))
						continue
					}
					se := ast.Unparen(mcall.Fun).(*ast.SelectorExpr)
					ro, ao := identObj(info, se.X), types.Object(nil)
					if len(mcall.Args) == 1 {
						ao = identObj(info, mcall.Args[0])
					}
					ri, rok := idx[ro]
					ai, aok := idx[ao]
					if !rok || !aok {
						obs = append(obs, mkOb(c, "TIME.order-mirror", u, construct, rs, Undecided, "cannot trace `"+types.ExprString(mcall)+"` back to args.Cells[0]/[1]", true))
						continue
					}
					// the method result must be used directly (not negated / compared) except Compare idioms which are not accepted
					direct := false
					if outer, ok := ast.Unparen(rs.Results[0]).(*ast.CallExpr); ok && len(outer.Args) == 1 && ast.Unparen(outer.Args[0]) == ast.Expr(mcall) {
						direct = true
					}
					if direct && sp.ok(se.Sel.Name, ri, ai) {
						obs = append(obs, mkOb(c, "TIME.order-mirror", u, construct, rs, Proved, fmt.Sprintf("%s = operand%d.%s(operand%d)", sp.what, ri, se.Sel.Name, ai), true))
					} else {
						obs = append(obs, mkOb(c, "TIME.order-mirror", u, construct, rs, Violated, fmt.Sprintf("%s is computed as `%s` = operand%d.%s(operand%d)%s: the three predicates no longer partition pairs of instants in agreement with time-from", sp.what, types.ExprString(rs.Results[0]), ri, se.Sel.Name, ai, map[bool]string{true: "", false: " (not used directly)"}[direct]), true))
					}
				}
				if nres == 0 {
					obs = append(obs, mkOb(c, "TIME.order-mirror", u, sp.what, fd, Undecided, "no result built from the two time operands found", true))
				}
			}
			return obs
		}})
}

func returnsOf(body *ast.BlockStmt) []*ast.ReturnStmt {
	var out []*ast.ReturnStmt
	ast.Inspect(body, func(n ast.Node) bool {
		if _, ok := n.(*ast.FuncLit); ok {
			return false
		}
		if rs, ok := n.(*ast.ReturnStmt); ok {
			out = append(out, rs)
		}
		return true
	})
	return out
}

func init() {
	register(&Rule{ID: "TIME.strict-parse", Floor: 2,
		Doc: "every time.Parse with an RFC 3339 layout in libtime is dominated by a strictness check of the very string it parses (a same-package function returning error, whose error is returned): time.Parse with these layouts is lenient by design (golang/go#54580) — it accepts a comma fraction separator, a one-digit hour, offsets such as +24:60 and silently drops a tenth fractional digit — so without the check the parser accepts malformed timestamps and format∘parse can produce a string the parser refuses",
		Run: func(c *Ctx) []Obligation {
			var obs []Obligation
			for _, u := range c.Funcs(func(p string) bool { return rel(p) == "lisp/lisplib/libtime" }) {
				info := u.Pkg.TypesInfo
				fc := c.cfgOf(u, nil)
				ord := &ordinal{}
				for _, b := range fc.G.Blocks {
					if !fc.Live(b) {
						continue
					}
					for _, n := range b.Nodes {
						for _, ce := range callsIn(n, false) {
							if !stdFuncCalled(info, ce, "time", "Parse") || len(ce.Args) != 2 {
								continue
							}
							lay := identObjOrSel(info, ce.Args[0])
							if lay == nil || lay.Pkg() == nil || lay.Pkg().Path() != "time" || !strings.HasPrefix(lay.Name(), "RFC3339") {
								continue
							}
							construct := ord.next("time.Parse(" + lay.Name() + ")")
							str := types.ExprString(ce.Args[1])
							// a dominating check: err := f(str) (same package, returns error) with the non-nil edge returning
							okCheck := false
							for _, ob := range fc.G.Blocks {
								if !fc.Live(ob) || !fc.BlockDominates(ob, b) || ob == b {
									continue
								}
								for _, on := range ob.Nodes {
									as, ok := on.(*ast.AssignStmt)
									if !ok || len(as.Lhs) != 1 || len(as.Rhs) != 1 {
										continue
									}
									vc, ok := ast.Unparen(as.Rhs[0]).(*ast.CallExpr)
									if !ok || len(vc.Args) != 1 || types.ExprString(vc.Args[0]) != str {
										continue
									}
									vf := originOf(Callee(info, vc))
									if vf == nil || vf.Pkg() != u.Obj.Pkg() {
										continue
									}
									sig := vf.Type().(*types.Signature)
									if sig.Results().Len() != 1 || sig.Results().At(0).Type().String() != "error" {
										continue
									}
									errObj := identObj(info, as.Lhs[0])
									// the non-nil edge returns
									for _, e := range fc.nilEdges(errObj, false) {
										if fc.edgeReturns(e, nil) && fc.BlockDominates(e.B, b) {
											okCheck = true
										}
									}
								}
							}
							if okCheck {
								obs = append(obs, mkOb(c, "TIME.strict-parse", u, construct, ce, Proved, "dominated by a strictness check of `"+str+"` whose error is returned", true))
							} else {
								obs = append(obs, mkOb(c, "TIME.strict-parse", u, construct, ce, Violated, "time.Parse with an RFC 3339 layout is lenient and nothing stricter looked at `"+str+"` first: \"2000-01-01T1:02:03Z\", \"...00,5Z\" and \"...+24:60\" are accepted", true))
							}
						}
					}
				}
			}
			return obs
		}})
}
