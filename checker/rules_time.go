package main

import (
	"fmt"
	"go/ast"
	"go/token"
	"go/types"
	"regexp"
	"strings"
)

// C15, ordering clause.  Values are instants (time.Time); the clause's structural
// half is (1) no code compares time.Time structs with == / != (that compares wall
// clock encoding, monotonic reading and *Location pointer, not the instant), and
// (2) the three comparison builtins and time-from read their operands in mirror
// order: time< is "second after first", time> is "first after second", time= is
// Equal, time-from is second.Sub(first).

func isTimeTime(t types.Type) bool {
	n, ok := types.Unalias(t).(*types.Named)
	return ok && n.Obj().Pkg() != nil && n.Obj().Pkg().Path() == "time" && n.Obj().Name() == "Time"
}

// timeOperandIndex maps a local time.Time variable to the index k of the
// args.Cells[k] whose Native it was asserted from; it follows one same-package
// helper that returns the asserted values.
func timeOperandIndex(c *Ctx, u FuncUnit, argsP types.Object) map[types.Object]int {
	return timeOperandIndexSeeded(c, u, argsP, nil, 0)
}

// timeOperandIndexSeeded: seed maps parameters of u that ARE argument cells
// (a helper called as timePair(env, args.Cells[0], args.Cells[1])) to their index.
func timeOperandIndexSeeded(c *Ctx, u FuncUnit, argsP types.Object, seed map[types.Object]int, depth int) map[types.Object]int {
	info := u.Pkg.TypesInfo
	out := map[types.Object]int{}
	// cell locals: a := args.Cells[k]
	cell := map[types.Object]int{}
	for o, k := range seed {
		cell[o] = k
	}
	var cellOf func(e ast.Expr) (int, bool)
	cellOf = func(e ast.Expr) (int, bool) {
		e = ast.Unparen(e)
		if ie, ok := e.(*ast.IndexExpr); ok {
			if se, ok := ast.Unparen(ie.X).(*ast.SelectorExpr); ok && se.Sel.Name == "Cells" && argsP != nil && identObj(info, se.X) == argsP {
				if k, ok := intConst(info, ie.Index); ok {
					return k, true
				}
			}
		}
		if o := identObj(info, e); o != nil {
			if k, ok := cell[o]; ok {
				return k, true
			}
		}
		return 0, false
	}
	fromNative := func(e ast.Expr) (int, bool) {
		// X.Native.(time.Time)  |  Get(X) style helper is not followed
		ta, ok := ast.Unparen(e).(*ast.TypeAssertExpr)
		if !ok || ta.Type == nil {
			return 0, false
		}
		if tv, ok := info.Types[ta.Type]; !ok || !isTimeTime(tv.Type) {
			return 0, false
		}
		se, ok := ast.Unparen(ta.X).(*ast.SelectorExpr)
		if !ok || se.Sel.Name != "Native" {
			return 0, false
		}
		return cellOf(se.X)
	}
	for pass := 0; pass < 3; pass++ {
		ast.Inspect(u.Decl.Body, func(n ast.Node) bool {
			as, ok := n.(*ast.AssignStmt)
			if !ok {
				return true
			}
			if len(as.Lhs) == len(as.Rhs) {
				for i, l := range as.Lhs {
					if k, ok := cellOf(as.Rhs[i]); ok {
						if o := identObj(info, l); o != nil {
							cell[o] = k
						}
					}
				}
			}
			if len(as.Rhs) == 1 && len(as.Lhs) == 2 {
				if k, ok := fromNative(as.Rhs[0]); ok {
					if o := identObj(info, as.Lhs[0]); o != nil {
						out[o] = k
					}
				}
			}
			if len(as.Rhs) == 1 && len(as.Lhs) == 1 {
				if k, ok := fromNative(as.Rhs[0]); ok {
					if o := identObj(info, as.Lhs[0]); o != nil {
						out[o] = k
					}
				}
			}
			// helper: t1, t2, err := helper(env, args)
			if len(as.Rhs) == 1 && len(as.Lhs) >= 2 {
				if ce, ok := ast.Unparen(as.Rhs[0]).(*ast.CallExpr); ok {
					res := helperResultCells(c, u, argsP, cellOf, ce, depth)
					for i, l := range as.Lhs {
						if k, ok := res[i]; ok {
							if o := identObj(info, l); o != nil {
								out[o] = k
							}
						}
					}
				}
			}
			return true
		})
	}
	return out
}

func init() {
	register(&Rule{ID: "TIME.no-struct-compare", Floor: 1,
		Doc: "no == or != between time.Time values (nor a switch on one) anywhere in the kernel: struct comparison looks at the wall-clock encoding, the monotonic reading and the *Location pointer, so one instant written with two offsets would be unequal; instants are compared with Equal/Before/After/Compare",
		Run: func(c *Ctx) []Obligation {
			var obs []Obligation
			ncmp := 0
			for _, u := range c.Funcs(isKernel) {
				info := u.Pkg.TypesInfo
				ord := &ordinal{}
				ast.Inspect(u.Decl.Body, func(n ast.Node) bool {
					switch x := n.(type) {
					case *ast.BinaryExpr:
						if x.Op != token.EQL && x.Op != token.NEQ {
							return true
						}
						tx, ok1 := info.Types[x.X]
						ty, ok2 := info.Types[x.Y]
						if ok1 && ok2 && (isTimeTime(tx.Type) || isTimeTime(ty.Type)) {
							obs = append(obs, mkOb(c, "TIME.no-struct-compare", u, ord.next("time.Time "+x.Op.String()), x, Violated,
								"`"+types.ExprString(x)+"` compares time.Time structs, not instants: the same instant parsed with two different offsets is unequal", true))
						}
					case *ast.SwitchStmt:
						if x.Tag != nil {
							if tv, ok := info.Types[x.Tag]; ok && isTimeTime(tv.Type) {
								obs = append(obs, mkOb(c, "TIME.no-struct-compare", u, ord.next("switch on time.Time"), x, Violated, "switch on a time.Time compares structs, not instants", true))
							}
						}
					case *ast.SelectorExpr:
						// a call a.Before(b), and equally the method expression time.Time.Before handed to a
						// shared comparison body
						if fn, ok := info.Uses[x.Sel].(*types.Func); ok && fn.Pkg() != nil && fn.Pkg().Path() == "time" {
							if sig, ok := fn.Type().(*types.Signature); ok && sig.Recv() != nil && isTimeTime(sig.Recv().Type()) {
								switch fn.Name() {
								case "Equal", "Before", "After", "Compare":
									ncmp++
								}
							}
						}
					}
					return true
				})
			}
			obs = append(obs, Obligation{Rule: "TIME.no-struct-compare", Func: "-", Construct: "instant comparisons examined", Verdict: Proved,
				Detail: fmt.Sprintf("%d Equal/Before/After/Compare calls on time.Time in the kernel; struct comparisons listed separately", ncmp)})
			if ncmp < 1 {
				// (the three predicates may share one Compare call; TIME.order-mirror decides what each of them computes)
				obs = append(obs, Obligation{Rule: "TIME.no-struct-compare", Func: "-", Construct: "coverage", Verdict: Undecided,
					Detail: fmt.Sprintf("only %d instant-comparison calls found (time=, time<, time> need at least one)", ncmp)})
			}
			return obs
		}})

	register(&Rule{ID: "TIME.order-mirror", Floor: 4,
		Doc: "time=, time<, time> and time-from read their two operands in mirror order: time= is first.Equal(second) (either order); time< is first.Before(second) or second.After(first); time> is first.After(second) or second.Before(first); time-from is second.Sub(first) — so the three predicates partition every pair of instants and agree with the sign of time-from",
		Run: func(c *Ctx) []Obligation {
			type spec struct {
				fn   string
				what string
				ok   func(method string, recv, arg int) bool
				rel  string // the relation operand0 REL operand1 the predicate must compute ("" for time-from)
			}
			specs := []spec{
				{"lisp/lisplib/libtime.BuiltinTimeEq", "time=", func(m string, r, a int) bool { return m == "Equal" && r != a }, "=="},
				{"lisp/lisplib/libtime.BuiltinTimeLT", "time<", func(m string, r, a int) bool {
					return (m == "Before" && r == 0 && a == 1) || (m == "After" && r == 1 && a == 0)
				}, "<"},
				{"lisp/lisplib/libtime.BuiltinTimeGT", "time>", func(m string, r, a int) bool {
					return (m == "After" && r == 0 && a == 1) || (m == "Before" && r == 1 && a == 0)
				}, ">"},
				{"lisp/lisplib/libtime.BuiltinDurationBetween", "time-from", func(m string, r, a int) bool { return m == "Sub" && r == 1 && a == 0 }, ""},
			}
			var obs []Obligation
			for _, sp := range specs {
				fn, fd, pkg := c.LookupFunc(sp.fn)
				if fn == nil {
					obs = append(obs, anchorMissing("TIME.order-mirror", sp.fn))
					continue
				}
				u := FuncUnit{fn, fd, pkg}
				info := pkg.TypesInfo
				ps := paramObjs(u)
				if len(ps) != 2 {
					obs = append(obs, mkOb(c, "TIME.order-mirror", u, sp.what, fd, Undecided, "not an (env, args) builtin", false))
					continue
				}
				idx := timeOperandIndex(c, u, ps[1])
				// the value-producing returns: returns whose result is not an error constructor call on env
				nres := 0
				for _, rs := range returnsOf(fd.Body) {
					if len(rs.Results) != 1 {
						continue
					}
					// find the time.Time method call inside the result
					var mcall *ast.CallExpr
					ast.Inspect(rs.Results[0], func(n ast.Node) bool {
						ce, ok := n.(*ast.CallExpr)
						if !ok {
							return true
						}
						if f := Callee(info, ce); f != nil && f.Pkg() != nil && f.Pkg().Path() == "time" {
							if sig, ok := f.Type().(*types.Signature); ok && sig.Recv() != nil && isTimeTime(sig.Recv().Type()) {
								mcall = ce
							}
						}
						return true
					})
					usesTime := false
					ast.Inspect(rs.Results[0], func(n ast.Node) bool {
						if id, ok := n.(*ast.Ident); ok {
							if o := info.Uses[id]; o != nil {
								if _, ok := idx[o]; ok {
									usesTime = true
								}
							}
						}
						return true
					})
					if mcall == nil && !usesTime {
						continue // an error return
					}
					nres++
					construct := fmt.Sprintf("%s result#%d", sp.what, nres)
					if mcall == nil && sp.rel != "" {
						// `lisp.Bool(compareTimes(t1, t2) < 0)`: a pure three-way helper over two time values
						// (`return a.Compare(b)`) tested against zero in place
						if o, ok := timeOrderViaPureCompare(c, u, idx, sp.what, sp.rel, rs, construct); ok {
							obs = append(obs, o)
							continue
						}
					}
					if mcall == nil {
						obs = append(obs, mkOb(c, "TIME.order-mirror", u, construct, rs, Undecided, "the result uses the time operands without a time.Time method call (`"+types.ExprString(rs.Results[0])+"`): not a recognised comparison idiom", true))
						continue
					}
					se := ast.Unparen(mcall.Fun).(*ast.SelectorExpr)
					ro, ao := identObj(info, se.X), types.Object(nil)
					if len(mcall.Args) == 1 {
						ao = identObj(info, mcall.Args[0])
					}
					ri, rok := idx[ro]
					ai, aok := idx[ao]
					if !rok || !aok {
						obs = append(obs, mkOb(c, "TIME.order-mirror", u, construct, rs, Undecided, "cannot trace `"+types.ExprString(mcall)+"` back to args.Cells[0]/[1]", true))
						continue
					}
					// the three-way idiom: Bool(x.Compare(y) OP 0) is x OP y
					if se.Sel.Name == "Compare" && sp.rel != "" {
						if outer, ok := ast.Unparen(rs.Results[0]).(*ast.CallExpr); ok && len(outer.Args) == 1 {
							if rel, ok := signTestRelation(info, outer.Args[0], func(e ast.Expr) bool { return ast.Unparen(e) == ast.Expr(mcall) }); ok {
								if ri == 1 && ai == 0 {
									rel = mirrorRel(rel)
								}
								if ri != ai && rel == sp.rel {
									obs = append(obs, mkOb(c, "TIME.order-mirror", u, construct, rs, Proved, fmt.Sprintf("%s = operand%d.Compare(operand%d) tested against 0: operand0 %s operand1", sp.what, ri, ai, rel), true))
								} else {
									obs = append(obs, mkOb(c, "TIME.order-mirror", u, construct, rs, Violated, fmt.Sprintf("%s is computed as `%s`, i.e. operand0 %s operand1, not operand0 %s operand1: the three predicates no longer partition pairs of instants in agreement with time-from", sp.what, types.ExprString(rs.Results[0]), rel, sp.rel), true))
								}
								continue
							}
						}
					}
					// the method result must be used directly (not negated / compared)
					direct := false
					if outer, ok := ast.Unparen(rs.Results[0]).(*ast.CallExpr); ok && len(outer.Args) == 1 && ast.Unparen(outer.Args[0]) == ast.Expr(mcall) {
						direct = true
					}
					if direct && sp.ok(se.Sel.Name, ri, ai) {
						obs = append(obs, mkOb(c, "TIME.order-mirror", u, construct, rs, Proved, fmt.Sprintf("%s = operand%d.%s(operand%d)", sp.what, ri, se.Sel.Name, ai), true))
					} else {
						obs = append(obs, mkOb(c, "TIME.order-mirror", u, construct, rs, Violated, fmt.Sprintf("%s is computed as `%s` = operand%d.%s(operand%d)%s: the three predicates no longer partition pairs of instants in agreement with time-from", sp.what, types.ExprString(rs.Results[0]), ri, se.Sel.Name, ai, map[bool]string{true: "", false: " (not used directly)"}[direct]), true))
					}
				}
				if nres == 0 {
					// the comparison may be handed, as a method expression, to a body shared by the three
					// predicates: `return compareTimes(env, args, time.Time.Before)` with
					// `lisp.Bool(holds(t1, t2))` inside — holds(a, b) is a.Before(b)
					if o, ok := timeOrderViaMethodExpr(c, u, ps[1], sp.what, sp.ok); ok {
						obs = append(obs, o)
						continue
					}
					if o, ok := timeOrderViaSignPredicate(c, u, ps[1], sp.what, sp.rel); ok && sp.rel != "" {
						obs = append(obs, o)
						continue
					}
					if o, ok := timeOrderViaThreeWayHelper(c, u, ps[1], sp.what, sp.rel); ok && sp.rel != "" {
						obs = append(obs, o)
						continue
					}
					obs = append(obs, mkOb(c, "TIME.order-mirror", u, sp.what, fd, Undecided, "no result built from the two time operands found", true))
				}
			}
			return obs
		}})
}

// timeOrderViaMethodExpr: u returns H(…, args, …, time.Time.M, …) and H returns a value built directly from
// f(x, y) with f the parameter that received the method expression and x, y time operands traced to the
// argument cells: the predicate is operand(x).M(operand(y)).
func timeOrderViaMethodExpr(c *Ctx, u FuncUnit, argsP types.Object, what string, okf func(method string, recv, arg int) bool) (Obligation, bool) {
	info := u.Pkg.TypesInfo
	for _, rs := range returnsOf(u.Decl.Body) {
		if len(rs.Results) != 1 {
			continue
		}
		ce, ok := ast.Unparen(rs.Results[0]).(*ast.CallExpr)
		if !ok {
			continue
		}
		h := originOf(Callee(info, ce))
		if h == nil || h.Pkg() != u.Obj.Pkg() {
			continue
		}
		hd := c.declOf[h]
		if hd == nil || hd.Body == nil {
			continue
		}
		hu := FuncUnit{h, hd, c.pkgOf[hd]}
		hps := paramObjs(hu)
		var hArgs, hFn types.Object
		method := ""
		for i, a := range ce.Args {
			if i >= len(hps) {
				continue
			}
			if identObj(info, a) == argsP {
				hArgs = hps[i]
			}
			if se, ok := ast.Unparen(a).(*ast.SelectorExpr); ok {
				if mf, ok := info.Uses[se.Sel].(*types.Func); ok && mf.Pkg() != nil && mf.Pkg().Path() == "time" {
					if sig, ok := mf.Type().(*types.Signature); ok && sig.Recv() != nil && isTimeTime(sig.Recv().Type()) {
						// a method EXPRESSION: the selector's operand is the type
						if tv, ok := info.Types[se.X]; ok && tv.IsType() {
							hFn, method = hps[i], mf.Name()
						}
					}
				}
			}
		}
		if hArgs == nil || hFn == nil {
			continue
		}
		hinfo := hu.Pkg.TypesInfo
		idx := timeOperandIndex(c, hu, hArgs)
		for _, hr := range returnsOf(hd.Body) {
			if len(hr.Results) != 1 {
				continue
			}
			outer, ok := ast.Unparen(hr.Results[0]).(*ast.CallExpr)
			if !ok || len(outer.Args) != 1 {
				continue
			}
			inner, ok := ast.Unparen(outer.Args[0]).(*ast.CallExpr)
			if !ok || identObj(hinfo, inner.Fun) != hFn || len(inner.Args) != 2 {
				continue
			}
			ri, rok := idx[identObj(hinfo, inner.Args[0])]
			ai, aok := idx[identObj(hinfo, inner.Args[1])]
			if !rok || !aok {
				return mkOb(c, "TIME.order-mirror", u, what+" result#1", hr, Undecided, "cannot trace the operands of `"+types.ExprString(inner)+"` in "+hu.Name()+" back to args.Cells[0]/[1]", true), true
			}
			if okf(method, ri, ai) {
				return mkOb(c, "TIME.order-mirror", u, what+" result#1", hr, Proved, fmt.Sprintf("%s = operand%d.%s(operand%d), through the method expression handed to %s", what, ri, method, ai, hu.Name()), true), true
			}
			return mkOb(c, "TIME.order-mirror", u, what+" result#1", hr, Violated, fmt.Sprintf("%s is computed as operand%d.%s(operand%d) (method expression handed to %s): the three predicates no longer partition pairs of instants in agreement with time-from", what, ri, method, ai, hu.Name()), true), true
		}
	}
	return Obligation{}, false
}

// signTestRelation: e is `S OP 0` (or `0 OP S`) with S accepted by isSign and OP one of == != < <= > >=;
// the relation is returned as it reads with S on the left.
func signTestRelation(info *types.Info, e ast.Expr, isSign func(ast.Expr) bool) (string, bool) {
	be, ok := ast.Unparen(e).(*ast.BinaryExpr)
	if !ok {
		return "", false
	}
	switch be.Op {
	case token.EQL, token.NEQ, token.LSS, token.LEQ, token.GTR, token.GEQ:
	default:
		return "", false
	}
	if k, isC := intConst(info, be.Y); isC && k == 0 && isSign(be.X) {
		return be.Op.String(), true
	}
	if k, isC := intConst(info, be.X); isC && k == 0 && isSign(be.Y) {
		return mirrorRel(be.Op.String()), true
	}
	return "", false
}

func mirrorRel(r string) string {
	switch r {
	case "<":
		return ">"
	case ">":
		return "<"
	case "<=":
		return ">="
	case ">=":
		return "<="
	}
	return r
}

// timeOrderViaSignPredicate: u returns H(…, args, …, func(sign int) bool { return sign OP 0 }) and H
// returns a value built directly from holds(x.Compare(y)), holds being the parameter that received
// the literal and x, y time operands traced to the argument cells: the predicate is x OP y.
func timeOrderViaSignPredicate(c *Ctx, u FuncUnit, argsP types.Object, what, want string) (Obligation, bool) {
	info := u.Pkg.TypesInfo
	for _, rs := range returnsOf(u.Decl.Body) {
		if len(rs.Results) != 1 {
			continue
		}
		ce, ok := ast.Unparen(rs.Results[0]).(*ast.CallExpr)
		if !ok {
			continue
		}
		h := originOf(Callee(info, ce))
		if h == nil || h.Pkg() != u.Obj.Pkg() {
			continue
		}
		hd := c.declOf[h]
		if hd == nil || hd.Body == nil {
			continue
		}
		hu := FuncUnit{h, hd, c.pkgOf[hd]}
		hps := paramObjs(hu)
		var hArgs, hFn types.Object
		rel := ""
		for i, a := range ce.Args {
			if i >= len(hps) {
				continue
			}
			if identObj(info, a) == argsP {
				hArgs = hps[i]
			}
			if fl, ok := ast.Unparen(a).(*ast.FuncLit); ok && fl.Type.Params != nil && len(fl.Type.Params.List) == 1 && len(fl.Type.Params.List[0].Names) == 1 && len(fl.Body.List) == 1 {
				sp := info.Defs[fl.Type.Params.List[0].Names[0]]
				if r, ok := fl.Body.List[0].(*ast.ReturnStmt); ok && len(r.Results) == 1 && sp != nil {
					if rr, ok := signTestRelation(info, r.Results[0], func(e ast.Expr) bool { return identObj(info, e) == sp }); ok {
						hFn, rel = hps[i], rr
					}
				}
			}
		}
		if hArgs == nil || hFn == nil {
			continue
		}
		hinfo := hu.Pkg.TypesInfo
		idx := timeOperandIndex(c, hu, hArgs)
		for _, hr := range returnsOf(hd.Body) {
			if len(hr.Results) != 1 {
				continue
			}
			outer, ok := ast.Unparen(hr.Results[0]).(*ast.CallExpr)
			if !ok || len(outer.Args) != 1 {
				continue
			}
			inner, ok := ast.Unparen(outer.Args[0]).(*ast.CallExpr)
			if !ok || identObj(hinfo, inner.Fun) != hFn || len(inner.Args) != 1 {
				continue
			}
			cmp, ok := ast.Unparen(inner.Args[0]).(*ast.CallExpr)
			if !ok || len(cmp.Args) != 1 {
				continue
			}
			se, ok := ast.Unparen(cmp.Fun).(*ast.SelectorExpr)
			if !ok || se.Sel.Name != "Compare" {
				continue
			}
			if f := Callee(hinfo, cmp); f == nil || f.Pkg() == nil || f.Pkg().Path() != "time" {
				continue
			}
			ri, rok := idx[identObj(hinfo, se.X)]
			ai, aok := idx[identObj(hinfo, cmp.Args[0])]
			if !rok || !aok || ri == ai {
				return mkOb(c, "TIME.order-mirror", u, what+" result#1", hr, Undecided, "cannot trace the operands of `"+types.ExprString(cmp)+"` in "+hu.Name()+" back to args.Cells[0]/[1]", true), true
			}
			if ri == 1 {
				rel = mirrorRel(rel)
			}
			if rel == want {
				return mkOb(c, "TIME.order-mirror", u, what+" result#1", hr, Proved, fmt.Sprintf("%s = operand0 %s operand1, through the sign test handed to %s over operand%d.Compare(operand%d)", what, rel, hu.Name(), ri, ai), true), true
			}
			return mkOb(c, "TIME.order-mirror", u, what+" result#1", hr, Violated, fmt.Sprintf("%s is computed as operand0 %s operand1 (sign test handed to %s), not operand0 %s operand1: the three predicates no longer partition pairs of instants in agreement with time-from", what, rel, hu.Name(), want), true), true
		}
	}
	return Obligation{}, false
}

// timeOrderViaThreeWayHelper: `cmp, lerr := compareTimes(env, args.Cells[0], args.Cells[1])` …
// `return lisp.Bool(cmp OP 0)`, the helper's value returns being p.Compare(q) with p and q traced to the
// cells it was handed: the predicate is operand(p) OP operand(q).
func timeOrderViaThreeWayHelper(c *Ctx, u FuncUnit, argsP types.Object, what, want string) (Obligation, bool) {
	info := u.Pkg.TypesInfo
	for _, rs := range returnsOf(u.Decl.Body) {
		if len(rs.Results) != 1 {
			continue
		}
		outer, ok := ast.Unparen(rs.Results[0]).(*ast.CallExpr)
		if !ok || len(outer.Args) != 1 {
			continue
		}
		var cmpObj types.Object
		rel, ok := signTestRelation(info, outer.Args[0], func(e ast.Expr) bool {
			if o := identObj(info, e); o != nil {
				cmpObj = o
				return true
			}
			return false
		})
		if !ok || cmpObj == nil {
			continue
		}
		dc, idx, ndef := definingCall(info, u.Decl.Body, cmpObj)
		if dc == nil || ndef != 1 {
			continue
		}
		h := originOf(Callee(info, dc))
		hd := c.declOf[h]
		if h == nil || hd == nil || hd.Body == nil || h.Pkg() != u.Obj.Pkg() {
			continue
		}
		hu := FuncUnit{h, hd, c.pkgOf[hd]}
		hinfo := hu.Pkg.TypesInfo
		hps := paramObjs(hu)
		// seed: helper parameters that receive args.Cells[k] (or args itself)
		var hArgs types.Object
		seed := map[types.Object]int{}
		for i, a := range dc.Args {
			if i >= len(hps) {
				break
			}
			if identObj(info, a) == argsP {
				hArgs = hps[i]
			}
			if ie, ok := ast.Unparen(a).(*ast.IndexExpr); ok {
				if se, ok := ast.Unparen(ie.X).(*ast.SelectorExpr); ok && se.Sel.Name == "Cells" && identObj(info, se.X) == argsP {
					if k, ok := intConst(info, ie.Index); ok {
						seed[hps[i]] = k
					}
				}
			} else if o := identObj(info, a); o != nil {
				// a local defined as args.Cells[k]
				if d := soleDef(info, u.Decl.Body, a); d != nil {
					if ie, ok := ast.Unparen(d).(*ast.IndexExpr); ok {
						if se, ok := ast.Unparen(ie.X).(*ast.SelectorExpr); ok && se.Sel.Name == "Cells" && identObj(info, se.X) == argsP {
							if k, ok := intConst(info, ie.Index); ok {
								seed[hps[i]] = k
							}
						}
					}
				}
			}
		}
		tidx := timeOperandIndexSeeded(c, hu, hArgs, seed, 1)
		good, n := true, 0
		ri, ai := -1, -1
		for _, hr := range returnsOf(hd.Body) {
			if idx >= len(hr.Results) {
				good = false
				continue
			}
			r := ast.Unparen(hr.Results[idx])
			if k, isC := intConst(hinfo, r); isC && k == 0 {
				continue // the error returns
			}
			cmp, ok := r.(*ast.CallExpr)
			if !ok || len(cmp.Args) != 1 {
				good = false
				continue
			}
			se, ok := ast.Unparen(cmp.Fun).(*ast.SelectorExpr)
			f := Callee(hinfo, cmp)
			if !ok || se.Sel.Name != "Compare" || f == nil || f.Pkg() == nil || f.Pkg().Path() != "time" {
				good = false
				continue
			}
			a, aok := tidx[identObj(hinfo, se.X)]
			b, bok := tidx[identObj(hinfo, cmp.Args[0])]
			if !aok || !bok || a == b || (n > 0 && (a != ri || b != ai)) {
				good = false
				continue
			}
			ri, ai = a, b
			n++
		}
		if !good || n == 0 {
			return mkOb(c, "TIME.order-mirror", u, what+" result#1", rs, Undecided, "the three-way helper "+hu.Name()+" does not return operand.Compare(operand) of the two argument cells on every value path", true), true
		}
		if ri == 1 {
			rel = mirrorRel(rel)
		}
		if rel == want {
			return mkOb(c, "TIME.order-mirror", u, what+" result#1", rs, Proved, fmt.Sprintf("%s = operand0 %s operand1, through %s = operand%d.Compare(operand%d) tested against 0", what, rel, hu.Name(), ri, ai), true), true
		}
		return mkOb(c, "TIME.order-mirror", u, what+" result#1", rs, Violated, fmt.Sprintf("%s is computed as operand0 %s operand1 (three-way result of %s tested against 0), not operand0 %s operand1: the three predicates no longer partition pairs of instants in agreement with time-from", what, rel, hu.Name(), want), true), true
	}
	return Obligation{}, false
}

func returnsOf(body *ast.BlockStmt) []*ast.ReturnStmt {
	var out []*ast.ReturnStmt
	ast.Inspect(body, func(n ast.Node) bool {
		if _, ok := n.(*ast.FuncLit); ok {
			return false
		}
		if rs, ok := n.(*ast.ReturnStmt); ok {
			out = append(out, rs)
		}
		return true
	})
	return out
}

func init() {
	register(&Rule{ID: "TIME.strict-parse", Floor: 1,
		Doc: "every time.Parse with an RFC 3339 layout in libtime is dominated by a strictness check of the very string it parses (a same-package function returning error, whose error is returned): time.Parse with these layouts is lenient by design (golang/go#54580) — it accepts a comma fraction separator, a one-digit hour, offsets such as +24:60 and silently drops a tenth fractional digit — so without the check the parser accepts malformed timestamps and format∘parse can produce a string the parser refuses",
		Run: func(c *Ctx) []Obligation {
			var obs []Obligation
			for _, u := range c.Funcs(func(p string) bool { return rel(p) == "lisp/lisplib/libtime" }) {
				info := u.Pkg.TypesInfo
				fc := c.cfgOf(u, nil)
				ord := &ordinal{}
				for _, b := range fc.G.Blocks {
					if !fc.Live(b) {
						continue
					}
					for _, n := range b.Nodes {
						for _, ce := range callsIn(n, false) {
							if !stdFuncCalled(info, ce, "time", "Parse") || len(ce.Args) != 2 {
								continue
							}
							isRFC := func(info *types.Info, e ast.Expr) (string, bool) {
								lay := identObjOrSel(info, e)
								if lay == nil || lay.Pkg() == nil || lay.Pkg().Path() != "time" || !strings.HasPrefix(lay.Name(), "RFC3339") {
									return "", false
								}
								return lay.Name(), true
							}
							layName, isLay := isRFC(info, ce.Args[0])
							if !isLay {
								// the layout may be a parameter of a shared body: every caller passes an RFC 3339 layout
								if po := identObj(info, ce.Args[0]); po != nil {
									for k, pp := range paramObjs(u) {
										if pp != po {
											continue
										}
										sites, refs := c.CallsTo(nil, u.Obj)
										all := len(sites) > 0 && len(refs) == 0
										for _, st := range sites {
											if k >= len(st.Call.Args) {
												all = false
												continue
											}
											if _, ok := isRFC(st.Unit.Pkg.TypesInfo, st.Call.Args[k]); !ok {
												all = false
											}
										}
										if all {
											layName, isLay = "RFC3339 layout parameter", true
										}
									}
								}
							}
							if !isLay {
								continue
							}
							construct := ord.next("time.Parse(" + layName + ")")
							str := types.ExprString(ce.Args[1])
							// a dominating check: err := f(str) (same package, returns error) with the non-nil edge returning
							okCheck := false
							for _, ob := range fc.G.Blocks {
								if !fc.Live(ob) || !fc.BlockDominates(ob, b) || ob == b {
									continue
								}
								for _, on := range ob.Nodes {
									as, ok := on.(*ast.AssignStmt)
									if !ok || len(as.Lhs) != 1 || len(as.Rhs) != 1 {
										continue
									}
									vc, ok := ast.Unparen(as.Rhs[0]).(*ast.CallExpr)
									if !ok || len(vc.Args) != 1 || types.ExprString(vc.Args[0]) != str {
										continue
									}
									vf := originOf(Callee(info, vc))
									if vf == nil || vf.Pkg() != u.Obj.Pkg() {
										continue
									}
									sig := vf.Type().(*types.Signature)
									if sig.Results().Len() != 1 || sig.Results().At(0).Type().String() != "error" {
										continue
									}
									errObj := identObj(info, as.Lhs[0])
									// the non-nil edge returns
									for _, e := range fc.nilEdges(errObj, false) {
										if fc.edgeReturns(e, nil) && fc.BlockDominates(e.B, b) {
											okCheck = true
										}
									}
								}
							}
							if okCheck {
								obs = append(obs, mkOb(c, "TIME.strict-parse", u, construct, ce, Proved, "dominated by a strictness check of `"+str+"` whose error is returned", true))
							} else {
								obs = append(obs, mkOb(c, "TIME.strict-parse", u, construct, ce, Violated, "time.Parse with an RFC 3339 layout is lenient and nothing stricter looked at `"+str+"` first: \"2000-01-01T1:02:03Z\", \"...00,5Z\" and \"...+24:60\" are accepted", true))
							}
						}
					}
				}
			}
			return obs
		}})
}

// TIME.offset-range — C15 ("out-of-range fields are rejected"): time.Parse
// accepts a zone offset such as +24:60, so the strictness check in front of it
// must refuse one.  The check can do that in code (comparing the offset's
// digits with "23" and "59") or in the shape pattern itself; when it is the
// pattern, the pattern is a constant and what it matches is decidable here.
func init() {
	register(&Rule{ID: "TIME.offset-range", Floor: 1,
		Doc: "the RFC 3339 strictness check of libtime refuses every numeric zone offset whose hour exceeds 23 or whose minute exceeds 59: either it compares the offset fields with the constants \"23\" and \"59\" and returns an error, or the constant shape pattern it matches against (compiled here from its literal) rejects all 10,000 two-digit hour/minute combinations outside that range",
		Run: func(c *Ctx) []Obligation {
			const rid = "TIME.offset-range"
			fn, fd, pkg := c.LookupFunc("lisp/lisplib/libtime.checkRFC3339")
			if fn == nil {
				return []Obligation{anchorMissing(rid, "libtime.checkRFC3339")}
			}
			u := FuncUnit{fn, fd, pkg}
			info := pkg.TypesInfo
			// (a) explicit comparison with "23" and "59" guarding an error return
			has23, has59 := false, false
			ast.Inspect(fd.Body, func(n ast.Node) bool {
				is, ok := n.(*ast.IfStmt)
				if !ok || len(is.Body.List) == 0 {
					return true
				}
				if _, isRet := is.Body.List[len(is.Body.List)-1].(*ast.ReturnStmt); !isRet {
					return true
				}
				ast.Inspect(is.Cond, func(m ast.Node) bool {
					be, ok := m.(*ast.BinaryExpr)
					if !ok || be.Op != token.GTR && be.Op != token.GEQ && be.Op != token.LSS && be.Op != token.LEQ {
						return true
					}
					for _, side := range []ast.Expr{be.X, be.Y} {
						if s, ok := constStringVal(info, side); ok {
							if s == "23" || s == "24" {
								has23 = true
							}
							if s == "59" || s == "60" {
								has59 = true
							}
						}
					}
					return true
				})
				return true
			})
			if has23 && has59 {
				return []Obligation{mkOb(c, rid, u, "zone offset range", fd, Proved, "the offset's hour and minute are compared with \"23\" and \"59\" and an error is returned", true)}
			}
			// (b) the shape pattern
			var pat string
			var patNode ast.Node
			ast.Inspect(fd.Body, func(n ast.Node) bool {
				ce, ok := n.(*ast.CallExpr)
				if !ok {
					return true
				}
				se, ok := ast.Unparen(ce.Fun).(*ast.SelectorExpr)
				if !ok || se.Sel.Name != "MatchString" {
					return true
				}
				v, ok := identObj(info, se.X).(*types.Var)
				if !ok {
					return true
				}
				for _, f := range pkg.Syntax {
					ast.Inspect(f, func(k ast.Node) bool {
						vs, ok := k.(*ast.ValueSpec)
						if !ok || len(vs.Names) != 1 || info.Defs[vs.Names[0]] != v || len(vs.Values) != 1 {
							return true
						}
						if mc, ok := ast.Unparen(vs.Values[0]).(*ast.CallExpr); ok && stdFuncCalled(info, mc, "regexp", "MustCompile") && len(mc.Args) == 1 {
							if s, ok := constStringVal(info, mc.Args[0]); ok {
								pat, patNode = s, vs
							}
						}
						return false
					})
				}
				return true
			})
			if pat == "" {
				return []Obligation{mkOb(c, rid, u, "zone offset range", fd, Violated, "the strictness check neither compares the offset fields with \"23\"/\"59\" nor matches a constant pattern this rule can read: time.Parse then accepts offsets such as +24:60", true)}
			}
			re, err := regexp.Compile(pat)
			if err != nil {
				return []Obligation{mkOb(c, rid, u, "zone offset range", patNode, Undecided, "the shape pattern does not compile: "+err.Error(), true)}
			}
			for _, sign := range []string{"+", "-"} {
				for h := 0; h < 100; h++ {
					for m := 0; m < 100; m++ {
						if h <= 23 && m <= 59 {
							continue
						}
						s := fmt.Sprintf("2000-01-01T00:00:00%s%02d:%02d", sign, h, m)
						if re.MatchString(s) {
							return []Obligation{mkOb(c, rid, u, "zone offset range", patNode, Violated, "no range comparison is made in code and the shape pattern matches "+s+" (offset hour above 23 or minute above 59): time.Parse falls back to its lenient offset handling and the out-of-range timestamp is accepted", true)}
						}
					}
				}
			}
			return []Obligation{mkOb(c, rid, u, "zone offset range", patNode, Proved, "the shape pattern rejects all out-of-range two-digit offsets", true)}
		}})

	// TIME.no-unixnano — C15 ("round trip; order agrees with the calendar"): Time.UnixNano
	// is documented as undefined for instants that do not fit an int64 count of
	// nanoseconds (before 1677-09-21 or after 2262-04-11); RFC 3339 years run
	// from 0000 to 9999.  A time value that passes through UnixNano silently
	// becomes a different instant outside that window.
	register(&Rule{ID: "TIME.no-unixnano", Floor: 0,
		Doc: "nothing in libtime calls (time.Time).UnixNano / UnixMicro / UnixMilli or rebuilds a time from such a count (time.Unix(0, …), UnixMicro, UnixMilli): time values keep Go's full range, so parse∘format is the identity and comparisons agree with the calendar for every RFC 3339 year.  (Zero sites today; the seeded change C15-r3m3 is the standing positive example re-checked by selftest.)",
		Run: func(c *Ctx) []Obligation {
			const rid = "TIME.no-unixnano"
			var obs []Obligation
			for _, u := range c.Funcs(func(p string) bool { return rel(p) == "lisp/lisplib/libtime" }) {
				if u.Decl == nil || u.Decl.Body == nil {
					continue
				}
				info := u.Pkg.TypesInfo
				ord := &ordinal{}
				for _, ce := range callsIn(u.Decl.Body, true) {
					f := Callee(info, ce)
					if f == nil || f.Pkg() == nil || f.Pkg().Path() != "time" {
						continue
					}
					switch f.Name() {
					case "UnixNano", "UnixMicro", "UnixMilli":
						obs = append(obs, mkOb(c, rid, u, ord.next("time."+f.Name()), ce, Violated, "a time value is reduced to an int64 count: for instants before 1677-09-21 or after 2262-04-11 the count wraps, so a timestamp such as 0001-01-01T00:00:00Z comes back as a different date, orders wrongly against its neighbours and adds wrongly", true))
					}
				}
			}
			return obs
		}})
}

// CTX.own-first — C15 / C04 ("sleep is bounded by the context of the evaluation
// that runs it"): LEnv.Context() is what time:sleep and every other
// context-aware builtin ask.  The answer is the context of THIS environment,
// which the call funnel installs for the duration of the evaluation; a context
// stored on the root (WithContext at construction) is older and must not win.
func init() {
	register(&Rule{ID: "CTX.own-first", Floor: 1,
		Doc: "LEnv.Context() returns the receiver's own evalCtx whenever it is set: any other context it can return (a parent's, the root's, a default) is returned only over an edge that entails the receiver's evalCtx is nil — the per-call context of the running evaluation is never overridden by a longer-lived one",
		Run: func(c *Ctx) []Obligation {
			const rid = "CTX.own-first"
			fn, fd, pkg := c.LookupFunc("lisp.(*LEnv).Context")
			fld := c.LookupField("lisp.LEnv.evalCtx")
			if fn == nil || fld == nil || fd.Recv == nil || len(fd.Recv.List) == 0 || len(fd.Recv.List[0].Names) == 0 {
				return []Obligation{anchorMissing(rid, "LEnv.Context / LEnv.evalCtx")}
			}
			u := FuncUnit{fn, fd, pkg}
			info := pkg.TypesInfo
			recv := info.Defs[fd.Recv.List[0].Names[0]]
			isOwn := func(e ast.Expr) bool {
				se, ok := ast.Unparen(e).(*ast.SelectorExpr)
				return ok && FieldOfSelector(info, se) == fld && identObj(info, se.X) == recv
			}
			fc := c.cfgOf(u, nil)
			cls := func(e ast.Expr) (string, bool) {
				be, ok := ast.Unparen(e).(*ast.BinaryExpr)
				if !ok || be.Op != token.EQL && be.Op != token.NEQ {
					return "", false
				}
				isNilE := func(a ast.Expr) bool { tv, ok := info.Types[a]; return ok && tv.IsNil() }
				if isOwn(be.X) && isNilE(be.Y) || isOwn(be.Y) && isNilE(be.X) {
					return "ownnil", be.Op == token.NEQ
				}
				return "", false
			}
			cut := fc.edgesEntailing(cls, func(v map[string]bool) bool { return v["$has:ownnil"] && v["ownnil"] })
			var obs []Obligation
			ord := &ordinal{}
			for _, b := range fc.G.Blocks {
				if !fc.Live(b) {
					continue
				}
				for _, n := range b.Nodes {
					rs, ok := n.(*ast.ReturnStmt)
					if !ok || len(rs.Results) != 1 {
						continue
					}
					if isOwn(rs.Results[0]) {
						obs = append(obs, mkOb(c, rid, u, ord.next("return own context"), rs, Proved, "the receiver's own context", false))
						continue
					}
					construct := ord.next("return " + types.ExprString(rs.Results[0]))
					if fc.reachableAvoiding(b, cut) {
						obs = append(obs, mkOb(c, rid, u, construct, rs, Violated, "another context can be returned while the receiver's own evalCtx is set: in an environment built with WithContext(appCtx), a time:sleep inside a function called under LoadStringContext / FunCallContext with a request deadline waits on appCtx and ignores the request's deadline and cancellation", true))
					} else {
						obs = append(obs, mkOb(c, rid, u, construct, rs, Proved, "only when the receiver has no context of its own", true))
					}
				}
			}
			return obs
		}})
}

// TIME.unit-scale — C15 ("durations … add consistently"; duration-s, duration-ms and
// duration-ns are three readings of one nanosecond count): a dimensional check.
// Every expression built from the duration by /, %, *, +, - with constants and the
// float accessors has a SCALE (how many result units one nanosecond contributes).
// The terms of a sum must agree on it, and the value handed back by duration-<unit>
// must have the scale of <unit>.  `float64(d/ms) + float64(d%ms)/1e9` adds
// milliseconds to seconds.
func init() {
	register(&Rule{ID: "TIME.unit-scale", Floor: 2,
		Doc: "in every registered duration-<unit> accessor of libtime (duration-s, duration-ms, duration-ns, …) the value returned is, by dimensional analysis of the expression over the duration's nanosecond count — x/C divides the scale by C, x*C multiplies it, x%C keeps it, conversions keep it, Seconds()/Minutes()/Hours() have theirs, and the terms of a sum or difference must agree — a quantity of exactly <unit>'s scale: a whole part and a remainder are never added in different units",
		Run: func(c *Ctx) []Obligation {
			const rid = "TIME.unit-scale"
			units := map[string]float64{"ns": 1, "us": 1e3, "ms": 1e6, "s": 1e9, "m": 6e10, "h": 3.6e12}
			var obs []Obligation
			for _, e := range c.Registry() {
				if rel(e.Pkg.PkgPath) != "lisp/lisplib/libtime" || !strings.HasPrefix(e.Name, "duration-") {
					continue
				}
				unit, ok := units[strings.TrimPrefix(e.Name, "duration-")]
				if !ok {
					continue
				}
				body, u, _, ok := c.BodyOf(e)
				if !ok || u.Decl == nil {
					continue
				}
				info := u.Pkg.TypesInfo
				isDur := func(t types.Type) bool { return strings.HasSuffix(types.Unalias(t).String(), "time.Duration") }
				same := func(a, b float64) bool {
					if a == b {
						return true
					}
					d := a - b
					if d < 0 {
						d = -d
					}
					m := a
					if m < 0 {
						m = -m
					}
					return d <= 1e-9*m
				}
				// scale: (value, kind) with kind 0 unknown, 1 scaled quantity, 2 constant, 3 inconsistent
				var scale func(x ast.Expr, depth int) (float64, int, string)
				scale = func(x ast.Expr, depth int) (float64, int, string) {
					x = ast.Unparen(x)
					if depth > 8 {
						return 0, 0, ""
					}
					if tv, ok := info.Types[x]; ok && tv.Value != nil {
						if f, ok := constantFloat(tv.Value); ok {
							v, _ := f.Float64()
							return v, 2, ""
						}
					}
					switch y := x.(type) {
					case *ast.Ident:
						o := info.Uses[y]
						if o == nil {
							return 0, 0, ""
						}
						if d := soleDef(info, body, y); d != nil {
							if ta, ok := ast.Unparen(d).(*ast.TypeAssertExpr); ok && ta.Type != nil {
								if tv, ok := info.Types[ta.Type]; ok && isDur(tv.Type) {
									return 1, 1, ""
								}
							}
							if dv, dk, dw := scale(d, depth+1); dk != 0 {
								return dv, dk, dw
							}
							if v, isVar := o.(*types.Var); isVar && !v.IsField() && isDur(v.Type()) {
								return 1, 1, ""
							}
							return 0, 0, ""
						}
						// `d, ok := lt.Native.(time.Duration)`
						found := false
						ast.Inspect(body, func(n ast.Node) bool {
							if as, ok := n.(*ast.AssignStmt); ok && len(as.Lhs) == 2 && len(as.Rhs) == 1 && identObj(info, as.Lhs[0]) == o {
								if ta, ok := ast.Unparen(as.Rhs[0]).(*ast.TypeAssertExpr); ok && ta.Type != nil {
									if tv, ok := info.Types[ta.Type]; ok && isDur(tv.Type) {
										found = true
									}
								}
							}
							return true
						})
						if found {
							return 1, 1, ""
						}
						// a duration obtained some other way (`d, lerr := durationArg(env, cell)`): a local of
						// type time.Duration that is not computed in this function IS the nanosecond count
						if v, isVar := o.(*types.Var); isVar && !v.IsField() && isDur(v.Type()) {
							return 1, 1, ""
						}
						return 0, 0, ""
					case *ast.CallExpr:
						if tv, ok := info.Types[y.Fun]; ok && tv.IsType() && len(y.Args) == 1 {
							return scale(y.Args[0], depth+1)
						}
						if se, ok := ast.Unparen(y.Fun).(*ast.SelectorExpr); ok && len(y.Args) == 0 {
							if f := Callee(info, y); f != nil && f.Pkg() != nil && f.Pkg().Path() == "time" {
								if rv, rk, why := scale(se.X, depth+1); rk == 1 {
									switch f.Name() {
									case "Nanoseconds":
										return rv, 1, ""
									case "Microseconds":
										return rv / 1e3, 1, ""
									case "Milliseconds":
										return rv / 1e6, 1, ""
									case "Seconds":
										return rv / 1e9, 1, ""
									case "Minutes":
										return rv / 6e10, 1, ""
									case "Hours":
										return rv / 3.6e12, 1, ""
									}
								} else if rk == 3 {
									return 0, 3, why
								}
							}
						}
						return 0, 0, ""
					case *ast.BinaryExpr:
						lv, lk, lw := scale(y.X, depth+1)
						rv, rk, rw := scale(y.Y, depth+1)
						if lk == 3 {
							return 0, 3, lw
						}
						if rk == 3 {
							return 0, 3, rw
						}
						switch y.Op {
						case token.QUO:
							if lk == 1 && rk == 2 && rv != 0 {
								return lv / rv, 1, ""
							}
						case token.REM:
							if lk == 1 && rk == 2 {
								return lv, 1, ""
							}
						case token.MUL:
							if lk == 1 && rk == 2 {
								return lv * rv, 1, ""
							}
							if lk == 2 && rk == 1 {
								return lv * rv, 1, ""
							}
						case token.ADD, token.SUB:
							if lk == 1 && rk == 1 {
								if same(lv, rv) {
									return lv, 1, ""
								}
								return 0, 3, fmt.Sprintf("`%s` adds a quantity of %g units per nanosecond to one of %g", types.ExprString(y), lv, rv)
							}
						}
						if lk == 2 && rk == 2 {
							return 0, 0, ""
						}
						return 0, 0, ""
					}
					return 0, 0, ""
				}
				ord := &ordinal{}
				for _, rs := range returnsOf(body) {
					if len(rs.Results) != 1 || c.isErrorValueCall(info, rs.Results[0], 0) {
						continue
					}
					ce, ok := ast.Unparen(rs.Results[0]).(*ast.CallExpr)
					if !ok || len(ce.Args) != 1 {
						continue
					}
					f := originOf(Callee(info, ce))
					if f == nil || (FuncName(f) != "lisp.Float" && FuncName(f) != "lisp.Int") {
						continue
					}
					construct := ord.next(e.Name + " result")
					v, k, why := scale(ce.Args[0], 0)
					switch {
					case k == 3:
						obs = append(obs, mkOb(c, rid, u, construct, rs, Violated, why+": the whole part and the remainder of the duration are in different units, so "+e.Name+" disagrees with its siblings for every duration that is not a whole number of the unit", true))
					case k == 1 && same(v, 1/unit):
						obs = append(obs, mkOb(c, rid, u, construct, rs, Proved, fmt.Sprintf("the returned expression has scale %g per nanosecond = 1/%g", v, unit), true))
					case k == 1:
						obs = append(obs, mkOb(c, rid, u, construct, rs, Violated, fmt.Sprintf("%s returns a quantity of %g units per nanosecond where the unit demands %g", e.Name, v, 1/unit), true))
					default:
						// an expression outside the little algebra (a rounding helper, a lookup): no unit can be read off it and none is claimed; the floor keeps the rule from going vacuous
						_ = construct
					}
				}
			}
			return obs
		}})
}

// helperResultCells: for a call ce (written in unit u, whose argument list parameter is argsP and whose
// cell expressions cellOf recognises) of a same-package helper that is handed the argument list or some of
// its cells: result index -> the index k of the args.Cells[k] the time.Time result was asserted from, where
// every return of the helper agrees.  A return that forwards another helper's results (`return
// timeNative(env, v)`) is followed.
func helperResultCells(c *Ctx, u FuncUnit, argsP types.Object, cellOf func(ast.Expr) (int, bool), ce *ast.CallExpr, depth int) map[int]int {
	info := u.Pkg.TypesInfo
	out := map[int]int{}
	fn := originOf(Callee(info, ce))
	if fn == nil || fn.Pkg() != u.Obj.Pkg() || depth >= 3 {
		return out
	}
	fd := c.declOf[fn]
	if fd == nil || fd.Body == nil {
		return out
	}
	hu := FuncUnit{fn, fd, c.pkgOf[fd]}
	hinfo := hu.Pkg.TypesInfo
	var hArgs types.Object
	ps := paramObjs(hu)
	hseed := map[types.Object]int{}
	for i, a := range ce.Args {
		if i < len(ps) && argsP != nil && identObj(info, a) == argsP {
			hArgs = ps[i]
		} else if k, ok := cellOf(a); ok && i < len(ps) {
			hseed[ps[i]] = k
		}
	}
	if hArgs == nil && len(hseed) == 0 {
		return out
	}
	inner := timeOperandIndexSeeded(c, hu, hArgs, hseed, depth+1)
	// the helper's own view of cells, for forwarded calls
	hcellOf := func(e ast.Expr) (int, bool) {
		e = ast.Unparen(e)
		if ie, ok := e.(*ast.IndexExpr); ok {
			if se, ok := ast.Unparen(ie.X).(*ast.SelectorExpr); ok && se.Sel.Name == "Cells" && hArgs != nil && identObj(hinfo, se.X) == hArgs {
				if k, ok := intConst(hinfo, ie.Index); ok {
					return k, true
				}
			}
		}
		if o := identObj(hinfo, e); o != nil {
			if k, ok := hseed[o]; ok {
				return k, true
			}
		}
		return 0, false
	}
	res := map[int]int{}
	bad := map[int]bool{}
	sig := fn.Type().(*types.Signature)
	named := map[types.Object]int{}
	for i := 0; i < sig.Results().Len(); i++ {
		if sig.Results().At(i).Name() != "" {
			named[sig.Results().At(i)] = i
		}
	}
	note := func(i, k int) {
		if prev, seen := res[i]; seen && prev != k {
			bad[i] = true
		}
		res[i] = k
	}
	ast.Inspect(fd.Body, func(m ast.Node) bool {
		if _, ok := m.(*ast.FuncLit); ok {
			return false
		}
		rs, ok := m.(*ast.ReturnStmt)
		if !ok {
			return true
		}
		if len(rs.Results) == 0 && len(named) > 0 {
			// bare return with named results: the named results' own provenance
			for ro, i := range named {
				if k, ok := inner[ro]; ok {
					note(i, k)
				}
			}
			return true
		}
		if len(rs.Results) == 1 && sig.Results().Len() > 1 {
			if fc, ok := ast.Unparen(rs.Results[0]).(*ast.CallExpr); ok {
				fwd := helperResultCells(c, hu, hArgs, hcellOf, fc, depth+1)
				for i := 0; i < sig.Results().Len(); i++ {
					if k, ok := fwd[i]; ok {
						note(i, k)
					} else if isTimeTime(sig.Results().At(i).Type()) {
						bad[i] = true
					}
				}
				return true
			}
		}
		for i, r := range rs.Results {
			ro := identObj(hinfo, r)
			if ro == nil {
				continue
			}
			if k, ok := inner[ro]; ok {
				note(i, k)
			} else if isTimeTime(ro.Type()) {
				// a named result not yet assigned (zero value on error paths) is fine
				if _, isNamed := named[ro]; !isNamed {
					bad[i] = true
				}
			}
		}
		return true
	})
	for i, k := range res {
		if !bad[i] {
			out[i] = k
		}
	}
	return out
}

// timeOrderViaPureCompare: rs returns outer(h(x, y) OP 0) (or 0 OP h(x, y)) where h is a function of the
// package whose every return is <param i>.Compare(<param j>) of its two time.Time parameters, and x, y are
// time operands of u traced (idx) to args.Cells[0] / args.Cells[1].
func timeOrderViaPureCompare(c *Ctx, u FuncUnit, idx map[types.Object]int, what, want string, rs *ast.ReturnStmt, construct string) (Obligation, bool) {
	info := u.Pkg.TypesInfo
	outer, ok := ast.Unparen(rs.Results[0]).(*ast.CallExpr)
	if !ok || len(outer.Args) != 1 {
		return Obligation{}, false
	}
	var hc *ast.CallExpr
	rel, ok := signTestRelation(info, outer.Args[0], func(e ast.Expr) bool {
		ce, ok := ast.Unparen(e).(*ast.CallExpr)
		if ok && len(ce.Args) == 2 {
			hc = ce
			return true
		}
		return false
	})
	if !ok || hc == nil {
		return Obligation{}, false
	}
	h := originOf(Callee(info, hc))
	hd := c.declOf[h]
	if h == nil || hd == nil || hd.Body == nil || h.Pkg() != u.Obj.Pkg() {
		return Obligation{}, false
	}
	hu := FuncUnit{h, hd, c.pkgOf[hd]}
	hinfo := hu.Pkg.TypesInfo
	hps := paramObjs(hu)
	if len(hps) != 2 || !isTimeTime(hps[0].Type()) || !isTimeTime(hps[1].Type()) {
		return Obligation{}, false
	}
	// every return: p_r.Compare(p_a)
	ri, ai, n := -1, -1, 0
	for _, hr := range returnsOf(hd.Body) {
		if len(hr.Results) != 1 {
			return Obligation{}, false
		}
		cmp, ok := ast.Unparen(hr.Results[0]).(*ast.CallExpr)
		if !ok || len(cmp.Args) != 1 {
			return Obligation{}, false
		}
		se, ok := ast.Unparen(cmp.Fun).(*ast.SelectorExpr)
		f := Callee(hinfo, cmp)
		if !ok || se.Sel.Name != "Compare" || f == nil || f.Pkg() == nil || f.Pkg().Path() != "time" {
			return Obligation{}, false
		}
		r, a := -1, -1
		for i, p := range hps {
			if identObj(hinfo, se.X) == p {
				r = i
			}
			if identObj(hinfo, cmp.Args[0]) == p {
				a = i
			}
		}
		if r < 0 || a < 0 || r == a || (n > 0 && (r != ri || a != ai)) {
			return Obligation{}, false
		}
		ri, ai = r, a
		n++
	}
	if n == 0 {
		return Obligation{}, false
	}
	// the arguments of the call, as operands of u
	ops := [2]int{-1, -1}
	for i, a := range hc.Args {
		if k, ok := idx[identObj(info, a)]; ok {
			ops[i] = k
		}
	}
	if ops[0] < 0 || ops[1] < 0 || ops[0] == ops[1] {
		return mkOb(c, "TIME.order-mirror", u, construct, rs, Undecided, "the operands of "+hu.Name()+" are not the two time arguments of the builtin", true), true
	}
	// h(x, y) = x.Compare(y) when ri == 0; mirror when the helper compares the other way round, and again
	// when the call passes the second operand first
	if ri == 1 {
		rel = mirrorRel(rel)
	}
	if ops[0] == 1 {
		rel = mirrorRel(rel)
	}
	if rel == want {
		return mkOb(c, "TIME.order-mirror", u, construct, rs, Proved, fmt.Sprintf("%s = operand0 %s operand1, through %s (operand.Compare(operand)) tested against 0", what, rel, hu.Name()), true), true
	}
	return mkOb(c, "TIME.order-mirror", u, construct, rs, Violated, fmt.Sprintf("%s is computed as operand0 %s operand1 (three-way result of %s tested against 0), not operand0 %s operand1: the three predicates no longer partition pairs of instants in agreement with time-from", what, rel, hu.Name(), want), true), true
}
