package main

import (
	"fmt"
	"go/ast"
	"go/token"
	"go/types"
	"sort"
	"strings"
)

// E1.ACC / E1.FLD — typestate of *LVal values established by dominating tests.
//
// The accessors Map/Bytes/CallStack/funData/seqCells/toFloat... panic when the
// value has another type; the code documents "NOT LISP-REACHABLE: every caller
// tests the type first".  This rule checks that belief at every caller: the
// argument's type set, as established by the branch conditions and switch
// clauses that dominate the call (or by the constructor that produced it), must
// be inside the accessor's domain.  When the argument is simply a parameter of
// the calling function the obligation moves to that function's callers.

type typeSet map[string]bool

func ts(names ...string) typeSet {
	s := typeSet{}
	for _, n := range names {
		s[n] = true
	}
	return s
}

func (a typeSet) subsetOf(b typeSet) bool {
	if len(a) == 0 {
		return false
	}
	for k := range a {
		if !b[k] {
			return false
		}
	}
	return true
}

func (a typeSet) String() string {
	var ks []string
	for k := range a {
		ks = append(ks, k)
	}
	sort.Strings(ks)
	return "{" + strings.Join(ks, ",") + "}"
}

// base partial accessors: function name -> (param index; -1 = receiver) and domain
type accSpec struct {
	param  int
	domain typeSet
	path   string // access-path suffix below the parameter (".Cells.[0]"), empty for the parameter itself
}

var baseAccessors = map[string]accSpec{
	"lisp.(*LVal).Map":           {-1, ts("LSortMap"), ""},
	"lisp.(*LVal).Bytes":         {-1, ts("LBytes"), ""},
	"lisp.(*LVal).CallStack":     {-1, ts("LError"), ""},
	"lisp.(*LVal).SetCallStack":  {-1, ts("LError"), ""},
	"lisp.(*LVal).funData":       {-1, ts("LFun"), ""},
	"lisp.(*LVal).tailRecElided": {-1, ts("LMarkTailRec"), ""},
	"lisp.(*LVal).tailRecFun":    {-1, ts("LMarkTailRec"), ""},
	"lisp.(*LVal).tailRecArgs":   {-1, ts("LMarkTailRec"), ""},
	"lisp.seqCells":              {0, ts("LSExpr", "LArray"), ""},
	"lisp.toFloat":               {0, ts("LInt", "LFloat"), ""},
}

// constructor result types
var ctorTypes = map[string]typeSet{
	"lisp.SortedMap": ts("LSortMap"), "lisp.SortedMapFromData": ts("LSortMap"),
	"lisp.Bytes": ts("LBytes"), "lisp.String": ts("LString"), "lisp.Symbol": ts("LSymbol"),
	"lisp.Int": ts("LInt"), "lisp.Float": ts("LFloat"), "lisp.SExpr": ts("LSExpr"), "lisp.QExpr": ts("LSExpr"),
	"lisp.Errorf": ts("LError"), "lisp.Error": ts("LError"), "lisp.ErrorCondition": ts("LError"), "lisp.ErrorConditionf": ts("LError"),
	"lisp.(*LEnv).Errorf": ts("LError"), "lisp.(*LEnv).Error": ts("LError"), "lisp.(*LEnv).ErrorCondition": ts("LError"), "lisp.(*LEnv).ErrorConditionf": ts("LError"),
	"lisp.Array": ts("LArray", "LError"), "lisp.Vector": ts("LArray", "LError"),
	"lisp.Fun": ts("LFun"), "lisp.FunInPackage": ts("LFun"), "lisp.Macro": ts("LFun"), "lisp.MacroInPackage": ts("LFun"), "lisp.SpecialOp": ts("LFun"), "lisp.SpecialOpInPackage": ts("LFun"),
	"lisp.markTailRec": ts("LMarkTailRec"),
	"lisp.Nil": ts("LSExpr"), "lisp.Bool": ts("LSymbol"), "lisp.Quote": ts("LQuote", "LSExpr", "LSymbol", "LString", "LInt", "LFloat"),
}

// predicate helpers: call on x being true establishes a type set for x
var truePreds = map[string]typeSet{
	"lisp.isSeq":            ts("LSExpr", "LArray"),
	"lisp.isVec":            ts("LArray"),
	"lisp.(*LVal).IsNumeric": ts("LInt", "LFloat"),
	"lisp.isStringLike":     ts("LString", "LSymbol"),
	"lisp.IsInternalPanic":  ts("LError"),
	"lisp/lisplib/libschema.isValidator": ts("LFun"),
}

// nilResultTypes: ce calls a checking helper of the module with an *LVal argument x; the
// result is the set of LTypes of x for which the helper can return nil (decided by
// assuming each type in turn).  "" when no argument's types are constrained.
func (a *ownAnalysis) nilResultTypes(ce *ast.CallExpr) (string, typeSet) {
	h := originOf(Callee(a.info, ce))
	if h == nil {
		return "", nil
	}
	hd := a.c.declOf[h]
	if hd == nil || hd.Body == nil {
		return "", nil
	}
	typeFld := a.c.LookupField("lisp.LVal.Type")
	lp := a.c.Pkg("lisp")
	if typeFld == nil || lp == nil {
		return "", nil
	}
	hu := FuncUnit{h, hd, a.c.pkgOf[hd]}
	hps := paramObjs(hu)
	var all []string
	for _, nm := range lp.Types.Scope().Names() {
		if k, ok := lp.Types.Scope().Lookup(nm).(*types.Const); ok {
			if n, ok := types.Unalias(k.Type()).(*types.Named); ok && n.Obj().Name() == "LType" {
				all = append(all, nm)
			}
		}
	}
	for i, arg := range ce.Args {
		if i >= len(hps) || !isLValPtr(a.c, hps[i].Type()) {
			continue
		}
		key := a.resolvedKey(arg, 0)
		if key == "" {
			continue
		}
		canNil := func(k string) bool {
			tf := &typeFlow{c: a.c, typeFld: typeFld, k: k, consts: map[string]bool{}, memo: map[string]flowSummary{}}
			_, reach, _ := tf.reach(hu, nil, hps[i], nil, 1)
			hinfo := hu.Pkg.TypesInfo
			for b := range reach {
				for _, n := range b.Nodes {
					if rs, ok := n.(*ast.ReturnStmt); ok && len(rs.Results) >= 1 {
						last := rs.Results[len(rs.Results)-1]
						if isNilIdent(hinfo, last) {
							return true
						}
						if _, isCall := ast.Unparen(last).(*ast.CallExpr); !isCall {
							if _, isAddr := ast.Unparen(last).(*ast.UnaryExpr); !isAddr {
								return true // an identifier or other expression: may be nil
							}
						}
					}
				}
			}
			return false
		}
		if canNil("") {
			continue // a type the helper never mentions passes: no constraint on this argument
		}
		set := typeSet{}
		for _, k := range all {
			if canNil(k) {
				set[k] = true
			}
		}
		if len(set) > 0 {
			return key, set
		}
	}
	return "", nil
}

// typeFactsAt returns, per resolved access-path key, the set of LTypes the
// value can have at node n (nil entry = unknown).
func (a *ownAnalysis) typeFactsAt(fc *FCFG, n ast.Node, stack []ast.Node) map[string]typeSet {
	out := map[string]typeSet{}
	typeFld := a.c.LookupField("lisp.LVal.Type")
	meet := func(key string, s typeSet) {
		if key == "" {
			return
		}
		if cur, ok := out[key]; ok {
			ns := typeSet{}
			for k := range s {
				if cur[k] {
					ns[k] = true
				}
			}
			if len(ns) > 0 {
				out[key] = ns
			}
			return
		}
		out[key] = s
	}
	typeNameOf := func(e ast.Expr) string {
		switch t := ast.Unparen(e).(type) {
		case *ast.Ident:
			if strings.HasPrefix(t.Name, "L") {
				return t.Name
			}
		case *ast.SelectorExpr:
			if strings.HasPrefix(t.Sel.Name, "L") {
				return t.Sel.Name
			}
		}
		return ""
	}
	// x.Type == K atoms and predicate calls
	atomFact := func(at LitAtom) (string, typeSet) {
		e := ast.Unparen(at.E)
		if be, ok := e.(*ast.BinaryExpr); ok && (be.Op == token.EQL || be.Op == token.NEQ) {
			for _, pair := range [][2]ast.Expr{{be.X, be.Y}, {be.Y, be.X}} {
				se, ok := ast.Unparen(pair[0]).(*ast.SelectorExpr)
				if !ok || FieldOfSelector(a.info, se) != typeFld {
					continue
				}
				tn := typeNameOf(pair[1])
				if tn == "" {
					continue
				}
				if (be.Op == token.EQL) == at.Positive {
					return a.resolvedKey(se.X, 0), ts(tn)
				}
			}
		}
		// `lerr == nil` with lerr := checkHelper(…, x, …): the types of x for which the helper can
		// hand back nil, decided on the helper's flow graph under each type assumption (typeflow.go)
		if be, ok := e.(*ast.BinaryExpr); ok && (be.Op == token.EQL || be.Op == token.NEQ) {
			for _, pair := range [][2]ast.Expr{{be.X, be.Y}, {be.Y, be.X}} {
				if !isNilIdent(a.info, pair[1]) || (be.Op == token.EQL) != at.Positive {
					continue
				}
				d := soleDef(a.info, a.u.Decl.Body, pair[0])
				if d == nil {
					continue
				}
				ce, ok := ast.Unparen(d).(*ast.CallExpr)
				if !ok {
					continue
				}
				if key, set := a.nilResultTypes(ce); key != "" {
					return key, set
				}
			}
		}
		if ce, ok := e.(*ast.CallExpr); ok && at.Positive {
			if fn := originOf(Callee(a.info, ce)); fn != nil {
				if s, ok := truePreds[FuncName(fn)]; ok {
					if se, isSel := ast.Unparen(ce.Fun).(*ast.SelectorExpr); isSel && a.info.Selections[se] != nil {
						return a.resolvedKey(se.X, 0), s
					}
					if len(ce.Args) == 1 {
						return a.resolvedKey(ce.Args[0], 0), s
					}
				}
			}
		}
		return "", nil
	}
	// a disjunction `x.Type == A || x.Type == B` true / conjunction of != false
	disjFact := func(cond ast.Expr, edgeTrue bool) (string, typeSet) {
		var key string
		set := typeSet{}
		ok := true
		var walk func(e ast.Expr, want bool)
		walk = func(e ast.Expr, want bool) {
			e = ast.Unparen(e)
			if u, isU := e.(*ast.UnaryExpr); isU && u.Op == token.NOT {
				walk(u.X, !want)
				return
			}
			if be, isB := e.(*ast.BinaryExpr); isB {
				if (be.Op == token.LOR && want) || (be.Op == token.LAND && !want) {
					walk(be.X, want)
					walk(be.Y, want)
					return
				}
			}
			k, s := atomFact(LitAtom{e, want})
			if k == "" || (key != "" && k != key) {
				ok = false
				return
			}
			key = k
			for t := range s {
				set[t] = true
			}
		}
		walk(cond, edgeTrue)
		if !ok || key == "" {
			return "", nil
		}
		return key, set
	}
	if loc, ok := fc.Locate(n); ok {
		for _, b := range fc.G.Blocks {
			if !fc.Live(b) || b == loc.B {
				continue
			}
			cond := fc.CondOf(b)
			if cond == nil {
				continue
			}
			for k := 0; k < 2; k++ {
				if !fc.edgeDominates(b, k, loc.B) {
					continue
				}
				for _, at := range impliedAtoms(cond, k == 0) {
					if key, s := atomFact(at); key != "" {
						meet(key, s)
					}
				}
				if key, s := disjFact(cond, k == 0); key != "" {
					meet(key, s)
				}
			}
		}
	}
	// short-circuit context: in `A && B` the call inside B runs only when A held; in `A || B` only when A failed
	for i := len(stack) - 1; i > 0; i-- {
		be, ok := stack[i-1].(*ast.BinaryExpr)
		if !ok || (be.Op != token.LAND && be.Op != token.LOR) {
			continue
		}
		child, _ := stack[i].(ast.Expr)
		if child == nil || ast.Unparen(be.Y) != ast.Unparen(child) && !(be.Y.Pos() <= child.Pos() && child.End() <= be.Y.End()) {
			continue
		}
		for _, at := range impliedAtoms(be.X, be.Op == token.LAND) {
			if key, s := atomFact(at); key != "" {
				meet(key, s)
			}
		}
		if key, s := disjFact(be.X, be.Op == token.LAND); key != "" {
			meet(key, s)
		}
	}
	// relational facts: a.Type == b.Type established on a dominating edge
	var rel [][2]string
	relAtom := func(at LitAtom) {
		be, ok := ast.Unparen(at.E).(*ast.BinaryExpr)
		if !ok || (be.Op != token.EQL && be.Op != token.NEQ) {
			return
		}
		sx, okx := ast.Unparen(be.X).(*ast.SelectorExpr)
		sy, oky := ast.Unparen(be.Y).(*ast.SelectorExpr)
		if !okx || !oky || FieldOfSelector(a.info, sx) != typeFld || FieldOfSelector(a.info, sy) != typeFld {
			return
		}
		if (be.Op == token.EQL) == at.Positive {
			rel = append(rel, [2]string{a.resolvedKey(sx.X, 0), a.resolvedKey(sy.X, 0)})
		}
	}
	if loc, ok := fc.Locate(n); ok {
		for _, b := range fc.G.Blocks {
			if !fc.Live(b) || b == loc.B || fc.CondOf(b) == nil {
				continue
			}
			for k := 0; k < 2; k++ {
				if fc.edgeDominates(b, k, loc.B) {
					for _, at := range impliedAtoms(fc.CondOf(b), k == 0) {
						relAtom(at)
					}
				}
			}
		}
	}
	// enclosing switch x.Type { case ...: / default: }
	for i := len(stack) - 1; i > 0; i-- {
		cc, ok := stack[i].(*ast.CaseClause)
		if !ok {
			continue
		}
		for j := i - 1; j >= 0; j-- {
			sw, ok := stack[j].(*ast.SwitchStmt)
			if !ok {
				continue
			}
			if sw.Tag == nil {
				break
			}
			se, ok := ast.Unparen(sw.Tag).(*ast.SelectorExpr)
			if !ok || FieldOfSelector(a.info, se) != typeFld {
				break
			}
			key := a.resolvedKey(se.X, 0)
			if len(cc.List) == 0 {
				// default: whatever was known minus the listed cases
				if cur, ok := out[key]; ok {
					ns := typeSet{}
					for k := range cur {
						ns[k] = true
					}
					for _, other := range sw.Body.List {
						for _, ce := range other.(*ast.CaseClause).List {
							delete(ns, typeNameOf(ce))
						}
					}
					if len(ns) > 0 {
						out[key] = ns
					}
				}
				break
			}
			s := typeSet{}
			for _, ce := range cc.List {
				if tn := typeNameOf(ce); tn != "" {
					s[tn] = true
				}
			}
			if len(s) == len(cc.List) {
				meet(key, s)
			}
			break
		}
	}
	// propagate relational equalities
	for pass := 0; pass < 2; pass++ {
		for _, r := range rel {
			if s, ok := out[r[0]]; ok {
				meet(r[1], s)
			}
			if s, ok := out[r[1]]; ok {
				meet(r[0], s)
			}
		}
	}
	// for-all idiom: `for _, x := range S { if <x fails P> { return } }` before this node
	// establishes P for the elements of S
	a.forAllFacts(n, stack, atomFact, disjFact, func(key string, s typeSet) { meet(key, s) })
	return out
}

// forAllFacts: element facts established by earlier validation loops.
func (a *ownAnalysis) forAllFacts(n ast.Node, stack []ast.Node,
	atomFact func(LitAtom) (string, typeSet), disjFact func(ast.Expr, bool) (string, typeSet), meet func(string, typeSet)) {
	// validation loops in enclosing blocks that end before n
	type loopFact struct {
		seqKey string
		set    typeSet
	}
	var facts []loopFact
	ast.Inspect(a.u.Decl.Body, func(m ast.Node) bool {
		rs, ok := m.(*ast.RangeStmt)
		if !ok || rs.End() > n.Pos() || rs.Value == nil {
			return true
		}
		xo := identObj(a.info, rs.Value)
		if xo == nil || len(rs.Body.List) == 0 {
			return true
		}
		// guards of the form `if <cond> { ...; return ... }` at the top of the body establish facts on the
		// fall-through for every element, provided nothing in the body leaves the loop early
		early := false
		ast.Inspect(rs.Body, func(k ast.Node) bool {
			if br, ok := k.(*ast.BranchStmt); ok && (br.Tok == token.BREAK || br.Tok == token.GOTO) {
				early = true
			}
			return true
		})
		if early {
			return true
		}
		set := typeSet(nil)
		for _, st := range rs.Body.List {
			is, ok := st.(*ast.IfStmt)
			if !ok || is.Else != nil || len(is.Body.List) == 0 {
				continue
			}
			if _, isRet := is.Body.List[len(is.Body.List)-1].(*ast.ReturnStmt); !isRet {
				continue
			}
			for _, at := range impliedAtoms(is.Cond, false) {
				if key, s := atomFact(at); key == a.resolvedKey(rs.Value, 0) {
					set = s
				}
			}
			if key, s := disjFact(is.Cond, false); key == a.resolvedKey(rs.Value, 0) && s != nil {
				set = s
			}
		}
		if set != nil {
			facts = append(facts, loopFact{a.resolvedKey(rs.X, 0), set})
		}
		return true
	})
	if len(facts) == 0 {
		return
	}
	// the node's argument may be: the value variable of a later range over the same sequence, or S[i]
	for _, f := range facts {
		if f.seqKey == "" {
			continue
		}
		// S[const] and S[i]
		meet(f.seqKey+".[]", f.set)
		for i := 0; i < 8; i++ {
			meet(fmt.Sprintf("%s.[%d]", f.seqKey, i), f.set)
		}
		for i := len(stack) - 1; i >= 0; i-- {
			rs, ok := stack[i].(*ast.RangeStmt)
			if !ok || rs.Value == nil {
				continue
			}
			if a.resolvedKey(rs.X, 0) == f.seqKey {
				meet(a.resolvedKey(rs.Value, 0), f.set)
			}
			// range over a reslice S[k:]
			if sl, ok := ast.Unparen(rs.X).(*ast.SliceExpr); ok && a.resolvedKey(sl.X, 0) == f.seqKey {
				meet(a.resolvedKey(rs.Value, 0), f.set)
			}
		}
	}
}

// exprTypes: statically known type set of an *LVal expression (constructor
// result or single-assignment local of one).
// errorValContract: `type ErrorVal LVal` is the Go-error view of an error value.  Every conversion
// TO *ErrorVal in the kernel is made on a value shown to be LError at that point; then every
// *ErrorVal converted back with (*LVal)(e) is an LError value.  Decided on every run; embedder code
// that converts by hand owns the contract itself.
func (c *Ctx) errorValContract() bool {
	if v, ok := c.memo["errorValContract"].(bool); ok {
		return v
	}
	c.memo["errorValContract"] = false // while computing (exprTypes may come back here)
	ev := c.LookupType("lisp.ErrorVal")
	if ev == nil {
		return false
	}
	evPtr := types.NewPointer(ev)
	good, n := true, 0
	for _, u := range c.Funcs(isKernel) {
		if u.Decl == nil || u.Decl.Body == nil {
			continue
		}
		a := newOwnAnalysis(c, u)
		var fc *FCFG
		var stack []ast.Node
		ast.Inspect(u.Decl.Body, func(nd ast.Node) bool {
			if nd == nil {
				stack = stack[:len(stack)-1]
				return true
			}
			stack = append(stack, nd)
			ce, ok := nd.(*ast.CallExpr)
			if !ok || len(ce.Args) != 1 {
				return true
			}
			tv, ok := a.info.Types[ce.Fun]
			if !ok || !tv.IsType() || !types.Identical(tv.Type, evPtr) {
				return true
			}
			// converting an *ErrorVal (or nil) is no new claim
			if at, ok := a.info.Types[ce.Args[0]]; ok && (at.IsNil() || types.Identical(at.Type, evPtr)) {
				return true
			}
			n++
			st := make([]ast.Node, len(stack))
			copy(st, stack)
			if fc == nil {
				fc = c.cfgOf(u, nil)
			}
			ffc := fc
			if lit := innermostBody(u.Decl, ce); lit.Lit != nil {
				ffc = c.cfgOf(u, lit.Lit)
			}
			facts := a.typeFactsAt(ffc, ce, st)
			okSite := false
			if s, ok := facts[a.resolvedKey(ce.Args[0], 0)]; ok && len(s) > 0 && s.subsetOf(ts("LError")) {
				okSite = true
			}
			if s := a.exprTypes(ce.Args[0], 0); len(s) > 0 && s.subsetOf(ts("LError")) {
				okSite = true
			}
			if !okSite {
				good = false
			}
			return true
		})
	}
	res := good && n > 0
	c.memo["errorValContract"] = res
	return res
}

func (a *ownAnalysis) exprTypes(e ast.Expr, depth int) typeSet {
	e = ast.Unparen(e)
	// (*LVal)(x) with x an *ErrorVal: an error value, by the conversion contract
	if ce, ok := e.(*ast.CallExpr); ok && len(ce.Args) == 1 {
		if tv, ok := a.info.Types[ce.Fun]; ok && tv.IsType() && a.lvalPtr != nil && types.Identical(tv.Type, a.lvalPtr) {
			if at, ok := a.info.Types[ce.Args[0]]; ok {
				if p, ok := at.Type.(*types.Pointer); ok {
					if nt, ok := types.Unalias(p.Elem()).(*types.Named); ok && nt.Obj().Name() == "ErrorVal" && nt.Obj().Pkg() != nil && rel(nt.Obj().Pkg().Path()) == "lisp" && a.c.errorValContract() {
						return ts("LError")
					}
				}
			}
		}
	}
	if ce, ok := e.(*ast.CallExpr); ok {
		if fn := originOf(Callee(a.info, ce)); fn != nil {
			name := FuncName(fn)
			if name == "lisp.Array" && len(ce.Args) == 2 {
				// Array(nil, cells) and Array(QExpr([]*LVal{Int(n)...}), nil) cannot return an error:
				// the dimension list is a fresh list of ints and no cell count is there to disagree with it
				dimsOK := false
				if id, ok := ast.Unparen(ce.Args[0]).(*ast.Ident); ok && id.Name == "nil" {
					dimsOK = true
				}
				if dc, ok := ast.Unparen(ce.Args[0]).(*ast.CallExpr); ok {
					if dfn := originOf(Callee(a.info, dc)); dfn != nil && FuncName(dfn) == "lisp.QExpr" && len(dc.Args) == 1 {
						if cl, ok := ast.Unparen(dc.Args[0]).(*ast.CompositeLit); ok {
							dimsOK = len(cl.Elts) > 0
							for _, el := range cl.Elts {
								ic, ok := ast.Unparen(el).(*ast.CallExpr)
								if !ok {
									dimsOK = false
									continue
								}
								if ifn := originOf(Callee(a.info, ic)); ifn == nil || FuncName(ifn) != "lisp.Int" {
									dimsOK = false
								}
							}
							if id, ok := ast.Unparen(ce.Args[1]).(*ast.Ident); !(ok && id.Name == "nil") {
								// cells given together with explicit dims: sizes may disagree
								dimsOK = false
							}
						}
					}
				}
				if dimsOK {
					return ts("LArray")
				}
			}
			if s, ok := ctorTypes[name]; ok {
				return s
			}
		}
		return nil
	}
	if o := identObj(a.info, e); o != nil && depth < 3 {
		if v, ok := o.(*types.Var); ok && !v.IsField() {
			var union typeSet
			n := 0
			okAll := true
			ast.Inspect(a.u.Decl.Body, func(m ast.Node) bool {
				as, isAs := m.(*ast.AssignStmt)
				if !isAs || len(as.Lhs) != len(as.Rhs) {
					return true
				}
				for i, l := range as.Lhs {
					if identObj(a.info, l) != o {
						continue
					}
					n++
					s := a.exprTypes(as.Rhs[i], depth+1)
					if s == nil {
						okAll = false
						continue
					}
					if union == nil {
						union = typeSet{}
					}
					for k := range s {
						union[k] = true
					}
				}
				return true
			})
			if n > 0 && okAll {
				return union
			}
		}
	}
	return nil
}

type accSite struct {
	u       FuncUnit
	node    ast.Node
	callee  string
	arg     ast.Expr
	domain  typeSet
	verdict string
	detail  string
	lifted  bool
}

// accAnalysis runs the accessor rule with lifting to callers.
func (c *Ctx) accAnalysis() []accSite {
	if r, ok := c.memo["accSites"].([]accSite); ok {
		return r
	}
	partial := map[*types.Func][]accSpec{}
	byName := map[string]*types.Func{}
	for fn := range c.declOf {
		byName[FuncName(fn)] = fn
	}
	for n, sp := range baseAccessors {
		if fn := byName[n]; fn != nil {
			partial[fn] = []accSpec{sp}
		}
	}
	addSpec := func(fn *types.Func, sp accSpec) bool {
		for i, cur := range partial[fn] {
			if cur.param == sp.param && cur.path == sp.path {
				nd := typeSet{}
				for k := range sp.domain {
					if cur.domain[k] {
						nd[k] = true
					}
				}
				if len(nd) == len(cur.domain) {
					return false
				}
				partial[fn][i].domain = nd
				return true
			}
		}
		partial[fn] = append(partial[fn], sp)
		return true
	}
	var final []accSite
	for round := 0; round < 6; round++ {
		var sites []accSite
		changed := false
		for _, u := range c.Funcs(func(p string) bool { return isKernel(p) }) {
			if _, isBase := baseAccessors[u.Name()]; isBase {
				continue
			}
			a := newOwnAnalysis(c, u)
			info := a.info
			sig := u.Obj.Type().(*types.Signature)
			paramIndex := func(o types.Object) int {
				if o == nil {
					return -2
				}
				if sig.Recv() == o {
					return -1
				}
				for i := 0; i < sig.Params().Len(); i++ {
					if sig.Params().At(i) == o {
						return i
					}
				}
				return -2
			}
			reassigned := map[types.Object]bool{}
			ast.Inspect(u.Decl.Body, func(m ast.Node) bool {
				if as, ok := m.(*ast.AssignStmt); ok {
					for _, l := range as.Lhs {
						if o := identObj(info, l); o != nil {
							reassigned[o] = true
						}
					}
				}
				return true
			})
			var stack []ast.Node
			ast.Inspect(u.Decl.Body, func(n ast.Node) bool {
				if n == nil {
					stack = stack[:len(stack)-1]
					return true
				}
				stack = append(stack, n)
				ce, ok := n.(*ast.CallExpr)
				if !ok {
					return true
				}
				callee := originOf(Callee(info, ce))
				specs := partial[callee]
				if callee == nil || len(specs) == 0 {
					return true
				}
				st := make([]ast.Node, len(stack))
				copy(st, stack)
				for _, sp := range specs {
					var arg ast.Expr
					if sp.param < 0 {
						se, ok := ast.Unparen(ce.Fun).(*ast.SelectorExpr)
						if !ok {
							continue
						}
						arg = se.X
					} else if sp.param < len(ce.Args) {
						arg = ce.Args[sp.param]
					} else {
						continue
					}
					site := accSite{u: u, node: ce, callee: FuncName(callee), arg: arg, domain: sp.domain}
					argDesc := types.ExprString(arg) + strings.ReplaceAll(sp.path, ".[", "[")
					// 1. constructor-known (only for the value itself)
					if sp.path == "" {
						if s := a.exprTypes(arg, 0); s != nil && s.subsetOf(sp.domain) {
							site.verdict, site.detail = Proved, "argument is built by a constructor of type "+s.String()
							sites = append(sites, site)
							continue
						}
					}
					// 2. dominating facts
					lit := innermostBody(u.Decl, ce)
					fc := c.cfgOf(u, lit.Lit)
					facts := a.typeFactsAt(fc, ce, st)
					key := a.resolvedKey(arg, 0)
					if key != "" {
						key += sp.path
					}
					if s, ok := facts[key]; ok && s.subsetOf(sp.domain) {
						site.verdict, site.detail = Proved, "dominating tests establish type "+s.String()+" ⊆ "+sp.domain.String()+" for "+argDesc
						sites = append(sites, site)
						continue
					}
					if lit.Lit != nil {
						ofc := c.cfgOf(u, nil)
						ofacts := a.typeFactsAt(ofc, lit.Lit, st)
						if s, ok := ofacts[key]; ok && s.subsetOf(sp.domain) {
							site.verdict, site.detail = Proved, "the enclosing function established type "+s.String()+" before creating the closure"
							sites = append(sites, site)
							continue
						}
					}
					// 3. lift: the argument is (a path below) a parameter / the receiver of this declared function
					if lit.Lit == nil {
						if pth, okp := PathOf(info, arg); okp && pth.Root != nil {
							// expand a single-assignment alias of a path below a parameter
							root := pth.Root
							suffix := ""
							if len(pth.Elems) > 0 {
								suffix = "." + strings.Join(pth.Elems, ".")
							}
							if idx := paramIndex(root); idx < -1 {
								// alias: x := p.Cells[0]
								if v, isVar := root.(*types.Var); isVar && !v.IsField() {
									var rhs ast.Expr
									nAssign := 0
									ast.Inspect(u.Decl.Body, func(m ast.Node) bool {
										if as, ok := m.(*ast.AssignStmt); ok && len(as.Lhs) == len(as.Rhs) {
											for i, l := range as.Lhs {
												if identObj(info, l) == root {
													nAssign++
													rhs = as.Rhs[i]
												}
											}
										}
										return true
									})
									if nAssign == 1 && rhs != nil {
										if p2, ok2 := PathOf(info, rhs); ok2 && p2.Root != nil {
											if _, isCall := ast.Unparen(rhs).(*ast.CallExpr); !isCall {
												root = p2.Root
												pre := ""
												if len(p2.Elems) > 0 {
													pre = "." + strings.Join(p2.Elems, ".")
												}
												suffix = pre + suffix
											}
										}
									}
								}
							}
							idx := paramIndex(root)
							if idx >= -1 && !reassigned[root] {
								if addSpec(u.Obj, accSpec{idx, sp.domain, suffix + sp.path}) {
									changed = true
								}
								site.verdict, site.lifted = Proved, true
								site.detail = "argument is (a path below) this function's own parameter: the obligation moves to every caller of " + u.Name()
								sites = append(sites, site)
								continue
							}
						}
					}
					got := "unknown"
					if s, ok := facts[key]; ok {
						got = s.String()
					}
					site.verdict = Undecided
					site.detail = fmt.Sprintf("%s requires %s to be %s but its type at this call is %s: for other types the accessor panics (an internal-panic condition reachable from lisp)", FuncName(callee), argDesc, sp.domain.String(), got)
					sites = append(sites, site)
				}
				return true
			})
		}
		final = sites
		if !changed {
			break
		}
	}
	// functions whose obligation was lifted but that are invoked dynamically by the evaluator (registered
	// builtins, validator closures) have no static callers to carry it: report those
	reg := map[*types.Func]string{}
	for _, e := range c.Registry() {
		if e.Fn != nil {
			reg[e.Fn] = e.Key()
		}
	}
	for i := range final {
		s := &final[i]
		if s.lifted {
			if name, isReg := reg[s.u.Obj]; isReg {
				s.lifted = false
				s.verdict = Undecided
				s.detail = "the value comes straight from the argument list of the registered builtin " + name + " (no caller can establish its type) and reaches " + s.callee + " without a type test"
			}
		}
	}
	c.memo["accSites"] = final
	return final
}

func init() {
	register(&Rule{ID: "ACC.domain", Floor: 100,
		Doc: "every call of a partial LVal accessor (Map, Bytes, CallStack, SetCallStack, funData and its readers, tailRec*, seqCells, toFloat — and every function that merely forwards a parameter to one) passes a value whose type, as established by dominating tests, switch clauses or its constructor, lies in the accessor's domain",
		Run: func(c *Ctx) []Obligation {
			var obs []Obligation
			ord := map[string]*ordinal{}
			for _, s := range c.accAnalysis() {
				name := s.u.Name()
				if ord[name] == nil {
					ord[name] = &ordinal{}
				}
				short := s.callee[strings.LastIndex(s.callee, ".")+1:]
				construct := ord[name].next("call " + short + " on " + exprShape(s.u.Pkg.TypesInfo, s.arg))
				obs = append(obs, mkOb(c, "ACC.domain", s.u, construct, s.node, s.verdict, s.detail, !s.lifted))
			}
			return obs
		}})
}
