package main

import (
	"go/ast"
	"go/token"
	"go/types"
)

// PKG.qualified-not-lexical — C07 / C08 ("a package-qualified symbol names the
// binding of that package"; "evaluating a macro call is equivalent to
// evaluating what macroexpand returns"): the evaluator resolves `pkg:name`
// straight in the package table; every other resolver (LEnv.get behind
// macroexpand, function lookup, GetGlobal) must do the same, or the two
// disagree about WHICH binding a qualified name denotes as soon as a lexical
// binding of the bare name is in scope.
func init() {
	register(&Rule{ID: "PKG.qualified-not-lexical", Floor: 2,
		Doc: "in every function of the interpreter that locates the package separator of a symbol (`i := strings.IndexByte(sym.Str, ':')`), a call that can read a lexical scope (a function that reads LEnv.scope, or reaches one) is reachable only over an edge on which there is no separator (`i < 0`): once a symbol is known to be qualified it is never looked up through the lexical chain — not even when its qualifier names the current package",
		Run: func(c *Ctx) []Obligation {
			const rid = "PKG.qualified-not-lexical"
			scope := c.LookupField("lisp.LEnv.scope")
			strFld := c.LookupField("lisp.LVal.Str")
			if scope == nil || strFld == nil {
				return []Obligation{anchorMissing(rid, "LEnv.scope / LVal.Str")}
			}
			inLisp := func(p string) bool { return rel(p) == "lisp" }
			// functions that read a scope map
			readers := map[*types.Func]bool{}
			for _, u := range c.Funcs(inLisp) {
				if u.Decl == nil || u.Decl.Body == nil {
					continue
				}
				info := u.Pkg.TypesInfo
				stores := map[ast.Expr]bool{}
				ast.Inspect(u.Decl.Body, func(n ast.Node) bool {
					if as, ok := n.(*ast.AssignStmt); ok {
						for _, l := range as.Lhs {
							stores[ast.Unparen(l)] = true
						}
					}
					return true
				})
				ast.Inspect(u.Decl.Body, func(n ast.Node) bool {
					switch x := n.(type) {
					case *ast.IndexExpr:
						if FieldOfSelector(info, x.X) == scope && !stores[x] {
							readers[u.Obj] = true
						}
					case *ast.RangeStmt:
						if FieldOfSelector(info, x.X) == scope {
							readers[u.Obj] = true
						}
					}
					return true
				})
			}
			lexical := map[*types.Func]bool{}
			for r := range readers {
				lexical[r] = true
				for f := range c.staticReach(inLisp, r) {
					lexical[f] = true
				}
			}
			var obs []Obligation
			for _, u := range c.Funcs(inLisp) {
				if u.Decl == nil || u.Decl.Body == nil {
					continue
				}
				info := u.Pkg.TypesInfo
				// the separator index locals: i := strings.IndexByte(X.Str, ':') / strings.Index(X.Str, ":")
				var idxObjs []types.Object
				var defs []*ast.AssignStmt
				ast.Inspect(u.Decl.Body, func(n ast.Node) bool {
					as, ok := n.(*ast.AssignStmt)
					if !ok || len(as.Lhs) != 1 || len(as.Rhs) != 1 {
						return true
					}
					ce, ok := ast.Unparen(as.Rhs[0]).(*ast.CallExpr)
					if !ok || len(ce.Args) != 2 {
						return true
					}
					if !(stdFuncCalled(info, ce, "strings", "IndexByte") || stdFuncCalled(info, ce, "strings", "Index") || stdFuncCalled(info, ce, "strings", "IndexRune")) {
						return true
					}
					if FieldOfSelector(info, ce.Args[0]) != strFld {
						return true
					}
					sep := false
					if v, ok := constantInt64(info.Types[ce.Args[1]]); ok && v == ':' {
						sep = true
					}
					if sv, ok := constStringVal(info, ce.Args[1]); ok && sv == ":" {
						sep = true
					}
					if sep {
						if o := identObj(info, as.Lhs[0]); o != nil {
							idxObjs = append(idxObjs, o)
							defs = append(defs, as)
						}
					}
					return true
				})
				// direct accesses of a lexical scope map keyed by a symbol's text
				type scopeAccess struct {
					ix  *ast.IndexExpr
					sym types.Object
				}
				var accesses []scopeAccess
				ast.Inspect(u.Decl.Body, func(n ast.Node) bool {
					if ix, ok := n.(*ast.IndexExpr); ok && FieldOfSelector(info, ix.X) == scope {
						if se, ok := ast.Unparen(ix.Index).(*ast.SelectorExpr); ok && FieldOfSelector(info, se) == strFld {
							accesses = append(accesses, scopeAccess{ix, identObj(info, se.X)})
						}
					}
					return true
				})
				if len(idxObjs) == 0 {
					// a function that splits the qualifier off a symbol (SplitSymbol) knows the symbol may
					// be package-qualified; if it also indexes a lexical scope with that symbol's text it
					// does so without ever having asked whether there is a qualifier
					split := c.LookupPkgFunc("lisp.SplitSymbol")
					splitOf := map[types.Object]bool{}
					for _, ce := range callsIn(u.Decl.Body, true) {
						if split != nil && originOf(Callee(info, ce)) == split && len(ce.Args) == 1 {
							if o := identObj(info, ce.Args[0]); o != nil {
								splitOf[o] = true
							}
						}
					}
					ord := &ordinal{}
					for _, a := range accesses {
						if a.sym != nil && splitOf[a.sym] {
							obs = append(obs, mkOb(c, rid, u, ord.next("lexical scope indexed by the symbol's text"), a.ix, Violated, "this function resolves the package qualifier of `"+a.sym.Name()+"` (SplitSymbol) and also indexes a lexical scope with the symbol's full text, without a test that the symbol has no qualifier: a slot that a binding form created under the literal key `pkg:name` — which no evaluation can read — is found first, so (let ((user:x 5)) (set! user:x 9) user:x) writes the dead slot and leaves the package binding unchanged", true))
						}
					}
					continue
				}
				ord := &ordinal{}
				for k, idx := range idxObjs {
					// the innermost body (function literal or the declaration) holding the definition
					bu := innermostBody(u.Decl, defs[k])
					fc := c.cfgOf(u, bu.Lit)
					dloc, ok := fc.Locate(defs[k])
					if !ok {
						continue
					}
					cls := func(e ast.Expr) (string, bool) {
						be, ok := ast.Unparen(e).(*ast.BinaryExpr)
						if !ok {
							return "", false
						}
						x, y, op := be.X, be.Y, be.Op
						if identObj(info, y) == idx {
							x, y = y, x
							switch op {
							case token.LSS:
								op = token.GTR
							case token.GTR:
								op = token.LSS
							case token.LEQ:
								op = token.GEQ
							case token.GEQ:
								op = token.LEQ
							}
						}
						if identObj(info, x) != idx {
							return "", false
						}
						kv, isC := intConst(info, y)
						if !isC {
							return "", false
						}
						// "none": there is no separator (idx < 0)
						switch {
						case op == token.LSS && kv == 0, op == token.LEQ && kv == -1, op == token.EQL && kv == -1:
							return "none", false
						case op == token.GEQ && kv == 0, op == token.GTR && kv == -1, op == token.NEQ && kv == -1:
							return "none", true
						}
						return "", false
					}
					unq := fc.edgesEntailing(cls, func(v map[string]bool) bool { return v["none"] })
					for _, b := range fc.G.Blocks {
						if !fc.Live(b) {
							continue
						}
						for i, n := range b.Nodes {
							if !fc.Dominates(dloc, Loc{b, i}) {
								continue
							}
							// a scope map indexed directly with the text of the symbol whose separator was located
							for _, a := range accesses {
								if a.ix.Pos() < n.Pos() || a.ix.End() > n.End() {
									continue
								}
								construct := ord.next("lexical scope indexed by the symbol's text")
								if len(unq) > 0 && !fc.reachableFromAvoiding(dloc.B, b, unq) {
									obs = append(obs, mkOb(c, rid, u, construct, a.ix, Proved, "reached only when the symbol has no package separator", true))
								} else {
									obs = append(obs, mkOb(c, rid, u, construct, a.ix, Violated, "a symbol known to be package-qualified indexes a lexical scope here: a slot created under the literal key `pkg:name` by a binding form shadows the package's binding for this resolver, while the evaluator resolves the same symbol in the package table", true))
								}
							}
							for _, ce := range callsIn(n, false) {
								f := originOf(Callee(info, ce))
								if f == nil || !lexical[f] {
									continue
								}
								construct := ord.next("lexical lookup " + shortName(f))
								if len(unq) > 0 && !fc.reachableFromAvoiding(dloc.B, b, unq) {
									obs = append(obs, mkOb(c, rid, u, construct, ce, Proved, "reached only when the symbol has no package separator", true))
								} else {
									obs = append(obs, mkOb(c, rid, u, construct, ce, Violated, "a symbol known to be package-qualified can be looked up through the lexical scope chain here ("+f.Name()+"): a local binding or macrolet macro of the bare name then shadows the package's binding for this resolver, while the evaluator resolves the same symbol in the package table", true))
								}
							}
						}
					}
				}
			}
			return obs
		}})
}
