package main

import (
	"go/ast"
	"go/types"
)

// CTX.param-forwarded — C04: "cancellation and deadlines … bound work": every
// entry point that ACCEPTS a context must run the evaluation under THAT
// context.  An entry point that takes ctx and then hands a different context
// (the environment's stored one, context.Background()) to the evaluator is
// indistinguishable in every test that does not cancel — and unbounded in
// every caller that does.
func init() {
	register(&Rule{ID: "CTX.param-forwarded", Floor: 15,
		Doc: "in every function of the interpreter packages that has a context.Context parameter, every context-typed argument it passes on (to the evaluator funnels, to another *Context entry point, to a helper) is that parameter or a context derived from it (context.WithX(ctx, …), a local assigned from such a call): no entry point substitutes another context for the one it was given",
		Run: func(c *Ctx) []Obligation {
			const rid = "CTX.param-forwarded"
			var obs []Obligation
			isCtx := func(t types.Type) bool {
				n, ok := types.Unalias(t).(*types.Named)
				return ok && n.Obj().Pkg() != nil && n.Obj().Pkg().Path() == "context" && n.Obj().Name() == "Context"
			}
			for _, u := range c.Funcs(func(p string) bool { return rel(p) == "lisp" || hasPrefix(rel(p), "lisp/") }) {
				if u.Decl == nil || u.Decl.Body == nil || u.Decl.Type.Params == nil {
					continue
				}
				info := u.Pkg.TypesInfo
				var P types.Object
				for _, f := range u.Decl.Type.Params.List {
					for _, nm := range f.Names {
						if o := info.Defs[nm]; o != nil && isCtx(o.Type()) && P == nil {
							P = o
						}
					}
				}
				if P == nil {
					continue
				}
				// derived locals: fixpoint over assignments
				derived := map[types.Object]bool{P: true}
				var isDerived func(e ast.Expr) bool
				isDerived = func(e ast.Expr) bool {
					e = ast.Unparen(e)
					if o := identObj(info, e); o != nil {
						return derived[o]
					}
					if ce, ok := e.(*ast.CallExpr); ok {
						for _, a := range ce.Args {
							if tv, ok := info.Types[a]; ok && isCtx(tv.Type) && isDerived(a) {
								return true
							}
						}
					}
					return false
				}
				for changed := true; changed; {
					changed = false
					ast.Inspect(u.Decl.Body, func(n ast.Node) bool {
						as, ok := n.(*ast.AssignStmt)
						if !ok {
							return true
						}
						for i, l := range as.Lhs {
							o := identObj(info, l)
							if o == nil || derived[o] || !isCtx(o.Type()) {
								continue
							}
							r := as.Rhs[0]
							if len(as.Rhs) == len(as.Lhs) {
								r = as.Rhs[i]
							}
							if isDerived(r) {
								derived[o] = true
								changed = true
							}
						}
						return true
					})
				}
				ord := &ordinal{}
				used := false
				ast.Inspect(u.Decl.Body, func(n ast.Node) bool {
					if id, ok := n.(*ast.Ident); ok && info.Uses[id] == P {
						used = true
					}
					ce, ok := n.(*ast.CallExpr)
					if !ok {
						return true
					}
					// re-entering the evaluator through an entry point that takes NO context: the
					// evaluation continues under whatever context the environment happens to carry
					if f := originOf(Callee(info, ce)); f != nil && c.evalLikeSet()[f] {
						takesCtx := false
						sig := f.Type().(*types.Signature)
						for i := 0; i < sig.Params().Len(); i++ {
							if isCtx(sig.Params().At(i).Type()) {
								takesCtx = true
							}
						}
						if !takesCtx {
							construct := ord.next("context-less re-entry " + shortName(f))
							obs = append(obs, mkOb(c, rid, u, construct, ce, Violated, "the function holds the evaluation's context ("+P.Name()+") but continues the evaluation through "+f.Name()+", which takes none and uses the context stored on the environment: for a form evaluated directly in the root environment or in a function body that is nil or stale, so cancellation and the deadline stop applying to everything "+f.Name()+" runs", true))
						}
					}
					for _, a := range ce.Args {
						tv, ok := info.Types[a]
						if !ok || !isCtx(tv.Type) {
							continue
						}
						name := "?"
						if f := Callee(info, ce); f != nil {
							name = f.Name()
						} else {
							name = types.ExprString(ce.Fun)
						}
						construct := ord.next("context passed to " + name)
						if isDerived(a) {
							obs = append(obs, mkOb(c, rid, u, construct, ce, Proved, "the function's own context (or one derived from it)", false))
						} else {
							obs = append(obs, mkOb(c, rid, u, construct, ce, Violated, "the function takes a context ("+P.Name()+") but passes `"+types.ExprString(a)+"` on instead: cancellation and deadline of the caller's context are lost through this entry point, so a cancelled or expired evaluation keeps running", true))
						}
					}
					return true
				})
				if !used {
					obs = append(obs, mkOb(c, rid, u, "context parameter "+P.Name(), u.Decl, Violated, "the context parameter is never used: the evaluation this function starts cannot be cancelled or bounded by its caller", true))
				}
			}
			return obs
		}})
}

func hasPrefix(s, p string) bool { return len(s) >= len(p) && s[:len(p)] == p }

// CTX.bridge-dominates — C15 / C04 ("time:sleep is bounded by … the deadline
// and cancellation of the context the evaluation runs under"): a builtin learns
// which context it runs under from ONE place: LEnv.call stores the evaluation's
// ctx on the environment it hands to the builtin (env.evalCtx = ctx), and
// env.Context() reads it back.  The store has to happen for every builtin
// call; made conditional ("only if the env has none yet") an environment that
// already carries an OLDER context — the one a previous, finished evaluation
// ran under, or the long-lived one the embedder installed — keeps it, and
// sleep / load obey the wrong deadline.
func init() {
	register(&Rule{ID: "CTX.bridge-dominates", Floor: 1,
		Doc: "in LEnv.call every invocation of a function value of builtin type (the result of Builtin(), called with the environment) is dominated by a store of call's own ctx parameter into that environment's evalCtx field: the store is unconditional, so the callee always sees the context of THIS evaluation, never one left on the environment earlier",
		Run: func(c *Ctx) []Obligation {
			const rid = "CTX.bridge-dominates"
			fn, fd, pkg := c.LookupFunc("lisp.(*LEnv).call")
			fld := c.LookupField("lisp.LEnv.evalCtx")
			if fn == nil || fld == nil {
				return []Obligation{anchorMissing(rid, "LEnv.call / LEnv.evalCtx")}
			}
			u := FuncUnit{fn, fd, pkg}
			info := pkg.TypesInfo
			fc := c.cfgOf(u, nil)
			var ctxP types.Object
			for _, p := range paramObjs(u) {
				if n, ok := types.Unalias(p.Type()).(*types.Named); ok && n.Obj().Pkg() != nil && n.Obj().Pkg().Path() == "context" {
					ctxP = p
				}
			}
			if ctxP == nil {
				return []Obligation{anchorMissing(rid, "the context parameter of LEnv.call")}
			}
			// stores <env>.evalCtx = ctx, by the environment they are made on
			type st struct {
				env types.Object
				loc Loc
			}
			var stores []st
			for _, b := range fc.G.Blocks {
				if !fc.Live(b) {
					continue
				}
				for i, n := range b.Nodes {
					// `defer env.bridge(ctx)()`: the helper stores its parameter on its receiver
					// at once and returns the closure that puts the previous value back
					if ds, isDefer := n.(*ast.DeferStmt); isDefer {
						if inner, isCall := ast.Unparen(ds.Call.Fun).(*ast.CallExpr); isCall {
							if k, onRecv, ok := c.closerHelperStore(originOf(Callee(info, inner)), fld); ok && onRecv && k >= 0 && k < len(inner.Args) && identObj(info, inner.Args[k]) == ctxP {
								if se, isSel := ast.Unparen(inner.Fun).(*ast.SelectorExpr); isSel {
									stores = append(stores, st{identObj(info, se.X), Loc{b, i}})
								}
							}
						}
						continue
					}
					as, ok := n.(*ast.AssignStmt)
					if !ok || len(as.Lhs) != 1 || len(as.Rhs) != 1 {
						continue
					}
					se, ok := ast.Unparen(as.Lhs[0]).(*ast.SelectorExpr)
					if !ok || FieldOfSelector(info, se) != fld || identObj(info, as.Rhs[0]) != ctxP {
						continue
					}
					stores = append(stores, st{identObj(info, se.X), Loc{b, i}})
				}
			}
			dominated := func(env types.Object, at Loc) bool {
				for _, s := range stores {
					if s.env == env && env != nil && fc.Dominates(s.loc, at) {
						return true
					}
				}
				return false
			}
			var obs []Obligation
			ord := &ordinal{}
			for _, b := range fc.G.Blocks {
				if !fc.Live(b) {
					continue
				}
				for i, n := range b.Nodes {
					for _, ce := range callsIn(n, false) {
						// a call of a function VALUE whose first argument is an environment
						if Callee(info, ce) != nil || len(ce.Args) == 0 {
							continue // a declared function: evaluator funnels receive ctx as an argument
						}
						if tv, ok := info.Types[ce.Fun]; !ok || tv.IsType() {
							continue
						}
						if _, isSig := info.TypeOf(ce.Fun).Underlying().(*types.Signature); !isSig {
							continue
						}
						envArg := identObj(info, ce.Args[0])
						if envArg == nil || !hasSuffix(envArg.Type().String(), "lisp.LEnv") {
							continue
						}
						construct := ord.next("builtin invocation")
						if dominated(envArg, Loc{b, i}) {
							obs = append(obs, mkOb(c, rid, u, construct, ce, Proved, "dominated by `env.evalCtx = ctx`", true))
						} else {
							obs = append(obs, mkOb(c, rid, u, construct, ce, Violated, "the builtin can be invoked without this evaluation's context having been stored on the environment it receives (the store is conditional or missing): env.Context() then returns whatever context an earlier evaluation or the embedder left there, and time:sleep / load obey that one's deadline and cancellation", true))
						}
					}
				}
			}
			return obs
		}})
}

func hasSuffix(s, suf string) bool { return len(s) >= len(suf) && s[len(s)-len(suf):] == suf }
