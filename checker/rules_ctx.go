package main

import (
	"go/ast"
	"go/types"
)

// CTX.param-forwarded — C04: "cancellation and deadlines … bound work": every
// entry point that ACCEPTS a context must run the evaluation under THAT
// context.  An entry point that takes ctx and then hands a different context
// (the environment's stored one, context.Background()) to the evaluator is
// indistinguishable in every test that does not cancel — and unbounded in
// every caller that does.
func init() {
	register(&Rule{ID: "CTX.param-forwarded", Floor: 15,
		Doc: "in every function of the interpreter packages that has a context.Context parameter, every context-typed argument it passes on (to the evaluator funnels, to another *Context entry point, to a helper) is that parameter or a context derived from it (context.WithX(ctx, …), a local assigned from such a call): no entry point substitutes another context for the one it was given",
		Run: func(c *Ctx) []Obligation {
			const rid = "CTX.param-forwarded"
			var obs []Obligation
			isCtx := func(t types.Type) bool {
				n, ok := types.Unalias(t).(*types.Named)
				return ok && n.Obj().Pkg() != nil && n.Obj().Pkg().Path() == "context" && n.Obj().Name() == "Context"
			}
			for _, u := range c.Funcs(func(p string) bool { return rel(p) == "lisp" || hasPrefix(rel(p), "lisp/") }) {
				if u.Decl == nil || u.Decl.Body == nil || u.Decl.Type.Params == nil {
					continue
				}
				info := u.Pkg.TypesInfo
				var P types.Object
				for _, f := range u.Decl.Type.Params.List {
					for _, nm := range f.Names {
						if o := info.Defs[nm]; o != nil && isCtx(o.Type()) && P == nil {
							P = o
						}
					}
				}
				if P == nil {
					continue
				}
				// derived locals: fixpoint over assignments
				derived := map[types.Object]bool{P: true}
				var isDerived func(e ast.Expr) bool
				isDerived = func(e ast.Expr) bool {
					e = ast.Unparen(e)
					if o := identObj(info, e); o != nil {
						return derived[o]
					}
					if ce, ok := e.(*ast.CallExpr); ok {
						for _, a := range ce.Args {
							if tv, ok := info.Types[a]; ok && isCtx(tv.Type) && isDerived(a) {
								return true
							}
						}
					}
					return false
				}
				for changed := true; changed; {
					changed = false
					ast.Inspect(u.Decl.Body, func(n ast.Node) bool {
						as, ok := n.(*ast.AssignStmt)
						if !ok {
							return true
						}
						for i, l := range as.Lhs {
							o := identObj(info, l)
							if o == nil || derived[o] || !isCtx(o.Type()) {
								continue
							}
							r := as.Rhs[0]
							if len(as.Rhs) == len(as.Lhs) {
								r = as.Rhs[i]
							}
							if isDerived(r) {
								derived[o] = true
								changed = true
							}
						}
						return true
					})
				}
				ord := &ordinal{}
				used := false
				ast.Inspect(u.Decl.Body, func(n ast.Node) bool {
					if id, ok := n.(*ast.Ident); ok && info.Uses[id] == P {
						used = true
					}
					ce, ok := n.(*ast.CallExpr)
					if !ok {
						return true
					}
					for _, a := range ce.Args {
						tv, ok := info.Types[a]
						if !ok || !isCtx(tv.Type) {
							continue
						}
						name := "?"
						if f := Callee(info, ce); f != nil {
							name = f.Name()
						} else {
							name = types.ExprString(ce.Fun)
						}
						construct := ord.next("context passed to " + name)
						if isDerived(a) {
							obs = append(obs, mkOb(c, rid, u, construct, ce, Proved, "the function's own context (or one derived from it)", false))
						} else {
							obs = append(obs, mkOb(c, rid, u, construct, ce, Violated, "the function takes a context ("+P.Name()+") but passes `"+types.ExprString(a)+"` on instead: cancellation and deadline of the caller's context are lost through this entry point, so a cancelled or expired evaluation keeps running", true))
						}
					}
					return true
				})
				if !used {
					obs = append(obs, mkOb(c, rid, u, "context parameter "+P.Name(), u.Decl, Violated, "the context parameter is never used: the evaluation this function starts cannot be cancelled or bounded by its caller", true))
				}
			}
			return obs
		}})
}

func hasPrefix(s, p string) bool { return len(s) >= len(p) && s[:len(p)] == p }
