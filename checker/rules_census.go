package main

import (
	"path/filepath"
	"os"
	"encoding/json"
	"fmt"
	"go/ast"
	"go/types"
	"sort"
	"strings"
)

// E5 — ownership census: the set of functions that store to a field (directly,
// to an element of its storage, or by taking its address) must be the set that
// was confirmed by reading.  A new writer is reported by name.  Composite
// literal initialisation is construction and is not a store.

type writerSpec struct {
	field     string
	permitted map[string]string // function -> role
	floor     int
	doc       string
}

var writerSpecs = []writerSpec{
	{field: "parser/rdparser.Parser.maxDepth", floor: 0, permitted: map[string]string{
		"parser/rdparser.NewFromSource": "the one constructor every reader mode goes through: strict, fault-tolerant, interactive and format-preserving parsers all get DefaultMaxParseDepth, so they accept and refuse the same nesting",
	}},
	{field: "internal/fmtmeta.Meta.TrailingComment", floor: 2, permitted: map[string]string{
		"parser/rdparser.(*Parser).Parse":                 "a top-level expression's inline comment (written by writeTopLevel)",
		"parser/rdparser.(*Parser).attachTrailingComment": "always on parent.Cells[last], a direct child of a list: never on the operand hidden inside a quote node",
		"lisp.detachMeta":                                 "deep copy of metadata for a detached value",
	}},
	{field: "internal/fmtmeta.Meta.LeadingComments", floor: 2, permitted: map[string]string{
		"parser/rdparser.(*Parser).tokenLVal":            "drains pending comments onto the node being built",
		"parser/rdparser.(*Parser).hoistOperandComments": "moves a prefix form's operand comments onto the prefix node",
		"lisp.detachMeta":                                "deep copy of metadata for a detached value",
	}},
	{field: "internal/fmtmeta.Meta.InnerTrailingComments", floor: 1, permitted: map[string]string{
		"parser/rdparser.(*Parser).captureInnerTrailingComments": "comments between the last child and the closing bracket",
		"lisp.detachMeta": "deep copy of metadata for a detached value",
	}},
	{field: "lisp.CallStack.Frames", floor: 2, permitted: map[string]string{
		"lisp.(*CallStack).PushFID": "the only push (after the height check)",
		"lisp.(*CallStack).Pop":     "the only pop",
		"lisp.detachCallStack":      "rewrites Source of frames of a private copy made for a detached error value",
	}},
	{field: "lisp.CallFrame.Terminal", floor: 4, permitted: map[string]string{
		"lisp.(*LEnv).call":           "marks the frame terminal before evaluating a lambda's last form / a builtin's terminal expression",
		"lisp.(*LEnv).evalSExprCells": "clears the flag while arguments are evaluated and restores it by defer",
		"lisp.builtinFunCall":         "funcall transfers its own tail position to the callee",
		"lisp.builtinApply":           "apply transfers its own tail position to the callee",
		"lisp.(*LEnv).funCall":        "clears the flag when the frame is reused by a tail call (a new call starts non-terminal)",
		"lisp.(*LEnv).specialOpCall":  "clears the flag when the frame is reused by a tail call (a new call starts non-terminal)",
	}},
	{field: "lisp.CallFrame.TROBlock", floor: 6, permitted: map[string]string{
		"lisp.(*LEnv).macroCall": "macro expansion boundary",
		"lisp.opHandlerBind":     "handler-bind frame must survive to run handlers",
		"lisp.opIgnoreErrors":    "ignore-errors frame must survive to swallow the error",
		"lisp.builtinLoadString": "nested load",
		"lisp.builtinLoadBytes":  "nested load",
		"lisp.builtinLoadFile":   "nested load",
	}},
	{field: "lisp.CallFrame.HeightLogical", floor: 1, permitted: map[string]string{
		"lisp.(*LEnv).funCall":       "tail loop accounts for elided frames",
		"lisp.(*LEnv).specialOpCall": "tail loop accounts for elided frames",
	}},
	{field: "lisp.CallFrame.TailIterations", floor: 1, permitted: map[string]string{
		"lisp.(*LEnv).funCall":       "tail loop iteration count",
		"lisp.(*LEnv).specialOpCall": "tail loop iteration count",
	}},
	{field: "lisp.CallStack.GoStack", floor: 1, permitted: map[string]string{
		"lisp.(*LEnv).eval":    "recover handler: the only place a host panic becomes an error",
		"lisp.detachCallStack": "copies the marker onto the detached copy of the same error",
	}},
	{field: "lisp.Runtime.steps", floor: 2, permitted: map[string]string{
		"lisp.(*LEnv).checkLimitsSlow": "charges one step",
		"lisp.(*Runtime).ResetSteps":   "embedder API: folds into totalSteps and zeroes",
		"lisp.(*Runtime).beginEval":    "outermost entry: fresh budget",
	}},
	{field: "lisp.Runtime.maxSteps", floor: 1, permitted: map[string]string{
		"lisp.WithMaxSteps": "configuration option",
	}},
	{field: "lisp.Runtime.totalSteps", floor: 2, permitted: map[string]string{
		"lisp.(*Runtime).ResetSteps": "accumulates finished evaluation",
		"lisp.(*Runtime).beginEval":  "accumulates finished evaluation",
	}},
	{field: "lisp.Runtime.evalDepth", floor: 2, permitted: map[string]string{
		"lisp.(*Runtime).beginEval": "entry",
		"lisp.(*Runtime).endEval":   "exit (deferred by every entry point)",
	}},
	{field: "lisp.Runtime.evalNesting", floor: 1, permitted: map[string]string{
		"lisp.(*LEnv).eval": "increment on entry, deferred decrement",
	}},
	{field: "lisp.Runtime.conditionStack", floor: 2, permitted: map[string]string{
		"lisp.(*Runtime).PushCondition": "push",
		"lisp.(*Runtime).PopCondition":  "pop",
	}},
	{field: "lisp.LEnv.scope", floor: 3, permitted: map[string]string{
		"lisp.(*LEnv).Put":    "binds after the constants guard",
		"lisp.(*LEnv).update": "rebinding; reached only through Update's constants guard",
		"lisp.(*LEnv).Copy":   "fills the scope map of a fresh copy",
	}},
	{field: "lisp.Package.symbols", floor: 1, permitted: map[string]string{
		"lisp.(*Package).put": "the single package-binding store, behind Put/Update's constants guard",
	}},
	{field: "lisp.LEnv.loc", floor: 3, permitted: map[string]string{
		"lisp.(*LEnv).eval":           "current form",
		"lisp.(*LEnv).evalSExprCells": "deferred restore after argument evaluation",
		"lisp.(*LEnv).Eval":           "deferred restore after an operator's sub-form evaluation (LOC.eval-restores)",
		"lisp.(*LEnv).EvalContext":    "deferred restore, the context-taking twin of Eval (LOC.eval-restores)",
		"lisp.(*LEnv).load":           "deferred restore after the forms of a load were evaluated in this environment (LOC.eval-restores)",
		"lisp.findAndUnquote":         "points errors from unquote at the unquoted form, restored before return",
		"lisp.opSetUpdate":            "points the error of a failed set! at the symbol",
		"lisp.opHandlerBind":          "locates the handler call (made with FunCall, not by evaluating a form) at the binding's handler expression",
		"lisp.(*LEnv).funCall":        "locates an eliminated tail call at its own call expression when the frame re-enters the call loop (LOC.tail-reentry-located); deferred restore of the caller's location",
	}},
	{field: "lisp.LEnv.parent", floor: 0, permitted: map[string]string{}},
	{field: "lisp.Runtime.Stack", floor: 0, permitted: map[string]string{}, doc: "direct stores only"},
	{field: "lisp.LVal.sealed", floor: 5, permitted: map[string]string{
		"lisp.(*LVal).sealAST":     "the sealer",
		"lisp.(*LVal).InheritSeal": "propagates the seal onto a view header",
		"lisp.(*LVal).Copy":        "clears the seal on the fresh copy",
		"lisp.(*detacher).detach":  "clears the seal on the fresh detached copy",
		"lisp.builtinCDR":          "view header inherits the source's seal",
		"lisp.builtinRest":         "view header inherits the source's seal",
		"lisp.builtinSlice":        "view header inherits the source's seal",
		"lisp.builtinSortStable":   "copy-on-write: clears the seal on the private copy it sorts",
	}},
}

func runWriterCensus(c *Ctx, sp writerSpec) []Obligation {
	rule := "CENSUS." + sp.field[strings.Index(sp.field, ".")+1:]
	fld := c.LookupField(sp.field)
	if fld == nil {
		return []Obligation{anchorMissing(rule, "field "+sp.field)}
	}
	cs := c.censusFor(nil)
	type agg struct {
		u     FuncUnit
		kinds map[string]int
		first ast.Node
	}
	m := map[string]*agg{}
	for _, w := range c.expandSetterWrites(cs.WritersOf(fld), 0) {
		if w.Kind == "through" && sp.doc == "direct stores only" {
			continue
		}
		if w.Kind == "through" {
			// a store to x.F.g or x.F[i].g changes storage reached through F only when
			// F is a slice/map/array/struct value (not a pointer to another object)
			switch fld.Type().Underlying().(type) {
			case *types.Pointer, *types.Interface:
				continue
			}
		}
		a := m[w.Unit.Name()]
		if a == nil {
			a = &agg{u: w.Unit, kinds: map[string]int{}, first: w.Node}
			m[w.Unit.Name()] = a
		}
		a.kinds[w.Kind]++
	}
	var obs []Obligation
	// site budget: statements may MOVE from a permitted function into a private helper of
	// it, they may not be ADDED there — the sites of the permitted functions and of the
	// helpers that serve them together do not exceed the number confirmed on the audited tree
	total, helpers := 0, 0
	for _, name := range sortedKeys(m) {
		a := m[name]
		n := 0
		for _, k := range a.kinds {
			n += k
		}
		if _, ok := sp.permitted[name]; ok {
			total += n
		} else if _, ok := c.privateHelperOf(a.u.Obj, func(n string) bool { _, p := sp.permitted[n]; return p }, 0); ok {
			total += n
			helpers += n
		}
	}
	c.noteCensusTotal(rule, total-helpers)
	overBudget := helpers > 0 && total > censusBudget(rule)
	for _, name := range sortedKeys(m) {
		a := m[name]
		var ks []string
		for k, n := range a.kinds {
			ks = append(ks, fmt.Sprintf("%s×%d", k, n))
		}
		sort.Strings(ks)
		construct := "writes " + sp.field
		if role, ok := sp.permitted[name]; ok {
			obs = append(obs, mkOb(c, rule, a.u, construct, a.first, Proved, "permitted writer ("+strings.Join(ks, ",")+"): "+role, false))
		} else if via, ok := c.privateHelperOf(a.u.Obj, func(n string) bool { _, p := sp.permitted[n]; return p }, 0); ok && !overBudget {
			obs = append(obs, mkOb(c, rule, a.u, construct, a.first, Proved, "private helper called only by permitted writer(s): "+via, false))
		} else if ok {
			obs = append(obs, mkOb(c, rule, a.u, construct, a.first, Violated,
				fmt.Sprintf("a private helper of %s writes %s, and the confirmed writers together now have %d sites where %d were confirmed: a store was added, not moved", via, sp.field, total, censusBudget(rule)), false))
		} else {
			obs = append(obs, mkOb(c, rule, a.u, construct, a.first, Violated,
				"function is not among the confirmed writers of "+sp.field+" ("+strings.Join(ks, ",")+"); permitted: "+strings.Join(sortedKeys(sp.permitted), ", "), false))
		}
	}
	return obs
}

// callerCensus: the set of functions that call (or take the value of) target.
type callerSpec struct {
	rule      string
	target    string // "lisp.CallStack.TerminalFID" (method) or "lisp.markTailRec" (func)
	method    bool
	permitted map[string]string
	floor     int
	scope     func(string) bool
	// forwarders: one-line functions that only hand the target's result on; their own
	// callers are counted as users of the target (absent forwarders are ignored)
	forwarders []string
}

func runCallerCensus(c *Ctx, sp callerSpec) []Obligation {
	var fn *types.Func
	if sp.method {
		fn = c.LookupMethod(sp.target)
	} else {
		fn = c.LookupPkgFunc(sp.target)
	}
	if fn == nil {
		return []Obligation{anchorMissing(sp.rule, sp.target)}
	}
	targets := []*types.Func{fn}
	for _, f := range sp.forwarders {
		if ff := c.LookupPkgFunc(f); ff != nil {
			targets = append(targets, ff)
		}
	}
	sites, refs := c.CallsTo(sp.scope, targets...)
	type agg struct {
		u FuncUnit
		n int
		f ast.Node
	}
	m := map[string]*agg{}
	for _, s := range append(sites, refs...) {
		a := m[s.Unit.Name()]
		if a == nil {
			var n ast.Node = s.Call
			if s.Call == nil {
				n = s.Stack[len(s.Stack)-1]
			}
			a = &agg{u: s.Unit, f: n}
			m[s.Unit.Name()] = a
		}
		a.n++
	}
	var obs []Obligation
	total, helpers := 0, 0
	for _, name := range sortedKeys(m) {
		a := m[name]
		if _, ok := sp.permitted[name]; ok {
			total += a.n
		} else if _, ok := c.privateHelperOf(a.u.Obj, func(n string) bool { _, p := sp.permitted[n]; return p }, 0); ok {
			total += a.n
			helpers += a.n
		}
	}
	c.noteCensusTotal(sp.rule, total-helpers)
	overBudget := helpers > 0 && total > censusBudget(sp.rule)
	for _, name := range sortedKeys(m) {
		a := m[name]
		construct := "uses " + sp.target
		if role, ok := sp.permitted[name]; ok {
			obs = append(obs, mkOb(c, sp.rule, a.u, construct, a.f, Proved, fmt.Sprintf("permitted user (%d sites): %s", a.n, role), false))
		} else if via, ok := c.privateHelperOf(a.u.Obj, func(n string) bool { _, p := sp.permitted[n]; return p }, 0); ok && !overBudget {
			obs = append(obs, mkOb(c, sp.rule, a.u, construct, a.f, Proved, "private helper called only by permitted user(s): "+via, false))
		} else if ok {
			obs = append(obs, mkOb(c, sp.rule, a.u, construct, a.f, Violated,
				fmt.Sprintf("a private helper of %s uses %s, and the confirmed users together now have %d sites where %d were confirmed: a use was added, not moved", via, sp.target, total, censusBudget(sp.rule)), false))
		} else {
			obs = append(obs, mkOb(c, sp.rule, a.u, construct, a.f, Violated,
				fmt.Sprintf("function is not among the confirmed users of %s (%d sites); permitted: %s", sp.target, a.n, strings.Join(sortedKeys(sp.permitted), ", ")), false))
		}
	}
	return obs
}

func init() {
	for _, sp := range writerSpecs {
		sp := sp
		rule := "CENSUS." + sp.field[strings.Index(sp.field, ".")+1:]
		register(&Rule{ID: rule, Floor: sp.floor,
			Doc: "the functions that store to " + sp.field + " are exactly the confirmed set",
			Run: func(c *Ctx) []Obligation { return runWriterCensus(c, sp) }})
	}
	callerSpecs := []callerSpec{
		{rule: "CALLERS.TerminalFID", target: "lisp.CallStack.TerminalFID", method: true, floor: 1, permitted: map[string]string{
			"lisp.(*LEnv).funCall": "the only place a tail call is recognised"}},
		{rule: "CALLERS.markTailRec", target: "lisp.markTailRec", floor: 1, permitted: map[string]string{
			"lisp.(*LEnv).funCall": "the only producer of a tail-recursion mark"}},
		{rule: "CALLERS.decrementMarkTailRec", target: "lisp.decrementMarkTailRec", floor: 2, permitted: map[string]string{
			"lisp.(*LEnv).funCall":       "unwinds one frame of the mark",
			"lisp.(*LEnv).specialOpCall": "unwinds one frame of the mark"}},
		// the census is taken on the accessor that opens a mark (and on its forwarder, while one exists):
		// inlining the one-line forwarder into its callers moves no use
		{rule: "CALLERS.extractMarkTailRec", target: "lisp.LVal.tailRecFun", method: true, forwarders: []string{"lisp.extractMarkTailRec"}, floor: 1, permitted: map[string]string{
			"lisp.extractMarkTailRec":    "the one-line forwarder handing the mark's function and arguments to the call loops",
			"lisp.(*LEnv).funCall":       "re-enters the call loop",
			"lisp.(*LEnv).specialOpCall": "re-enters the call loop"}},
		{rule: "CALLERS.markMacExpand", target: "lisp.markMacExpand", floor: 1, permitted: map[string]string{
			"lisp.(*LEnv).macroCall": "the only producer of an expansion marker"}},
		{rule: "CALLERS.beginEval", target: "lisp.Runtime.beginEval", method: true, floor: 10, permitted: nil},
		{rule: "CALLERS.PushCondition", target: "lisp.Runtime.PushCondition", method: true, floor: 1, permitted: map[string]string{
			"lisp.opHandlerBind": "makes the handled error available to rethrow"}},
		{rule: "CALLERS.PopCondition", target: "lisp.Runtime.PopCondition", method: true, floor: 1, permitted: map[string]string{
			"lisp.opHandlerBind": "deferred pop"}},
	}
	callerSpecs = append(callerSpecs,
		callerSpec{rule: "CALLERS.NewScannerString", target: "parser/token.NewScannerString", floor: 1, permitted: map[string]string{
			"parser/rdparser.readsBackAsSymbol": "re-scans a fragment of one already-scanned token; the fragment is smaller than the window it came through"}},
		callerSpec{rule: "CALLERS.newScannerBuf", target: "parser/token.newScannerBuf", floor: 2, permitted: map[string]string{
			"parser/token.NewScanner":       "the fixed DefaultBufSize window every source reader uses",
			"parser/token.NewScannerString": "window sized to an in-memory fragment (callers restricted by CALLERS.NewScannerString)"}},
	)
	callerSpecs = append(callerSpecs,
		callerSpec{rule: "CALLERS.hoistOperandComments", target: "parser/rdparser.Parser.hoistOperandComments", method: true, floor: 3, permitted: map[string]string{
			"parser/rdparser.(*Parser).ParseQuote":   "comments in front of a quoted datum move onto the quote node, which the list printers write",
			"parser/rdparser.(*Parser).ParseUnbound": "same for #^",
			"parser/rdparser.(*Parser).ParseFunRef":  "same for #'"}},
	)
	callerSpecs = append(callerSpecs,
		callerSpec{rule: "CALLERS.getUnquoteType", target: "lisp.getUnquoteType", floor: 1, permitted: map[string]string{
			"lisp.findAndUnquote": "the one walker that decides what in a quasiquote template is an unquote form"}},
	)
	callerSpecs = append(callerSpecs,
		callerSpec{rule: "CALLERS.Package.Put", target: "lisp.Package.Put", method: true, floor: 5, permitted: map[string]string{
			"lisp.(*LEnv).PutGlobal":     "the one binding store behind set/defun/defmacro/defconst: splits a qualified symbol, refuses keywords, then stores",
			"lisp.(*LEnv).UsePackage":    "copies the exported bindings of the used package",
			"lisp.(*LEnv).AddMacros":     "host registration of macros",
			"lisp.(*LEnv).AddSpecialOps": "host registration of special operators",
			"lisp.(*LEnv).AddBuiltins":   "host registration of builtins",
			"lisp.InitializeTypedef":     "defines the typedef type in the language package at start-up"}},
		callerSpec{rule: "CALLERS.Package.Update", target: "lisp.Package.Update", method: true, floor: 2, permitted: map[string]string{
			"lisp.(*LEnv).update": "the one store behind set!: lexical scopes first, then the current package",
			"lisp/x/debugger/dapserver.(*handler).onSetVariable": "the debugger's setVariable request on a package-level variable (host tooling, not reachable from a program)"}},
	)
	callerSpecs = append(callerSpecs,
		callerSpec{rule: "CALLERS.eval", target: "lisp.LEnv.eval", method: true, floor: 5, permitted: map[string]string{
			"lisp.(*LEnv).Eval":          "the entry every special operator and builtin uses for a sub-form: saves and restores the location register around the raw evaluator (LOC.eval-restores), begins an evaluation",
			"lisp.(*LEnv).EvalContext":   "the same entry with a context",
			"lisp.(*LEnv).load":          "evaluates the forms of a loaded source one by one; saves and restores location and package itself (PAIR.load-package, LOC.eval-restores)",
			"lisp.(*LEnv).evalSExprCells": "the evaluator itself: head and arguments of an application, under its own deferred location restore (PAIR.loc)",
			"lisp.(*LEnv).call":          "the evaluator itself: the body forms of a lisp function in the callee's fresh environment, and the terminal expression of a collapsed tail call"}},
	)
	for _, sp := range callerSpecs {
		sp := sp
		if sp.permitted == nil {
			continue
		}
		register(&Rule{ID: sp.rule, Floor: sp.floor,
			Doc: "the functions that call " + sp.target + " are exactly the confirmed set",
			Run: func(c *Ctx) []Obligation { return runCallerCensus(c, sp) }})
	}
}

// privateHelperOf: is f a private helper of the allowed functions?  True when f
// is unexported, is never used as a value, has at least one call site in the
// module, and every function that calls it is allowed or is itself such a
// helper.  A census ("only these functions may do X") is about where X
// originates; statements moved unchanged from an allowed function into a helper
// only that function calls have not gained an origin.  The helper's name is
// reported with the function it serves.
func (c *Ctx) privateHelperOf(f *types.Func, allowed func(name string) bool, depth int) (string, bool) {
	if f == nil || f.Exported() || depth > 3 {
		return "", false
	}
	sites, refs := c.CallsTo(func(string) bool { return true }, f)
	if len(refs) > 0 || len(sites) == 0 {
		return "", false
	}
	var via []string
	seen := map[string]bool{}
	for _, s := range sites {
		name := s.Unit.Name()
		if s.Unit.Obj == originOf(f) {
			continue // recursion
		}
		if seen[name] {
			continue
		}
		seen[name] = true
		if allowed(name) {
			via = append(via, name)
			continue
		}
		if inner, ok := c.privateHelperOf(s.Unit.Obj, allowed, depth+1); ok {
			via = append(via, name+" ("+inner+")")
			continue
		}
		return "", false
	}
	if len(via) == 0 {
		return "", false
	}
	sort.Strings(via)
	return strings.Join(via, ", "), true
}

// census site budgets (tables/census_budget.json): for every census rule the
// number of sites its permitted functions had on the audited tree.  Written by
// `elpscheck -census-budget`, never at check time.
var censusBudgetTable map[string]int

func censusBudget(rule string) int {
	if censusBudgetTable == nil {
		censusBudgetTable = map[string]int{}
		if b, err := os.ReadFile(filepath.Join(verifDir(), "tables", "census_budget.json")); err == nil {
			_ = json.Unmarshal(b, &censusBudgetTable)
		}
	}
	return censusBudgetTable[rule]
}

func (c *Ctx) noteCensusTotal(rule string, n int) {
	m, _ := c.memo["censusTotals"].(map[string]int)
	if m == nil {
		m = map[string]int{}
		c.memo["censusTotals"] = m
	}
	m[rule] = n
}

// servesPermitted: the function named fname is a private helper (see
// privateHelperOf) of functions accepted by has.
func (c *Ctx) servesPermitted(fname string, has func(string) bool) (string, bool) {
	fn, _, _ := c.LookupFunc(fname)
	if fn == nil {
		return "", false
	}
	return c.privateHelperOf(fn, has, 0)
}

// withHelpers returns u followed by its private helpers: the unexported
// same-package functions (and methods) it calls, directly or through another
// such helper (depth 3), that are never used as values.  Rules that look for a
// construct "in function F" look in this set, so that moving statements from F
// into a helper only F uses does not hide them.
func (c *Ctx) withHelpers(u FuncUnit) []FuncUnit {
	key := "withHelpers:" + u.Name()
	if v, ok := c.memo[key].([]FuncUnit); ok {
		return v
	}
	out := []FuncUnit{u}
	in := map[*types.Func]bool{u.Obj: true}
	for depth := 0; depth < 3; depth++ {
		added := false
		for _, cur := range append([]FuncUnit(nil), out...) {
			if cur.Decl == nil || cur.Decl.Body == nil {
				continue
			}
			for _, ce := range callsIn(cur.Decl.Body, true) {
				g := originOf(Callee(cur.Pkg.TypesInfo, ce))
				if g == nil || in[g] || g.Exported() || g.Pkg() != u.Obj.Pkg() {
					continue
				}
				gd := c.declOf[g]
				if gd == nil || gd.Body == nil {
					continue
				}
				// a private function of the package that is only ever called (never
				// taken as a value) and is not one of the evaluator funnels
				_, refs := c.CallsTo(func(p string) bool { return true }, g)
				ok := len(refs) == 0 && !c.evalLikeSet()[g]
				if ok {
					in[g] = true
					out = append(out, FuncUnit{g, gd, c.pkgOf[gd]})
					added = true
				}
			}
		}
		if !added {
			break
		}
	}
	c.memo[key] = out
	return out
}
