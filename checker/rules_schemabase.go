package main

import (
	"go/ast"
	"go/token"
	"go/types"
	"sort"
	"strings"
)

// SCHEMA.base-type-exact — C14 ("s:validate succeeds exactly when the value has
// the declared type"): every base type name of the schema library is checked by
// its own handler, and each handler opens with a test of the value's type.  A
// handler that lets a second type through ("a byte sequence is bytes or a
// string") approves values that do not have the declared type — silently, and
// for every composite constraint built on it.
func init() {
	register(&Rule{ID: "SCHEMA.base-type-exact", Floor: 5,
		Doc: "every base-type handler getHandler dispatches to (one per type-name case of its switch) that refuses a value by a test of the value's Type accepts exactly ONE LType constant there (`input.Type != lisp.LX`); the only handler whose test admits several types is the documented numeric union (`number`: int or float)",
		Run: func(c *Ctx) []Obligation {
			const rid = "SCHEMA.base-type-exact"
			fn, fd, pkg := c.LookupFunc("lisp/lisplib/libschema.getHandler")
			typeFld := c.LookupField("lisp.LVal.Type")
			if fn == nil || typeFld == nil {
				return []Obligation{anchorMissing(rid, "libschema.getHandler / LVal.Type")}
			}
			info := pkg.TypesInfo
			unions := map[string]string{"Number": "the numeric union: an int or a float is a number"}
			var obs []Obligation
			ast.Inspect(fd.Body, func(n ast.Node) bool {
				sw, ok := n.(*ast.SwitchStmt)
				if !ok || sw.Tag == nil {
					return true
				}
				for _, cl := range sw.Body.List {
					cc := cl.(*ast.CaseClause)
					if len(cc.List) != 1 {
						continue
					}
					k, ok := identObjOrSel(info, cc.List[0]).(*types.Const)
					if !ok {
						continue
					}
					// the handler called in this clause
					var h *types.Func
					for _, st := range cc.Body {
						for _, ce := range callsIn(st, false) {
							if f := originOf(Callee(info, ce)); f != nil && f.Pkg() == fn.Pkg() && h == nil {
								h = f
							}
						}
					}
					hd := c.declOf[h]
					if h == nil || hd == nil || hd.Body == nil {
						continue
					}
					hu := FuncUnit{h, hd, c.pkgOf[hd]}
					hinfo := hu.Pkg.TypesInfo
					// type tests that refuse: conjunctions of `X.Type != K` in an if condition
					accepted := map[string]bool{}
					var at ast.Node = hd
					ast.Inspect(hd.Body, func(m ast.Node) bool {
						is, ok := m.(*ast.IfStmt)
						if !ok {
							return true
						}
						var ks []string
						pure := true
						var walk func(e ast.Expr)
						walk = func(e ast.Expr) {
							e = ast.Unparen(e)
							be, ok := e.(*ast.BinaryExpr)
							if !ok {
								pure = false
								return
							}
							if be.Op == token.LAND {
								walk(be.X)
								walk(be.Y)
								return
							}
							if be.Op == token.NEQ && FieldOfSelector(hinfo, be.X) == typeFld {
								if kc, ok := identObjOrSel(hinfo, be.Y).(*types.Const); ok {
									ks = append(ks, kc.Name())
									return
								}
							}
							pure = false
						}
						walk(is.Cond)
						if pure && len(ks) > 0 && len(accepted) == 0 {
							for _, x := range ks {
								accepted[x] = true
							}
							at = is
						}
						return true
					})
					if len(accepted) == 0 {
						continue // no type test (bool compares symbols, any accepts everything)
					}
					var names []string
					for x := range accepted {
						names = append(names, x)
					}
					sort.Strings(names)
					construct := "type " + k.Name()
					switch {
					case len(names) == 1:
						obs = append(obs, mkOb(c, rid, hu, construct, at, Proved, "accepts exactly "+names[0], true))
					case unions[k.Name()] != "":
						obs = append(obs, mkOb(c, rid, hu, construct, at, Proved, "accepts "+strings.Join(names, ", ")+": "+unions[k.Name()], true))
					default:
						obs = append(obs, mkOb(c, rid, hu, construct, at, Violated, "the handler of the base type `"+k.Name()+"` lets values of "+strings.Join(names, " and ")+" through: a value of the second type is approved although it does not have the declared type (alone and inside s:of / s:has-key built on it)", true))
					}
				}
				return true
			})
			return obs
		}})
}
