package main

import (
	"go/ast"
	"go/types"
)

// POLL.int-loops — loops whose trip count is a run-time integer (not the
// length of a container already in memory) must be interruptible or bounded.

// boundKind classifies an integer bound expression.
func boundKind(info *types.Info, e ast.Expr) string {
	if tv, ok := info.Types[e]; ok && tv.Value != nil {
		return "const"
	}
	kind := "data"
	sawValue := false
	ast.Inspect(e, func(n ast.Node) bool {
		switch x := n.(type) {
		case *ast.CallExpr:
			if id, ok := ast.Unparen(x.Fun).(*ast.Ident); ok {
				if _, isB := info.Uses[id].(*types.Builtin); isB && (id.Name == "len" || id.Name == "cap" || id.Name == "min") {
					if id.Name != "min" {
						return false // len(...) is data-bounded; do not look inside
					}
				}
			}
			if se, ok := ast.Unparen(x.Fun).(*ast.SelectorExpr); ok {
				switch se.Sel.Name {
				case "Len", "NumIn", "NumOut", "NumField", "NumMethod", "Size", "RuneCountInString":
					return false
				}
			}
		case *ast.Ident:
			if v, ok := info.Uses[x].(*types.Var); ok {
				if b, isBasic := v.Type().Underlying().(*types.Basic); isBasic && b.Info()&types.IsNumeric != 0 {
					sawValue = true
				}
			}
		case *ast.SelectorExpr:
			if f := FieldOfSelector(info, x); f != nil {
				if b, isBasic := f.Type().Underlying().(*types.Basic); isBasic && b.Info()&types.IsNumeric != 0 {
					sawValue = true
					return false
				}
			}
		}
		return true
	})
	if sawValue {
		kind = "value"
	}
	return kind
}

func init() {
	register(&Rule{ID: "POLL.int-loops", Floor: 2,
		Doc: "a loop in the kernel whose bound is the run-time integer of a lisp value (LVal.Int / LVal.Float) polls checkLimits or evaluates lisp on every iteration, or follows a CheckAlloc on the same function path",
		Run: func(c *Ctx) []Obligation {
			intF := c.LookupField("lisp.LVal.Int")
			floatF := c.LookupField("lisp.LVal.Float")
			cl := c.LookupMethod("lisp.LEnv.checkLimits")
			ca := c.LookupMethod("lisp.Runtime.CheckAlloc")
			if intF == nil || floatF == nil || cl == nil || ca == nil {
				return []Obligation{anchorMissing("POLL.int-loops", "LVal.Int/Float, checkLimits, CheckAlloc")}
			}
			ev := c.evalLikeSet()
			var lvalPtr types.Type
			if n := c.LookupType("lisp.LVal"); n != nil {
				lvalPtr = types.NewPointer(n)
			}
			var obs []Obligation
			for _, u := range c.Funcs(isKernel) {
				info := u.Pkg.TypesInfo
				// local ints assigned (once) from an LVal.Int/Float read
				fromLVal := map[types.Object]bool{}
				isNumericObj := func(o types.Object) bool {
					v, ok := o.(*types.Var)
					if !ok {
						return false
					}
					b, isBasic := v.Type().Underlying().(*types.Basic)
					return isBasic && b.Info()&types.IsNumeric != 0
				}
				mentionsLVal := func(e ast.Expr) bool {
					found := false
					ast.Inspect(e, func(n ast.Node) bool {
						if ce, ok := n.(*ast.CallExpr); ok {
							if id, ok := ast.Unparen(ce.Fun).(*ast.Ident); ok {
								if _, isB := info.Uses[id].(*types.Builtin); isB && (id.Name == "len" || id.Name == "cap") {
									return false
								}
							}
						}
						if se, ok := n.(*ast.SelectorExpr); ok {
							if f := FieldOfSelector(info, se); f == intF || f == floatF {
								found = true
							}
						}
						if id, ok := n.(*ast.Ident); ok && fromLVal[info.Uses[id]] {
							found = true
						}
						return !found
					})
					return found
				}
				// loop whose progress variable is itself a lisp number: for x := a; less(x, b); x = add(x, s)
				lvalProgress := func(fs *ast.ForStmt) bool {
					// the progress assignment: the post statement, or an assignment in the body to an
					// *LVal local the condition reads (`for x := a; less(x, b); { …; x = next }`)
					var as *ast.AssignStmt
					if pa, ok := fs.Post.(*ast.AssignStmt); ok && len(pa.Lhs) == 1 {
						as = pa
					} else if fs.Post == nil && fs.Cond != nil {
						ast.Inspect(fs.Body, func(m ast.Node) bool {
							ba, ok := m.(*ast.AssignStmt)
							if !ok || len(ba.Lhs) != 1 || as != nil {
								return true
							}
							bo := identObj(info, ba.Lhs[0])
							if bv, isVar := bo.(*types.Var); !isVar || lvalPtr == nil || !types.Identical(bv.Type(), lvalPtr) {
								return true
							}
							// the condition hands the value itself to a comparison function (less(x, stop));
							// a loop that follows a structure (`for v.Type == LQuote { v = v.Cells[0] }`) is not this
							inCond := false
							if cc, ok := ast.Unparen(fs.Cond).(*ast.CallExpr); ok {
								for _, a := range cc.Args {
									if identObj(info, a) == bo {
										inCond = true
									}
								}
							}
							if inCond {
								as = ba
							}
							return true
						})
					}
					if as == nil {
						return false
					}
					o := identObj(info, as.Lhs[0])
					v, isVar := o.(*types.Var)
					if !isVar || lvalPtr == nil || !types.Identical(v.Type(), lvalPtr) {
						return false
					}
					used := false
					ast.Inspect(fs.Cond, func(n ast.Node) bool {
						if id, ok := n.(*ast.Ident); ok && info.Uses[id] == o {
							used = true
						}
						return !used
					})
					return used
				}
				for pass := 0; pass < 3; pass++ {
					ast.Inspect(u.Decl.Body, func(n ast.Node) bool {
						as, ok := n.(*ast.AssignStmt)
						if !ok || len(as.Lhs) != len(as.Rhs) {
							return true
						}
						for i, l := range as.Lhs {
							if o := identObj(info, l); o != nil && isNumericObj(o) && mentionsLVal(as.Rhs[i]) {
								fromLVal[o] = true
							}
						}
						return true
					})
				}
				ord := &ordinal{}
				ast.Inspect(u.Decl.Body, func(n ast.Node) bool {
					var bound ast.Expr
					var body *ast.BlockStmt
					isLValLoop := false
					switch s := n.(type) {
					case *ast.RangeStmt:
						tv, ok := info.Types[s.X]
						if !ok {
							return true
						}
						if b, isBasic := tv.Type.Underlying().(*types.Basic); !isBasic || b.Info()&types.IsInteger == 0 {
							return true
						}
						bound, body = s.X, s.Body
					case *ast.ForStmt:
						if s.Cond == nil {
							return true
						}
						bound, body = s.Cond, s.Body
						if lvalProgress(s) {
							isLValLoop = true
						}
					default:
						return true
					}
					if !isLValLoop && !mentionsLVal(bound) {
						return true
					}
					construct := ord.next("loop bounded by " + types.ExprString(bound))
					polls, evals := false, false
					for _, ce := range callsIn(body, false) {
						fn := originOf(Callee(info, ce))
						if fn == cl {
							polls = true
						}
						if fn != nil && ev[fn] {
							evals = true
						}
					}
					alloc := false
					for _, ce := range callsIn(body, false) {
						if originOf(Callee(info, ce)) == ca {
							alloc = true
						}
					}
					for _, ce := range callsIn(u.Decl.Body, false) {
						if originOf(Callee(info, ce)) == ca && ce.Pos() < n.Pos() {
							alloc = true
						}
					}
					switch {
					case polls:
						obs = append(obs, mkOb(c, "POLL.int-loops", u, construct, n, Proved, "loop body calls checkLimits", true))
					case evals:
						obs = append(obs, mkOb(c, "POLL.int-loops", u, construct, n, Proved, "loop body evaluates lisp (each evaluation polls)", true))
					case alloc:
						obs = append(obs, mkOb(c, "POLL.int-loops", u, construct, n, Proved, "a CheckAlloc runs in or before the loop in this function (trip count capped by MaxAlloc)", true))
					default:
						obs = append(obs, mkOb(c, "POLL.int-loops", u, construct, n, Violated, "loop count comes from a lisp integer and the loop neither polls the limits nor is capped by CheckAlloc: uninterruptible work", true))
					}
					return true
				})
			}
			return obs
		}})
}
