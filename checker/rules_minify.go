package main

import (
	"fmt"
	"go/ast"
	"go/token"
	"go/types"
	"sort"
	"strings"

	"golang.org/x/tools/go/callgraph"
	"golang.org/x/tools/go/cfg"
	"golang.org/x/tools/go/ssa"
)

// C17 (determinism sentence): only map iteration that can run during a minify
// session matters.  The entry points are the exported API of package minifier
// and lint.BuildAnalysisConfig, which the `minify --workspace` command uses to
// build Config.Analysis.  Reachability is decided on the VTA call graph
// (interfaces, closures and method values resolved), so "unreachable" is a sound
// over-approximation-based verdict: if VTA has no path, there is no call.

func (c *Ctx) minifyEntryFuncs() []*ssa.Function {
	prog := c.SSA()
	var out []*ssa.Function
	for _, u := range c.Funcs(func(p string) bool { return rel(p) == "minifier" || rel(p) == "lint" }) {
		r := rel(u.Pkg.PkgPath)
		if r == "lint" && u.Obj.Name() != "BuildAnalysisConfig" {
			continue
		}
		if r == "minifier" && !u.Obj.Exported() {
			continue
		}
		if r == "minifier" {
			// methods on unexported types are not API
			if sig, ok := u.Obj.Type().(*types.Signature); ok && sig.Recv() != nil {
				t := sig.Recv().Type()
				if p, ok := t.(*types.Pointer); ok {
					t = p.Elem()
				}
				if n, ok := types.Unalias(t).(*types.Named); ok && !n.Obj().Exported() {
					continue
				}
			}
		}
		if f := prog.FuncValue(u.Obj); f != nil {
			out = append(out, f)
		}
	}
	sort.Slice(out, func(i, j int) bool { return out[i].String() < out[j].String() })
	return out
}

func (c *Ctx) minifyReachable() (map[*ssa.Function]bool, []*ssa.Function) {
	cg := c.CallGraph()
	entries := c.minifyEntryFuncs()
	seen := map[*ssa.Function]bool{}
	c.minifyParent = map[*ssa.Function]*ssa.Function{}
	var work []*callgraph.Node
	for _, f := range entries {
		if n := cg.Nodes[f]; n != nil && !seen[f] {
			seen[f] = true
			work = append(work, n)
		}
	}
	// Only packages in the import closure of the entry packages can run during a
	// minify call: a function outside it (the LSP server, the REPL) could only be
	// entered through a callback that such code registered, and it cannot have
	// run.  Without this cut VTA's imprecision on io/context interfaces connects
	// everything to everything (minifier -> io.Reader -> websocket -> lsp -> ...).
	closure := map[string]bool{}
	var addPkg func(p *types.Package)
	addPkg = func(p *types.Package) {
		if p == nil || closure[p.Path()] {
			return
		}
		closure[p.Path()] = true
		for _, q := range p.Imports() {
			addPkg(q)
		}
	}
	for _, f := range entries {
		if f.Pkg != nil {
			addPkg(f.Pkg.Pkg)
		}
	}
	for len(work) > 0 {
		n := work[len(work)-1]
		work = work[:len(work)-1]
		for _, e := range n.Out {
			if pp := funcPkgPath(e.Callee.Func); pp != "" && !closure[pp] {
				continue
			}
			if f := e.Callee.Func; f != nil && !seen[f] {
				seen[f] = true
				c.minifyParent[f] = n.Func
				work = append(work, e.Callee)
			}
		}
		// a function's closures run when it does (they may also be returned and
		// called elsewhere, which VTA covers; including them here is conservative)
		for _, anon := range n.Func.AnonFuncs {
			if !seen[anon] {
				seen[anon] = true
				c.minifyParent[anon] = n.Func
				if an := cg.Nodes[anon]; an != nil {
					work = append(work, an)
				}
			}
		}
	}
	return seen, entries
}

func init() {
	register(&Rule{ID: "DET.map-range-minify", Floor: 10,
		Doc: "every range over a Go map in a function that can run during a minify session (reachable in the call graph from minifier's exported API or lint.BuildAnalysisConfig) has an order-insensitive body: stores into maps, per-key normalisation, counting, flags, or fills a slice that is sorted afterwards",
		Run: func(c *Ctx) []Obligation {
			reach, entries := c.minifyReachable()
			prog := c.SSA()
			var obs []Obligation
			if len(entries) < 3 {
				obs = append(obs, Obligation{Rule: "DET.map-range-minify", Func: "minifier", Construct: "entry points", Verdict: Undecided,
					Detail: fmt.Sprintf("only %d minify entry points resolved (expected Minify, MinifySource, BuildAnalysisConfig, ...)", len(entries))})
			}
			isReach := func(u FuncUnit) bool {
				f := prog.FuncValue(u.Obj)
				if f == nil {
					return true // cannot tell: keep the obligation
				}
				if reach[f] {
					return true
				}
				var anyAnon func(g *ssa.Function) bool
				anyAnon = func(g *ssa.Function) bool {
					for _, a := range g.AnonFuncs {
						if reach[a] || anyAnon(a) {
							return true
						}
					}
					return false
				}
				if !anyAnon(f) {
					return false
				}
				// only a closure of u is reachable (typically a sort comparator that
				// VTA cannot tell from others): u's own ranges do not run; a range
				// inside one of its function literals might.
				inLit := false
				ast.Inspect(u.Decl.Body, func(n ast.Node) bool {
					if fl, ok := n.(*ast.FuncLit); ok {
						ast.Inspect(fl.Body, func(m ast.Node) bool {
							if _, ok := m.(*ast.RangeStmt); ok {
								inLit = true
							}
							return !inLit
						})
					}
					return !inLit
				})
				return inLit
			}
			units := map[string]FuncUnit{}
			scope := func(p string) bool {
				r := rel(p)
				return isTooling(p) || r == "astutil" || r == "lisp/x/astutil"
			}
			for _, u := range c.Funcs(scope) {
				units[u.Name()] = u
			}
			nreach := 0
			for _, o := range c.mapRangeObligations("DET.map-range-minify", scope) {
				u, ok := units[o.Func]
				if ok && !isReach(u) {
					o.Verdict = Proved
					o.Detail = "not reachable from a minify entry point in the VTA call graph (cannot run during minification): " + o.Detail
					o.Nontrivial = true
				} else {
					nreach++
					if ok && o.Verdict != Proved {
						o.Detail += "; runs during minification via " + c.minifyChain(prog.FuncValue(u.Obj))
					}
				}
				obs = append(obs, o)
			}
			if nreach < 8 {
				obs = append(obs, Obligation{Rule: "DET.map-range-minify", Func: "minifier", Construct: "reachable sites", Verdict: Undecided,
					Detail: fmt.Sprintf("only %d map ranges found on minify paths (confirmed by hand: at least 8)", nreach)})
			}
			return obs
		}})
}

func (c *Ctx) minifyChain(f *ssa.Function) string {
	var names []string
	for i := 0; f != nil && i < 12; i++ {
		names = append(names, f.String())
		f = c.minifyParent[f]
	}
	out := ""
	for i := len(names) - 1; i >= 0; i-- {
		if out != "" {
			out += " -> "
		}
		out += names[i]
	}
	return out
}

// ---- backing rules for the two audited map ranges on minify paths ----

func init() {
	register(&Rule{ID: "MINIFY.analysis-config", Floor: 2,
		Doc: "package minifier analyses every file with a configuration built by mergeAnalysisConfig, and never sets analysis.Config.PackageImports (the analyzer's workspace-import loop, which walks a map, therefore cannot run in a minify session)",
		Run: func(c *Ctx) []Obligation {
			analyze, _, _ := c.LookupFunc("analysis.Analyze")
			merge, _, _ := c.LookupFunc("minifier.mergeAnalysisConfig")
			fld := c.LookupField("analysis.Config.PackageImports")
			if analyze == nil || merge == nil || fld == nil {
				return []Obligation{anchorMissing("MINIFY.analysis-config", "analysis.Analyze / minifier.mergeAnalysisConfig / Config.PackageImports")}
			}
			var obs []Obligation
			ncalls := 0
			for _, u := range c.Funcs(func(p string) bool { return rel(p) == "minifier" }) {
				info := u.Pkg.TypesInfo
				ord := &ordinal{}
				ast.Inspect(u.Decl.Body, func(n ast.Node) bool {
					switch x := n.(type) {
					case *ast.CallExpr:
						if Callee(info, x) != analyze || len(x.Args) < 2 {
							return true
						}
						ncalls++
						construct := ord.next("call analysis.Analyze")
						cfgObj := identObj(info, x.Args[1])
						okCfg := false
						if cfgObj != nil {
							if dc, _, _ := definingCall(info, u.Decl.Body, cfgObj); dc != nil && Callee(info, dc) == merge {
								okCfg = true
							}
						}
						if okCfg {
							obs = append(obs, mkOb(c, "MINIFY.analysis-config", u, construct, x, Proved, "the configuration is the result of mergeAnalysisConfig", true))
						} else {
							obs = append(obs, mkOb(c, "MINIFY.analysis-config", u, construct, x, Undecided, "analysis.Analyze is given a configuration that is not the result of mergeAnalysisConfig: its PackageImports may be set and the analyzer's import loop (map order) would run", true))
						}
					case *ast.KeyValueExpr:
						if id, ok := x.Key.(*ast.Ident); ok && info.Uses[id] == fld {
							obs = append(obs, mkOb(c, "MINIFY.analysis-config", u, ord.next("literal sets PackageImports"), x, Violated, "package minifier sets analysis.Config.PackageImports: analyzer.prescan then imports packages in map order", true))
						}
					case *ast.AssignStmt:
						for _, l := range x.Lhs {
							if FieldOfSelector(info, l) == fld {
								obs = append(obs, mkOb(c, "MINIFY.analysis-config", u, ord.next("store PackageImports"), x, Violated, "package minifier sets analysis.Config.PackageImports: analyzer.prescan then imports packages in map order", true))
							}
						}
					}
					return true
				})
			}
			if ncalls == 0 {
				obs = append(obs, Obligation{Rule: "MINIFY.analysis-config", Func: "minifier", Construct: "calls of analysis.Analyze", Verdict: Undecided, Detail: "no call of analysis.Analyze found in package minifier"})
			}
			// mergeAnalysisConfig itself: the literal it returns has no PackageImports (checked above
			// for the whole package); record the fact as an obligation so the floor counts it
			if _, fd, pkg := c.LookupFunc("minifier.mergeAnalysisConfig"); fd != nil {
				obs = append(obs, mkOb(c, "MINIFY.analysis-config", FuncUnit{merge, fd, pkg}, "no PackageImports", fd, Proved, "no literal key or store of Config.PackageImports anywhere in package minifier", false))
			}
			return obs
		}})

	register(&Rule{ID: "MINIFY.percent-unrenameable", Floor: 2,
		Doc: "minifier.renameable returns true only on paths that established sym.Node != nil and !strings.HasPrefix(name, \"%\") (the implicit %-parameters of a prefix lambda, which the analyzer registers in map order and without a node, can neither be renamed nor take a number in the naming sequence)",
		Run: func(c *Ctx) []Obligation {
			fn, fd, pkg := c.LookupFunc("minifier.renameable")
			nodeFld := c.LookupField("analysis.Symbol.Node")
			if fn == nil || nodeFld == nil {
				return []Obligation{anchorMissing("MINIFY.percent-unrenameable", "minifier.renameable / analysis.Symbol.Node")}
			}
			u := FuncUnit{fn, fd, pkg}
			info := pkg.TypesInfo
			fc := c.cfgOf(u, nil)
			// edges entailing  Node != nil
			nodeNonNil := fc.edgesImplying(func(a LitAtom) bool {
				be, ok := ast.Unparen(a.E).(*ast.BinaryExpr)
				if !ok || (be.Op != token.EQL && be.Op != token.NEQ) {
					return false
				}
				if FieldOfSelector(info, be.X) != nodeFld {
					return false
				}
				if tv, ok := info.Types[be.Y]; !ok || !tv.IsNil() {
					return false
				}
				return (be.Op == token.NEQ) == a.Positive
			})
			notPercent := fc.edgesImplying(func(a LitAtom) bool {
				ce, ok := ast.Unparen(a.E).(*ast.CallExpr)
				if !ok || !stdFuncCalled(info, ce, "strings", "HasPrefix") || len(ce.Args) != 2 {
					return false
				}
				if s, ok := constStringVal(info, ce.Args[1]); !ok || s != "%" {
					return false
				}
				return !a.Positive
			})
			// sinks: returns whose value is not the constant false
			var sinks []*cfg.Block
			for _, b := range fc.G.Blocks {
				if !fc.Live(b) {
					continue
				}
				for _, n := range b.Nodes {
					if rs, ok := n.(*ast.ReturnStmt); ok && len(rs.Results) == 1 && !isBoolConst(info, rs.Results[0], false) {
						sinks = append(sinks, b)
					}
				}
			}
			var obs []Obligation
			check := func(what string, cut []cfgEdge) {
				if len(sinks) == 0 {
					obs = append(obs, mkOb(c, "MINIFY.percent-unrenameable", u, what, fd, Undecided, "renameable has no return other than `false`", false))
					return
				}
				bad := false
				for _, s := range sinks {
					if len(cut) == 0 || fc.reachableAvoiding(s, cut) {
						bad = true
					}
				}
				if bad {
					obs = append(obs, mkOb(c, "MINIFY.percent-unrenameable", u, what, fd, Violated, "a `return true` of renameable is reachable without "+what+": a %-parameter (registered in map order) could be renamed and shift the x<N> numbering from run to run", true))
				} else {
					obs = append(obs, mkOb(c, "MINIFY.percent-unrenameable", u, what, fd, Proved, "every non-false return is reachable only through an edge entailing it", true))
				}
			}
			check("sym.Node != nil", nodeNonNil)
			check("!HasPrefix(name, \"%\")", notPercent)
			return obs
		}})
}

func init() {
	register(&Rule{ID: "MINIFY.symbol-map", Floor: 7,
		Doc: "in buildAssignments every turn of the naming loop that assigns a new name also records it in the symbol map (Entries, MinifiedToOriginal, OriginalToMinified) — no rename goes unreported — and the new name is fmt.Sprintf(constant with one integer verb, a function of the loop index), so names are pairwise distinct and the reported map can be inverted; the map's original is the renamed symbol's own Name",
		Run: func(c *Ctx) []Obligation {
			fn, fd, pkg := c.LookupFunc("minifier.buildAssignments")
			if fn == nil {
				return []Obligation{anchorMissing("MINIFY.symbol-map", "minifier.buildAssignments")}
			}
			u := FuncUnit{fn, fd, pkg}
			info := pkg.TypesInfo
			fc := c.cfgOf(u, nil)
			var obs []Obligation
			// the naming loop: the range loop whose body stores into a map keyed by *analysis.Symbol
			var loopStmt *ast.RangeStmt
			var assignStore *ast.AssignStmt
			ast.Inspect(fd.Body, func(n ast.Node) bool {
				rs, ok := n.(*ast.RangeStmt)
				if !ok {
					return true
				}
				for _, s := range rs.Body.List {
					as, ok := s.(*ast.AssignStmt)
					if !ok || len(as.Lhs) != 1 {
						continue
					}
					ie, ok := ast.Unparen(as.Lhs[0]).(*ast.IndexExpr)
					if !ok {
						continue
					}
					if tv, ok := info.Types[ie.X]; ok {
						if m, ok := tv.Type.Underlying().(*types.Map); ok {
							if p, ok := m.Key().(*types.Pointer); ok {
								if nm, ok := types.Unalias(p.Elem()).(*types.Named); ok && nm.Obj().Name() == "Symbol" {
									loopStmt, assignStore = rs, as
								}
							}
						}
					}
				}
				return true
			})
			if loopStmt == nil {
				return []Obligation{mkOb(c, "MINIFY.symbol-map", u, "naming loop", fd, Undecided, "no loop storing into a map keyed by *analysis.Symbol found in buildAssignments", false)}
			}
			var loopBlock *cfg.Block
			for _, b := range fc.G.Blocks {
				if b.Stmt == loopStmt && b.Kind == cfg.KindRangeLoop && fc.Live(b) {
					loopBlock = b
				}
			}
			// the new name: every definition is fmt.Sprintf(<one integer verb>, V) with V either the loop
			// index (± constant) or a counter that is only ever incremented and is incremented in every
			// turn before the name is assigned
			nameObj := identObj(info, assignStore.Rhs[0])
			idxObj := identObj(info, loopStmt.Key)
			okName := false
			nameDetail := "the assigned name is not a local defined by fmt.Sprintf"
			var counter types.Object
			if nameObj != nil {
				var defs []*ast.CallExpr
				okDefs := true
				ast.Inspect(loopStmt.Body, func(n ast.Node) bool {
					as, ok := n.(*ast.AssignStmt)
					if !ok || len(as.Lhs) != len(as.Rhs) {
						return true
					}
					for i, l := range as.Lhs {
						if identObj(info, l) == nameObj {
							ce, _ := ast.Unparen(as.Rhs[i]).(*ast.CallExpr)
							if ce == nil || !stdFuncCalled(info, ce, "fmt", "Sprintf") || len(ce.Args) != 2 {
								okDefs = false
							} else {
								defs = append(defs, ce)
							}
						}
					}
					return true
				})
				if okDefs && len(defs) > 0 {
					format, fok := constStringVal(info, defs[0].Args[0])
					operand := types.ExprString(defs[0].Args[1])
					same := fok
					for _, d := range defs[1:] {
						f2, ok2 := constStringVal(info, d.Args[0])
						if !ok2 || f2 != format || types.ExprString(d.Args[1]) != operand {
							same = false
						}
					}
					vs := parseVerbs(format)
					verbOK := same && len(vs) == 1 && strings.ContainsRune("dxXob", vs[0]) && !strings.Contains(format, ".")
					injective := false
					how := ""
					switch a := ast.Unparen(defs[0].Args[1]).(type) {
					case *ast.Ident:
						o := info.Uses[a]
						if o != nil && o == idxObj && len(defs) == 1 {
							injective, how = true, "the loop index"
						} else if o != nil {
							// counter: all writes in the function besides its definition are ++, and one ++ is a
							// top-level statement of the loop body that precedes the store
							onlyInc := true
							ast.Inspect(fd.Body, func(n ast.Node) bool {
								switch x := n.(type) {
								case *ast.AssignStmt:
									for _, l := range x.Lhs {
										if identObj(info, l) == o && x.Tok != token.DEFINE {
											onlyInc = false
										}
									}
								case *ast.IncDecStmt:
									if identObj(info, x.X) == o && x.Tok != token.INC {
										onlyInc = false
									}
								case *ast.UnaryExpr:
									if x.Op == token.AND && identObj(info, x.X) == o {
										onlyInc = false
									}
								}
								return true
							})
							incFirst := false
							for _, st := range loopStmt.Body.List {
								if st == ast.Stmt(assignStore) {
									break
								}
								if inc, ok := st.(*ast.IncDecStmt); ok && inc.Tok == token.INC && identObj(info, inc.X) == o {
									incFirst = true
								}
							}
							if onlyInc && incFirst {
								injective, how, counter = true, "a counter that only grows and is incremented in every turn before the name is assigned", o
							}
						}
					case *ast.BinaryExpr: // i+k / i-k
						usesIdx := false
						ast.Inspect(a, func(n ast.Node) bool {
							if id, ok := n.(*ast.Ident); ok && idxObj != nil && info.Uses[id] == idxObj {
								usesIdx = true
							}
							return true
						})
						if (a.Op == token.ADD || a.Op == token.SUB) && usesIdx && len(defs) == 1 {
							_, lc := intConst(info, a.X)
							_, rc := intConst(info, a.Y)
							if lc != rc {
								injective, how = true, "the loop index ± a constant"
							}
						}
					}
					if verbOK && injective {
						okName = true
						nameDetail = "fmt.Sprintf(" + strconvQuote(format) + ", " + how + "): pairwise distinct"
					} else {
						nameDetail = "format " + strconvQuote(format) + " / operand `" + operand + "` is not an injective rendering of a per-turn distinct number"
					}
				}
			}
			_ = counter
			// ... or the name comes from a generator helper of the package: `name, n = gen(set, n)`
			var gen *nameGen
			if !okName && nameObj != nil {
				if g := c.nameGenerator(u, loopStmt, nameObj); g != nil {
					gen = g
					okName = true
					nameDetail = g.how
				}
			}
			if okName {
				obs = append(obs, mkOb(c, "MINIFY.symbol-map", u, "distinct names", assignStore, Proved, nameDetail, true))
			} else {
				obs = append(obs, mkOb(c, "MINIFY.symbol-map", u, "distinct names", assignStore, Violated, nameDetail+": two symbols could receive one name and the symbol map could not be inverted", true))
			}
			// freshness: the store is reached only over the false edge of a membership test
			// `<set>[newName]` on a set built from the session's input (usedSymbolNames(files))
			{
				var setObj types.Object
				cls := func(e ast.Expr) (string, bool) {
					ie, ok := ast.Unparen(e).(*ast.IndexExpr)
					if !ok || identObj(info, ie.Index) != nameObj {
						return "", false
					}
					if tv, ok := info.Types[ie.X]; ok {
						if m, ok := tv.Type.Underlying().(*types.Map); ok && types.Identical(m.Elem(), types.Typ[types.Bool]) {
							setObj = identObj(info, ie.X)
							return "taken", false
						}
					}
					return "", false
				}
				cut := fc.edgesEntailing(cls, func(v map[string]bool) bool { return v["$has:taken"] && !v["taken"] })
				loc, lok := fc.Locate(assignStore)
				fromInput := false
				freshByGen := false
				if gen != nil && gen.fresh && setObj == nil {
					setObj = gen.setArg
					freshByGen = true
				}
				if setObj != nil {
					if dc, _, _ := definingCall(info, fd.Body, setObj); dc != nil {
						for _, a := range dc.Args {
							if o := identObj(info, a); o != nil {
								for _, p := range paramObjs(u) {
									if p == o && strings.Contains(canonTypes(p.Type().String()), "parsedFile") {
										fromInput = true
									}
								}
							}
						}
						// ... and the builder must walk the parsed TREES (every symbol node of every
						// expression, by recursion over .Cells), not the analysis results: a symbol the
						// analysis does not resolve (a template symbol, a macrolet body) is still a name
						// the program uses
						if bfn := originOf(Callee(info, dc)); bfn != nil && fromInput {
							if bfd := c.declOf[bfn]; bfd != nil && bfd.Body != nil {
								binfo := c.pkgOf[bfd].TypesInfo
								readsExprs, readsCells, readsStr, readsAnalysis := false, false, false, false
								// the builder and the helpers of its package it walks the trees with
								seenB := map[*types.Func]bool{bfn: true}
								var scanB func(fd *ast.FuncDecl, depth int)
								scanB = func(fd *ast.FuncDecl, depth int) {
									ast.Inspect(fd.Body, func(n ast.Node) bool {
										switch x := n.(type) {
										case *ast.SelectorExpr:
											switch x.Sel.Name {
											case "exprs":
												readsExprs = true
											case "Cells":
												readsCells = true
											case "Str":
												readsStr = true
											case "analysis":
												readsAnalysis = true
											}
										case *ast.CallExpr:
											if h := originOf(Callee(binfo, x)); h != nil && depth < 2 && !seenB[h] && h.Pkg() == bfn.Pkg() {
												if hd := c.declOf[h]; hd != nil && hd.Body != nil {
													seenB[h] = true
													scanB(hd, depth+1)
												}
											}
										}
										return true
									})
								}
								scanB(bfd, 0)
								if !(readsExprs && readsCells && readsStr) || readsAnalysis {
									fromInput = false
								}
							} else {
								fromInput = false
							}
						}
					}
				}
				switch {
				case lok && freshByGen && fromInput:
					obs = append(obs, mkOb(c, "MINIFY.symbol-map", u, "fresh names", assignStore, Proved, "the generator "+gen.fn.Name()+" returns a name only after `set[name]` was false, and the set passed is computed from the session's parsed input", true))
				case lok && len(cut) > 0 && !fc.reachableAvoiding(loc.B, cut) && fromInput:
					obs = append(obs, mkOb(c, "MINIFY.symbol-map", u, "fresh names", assignStore, Proved, "a name is assigned only after `"+setObj.Name()+"[name]` was false, and "+setObj.Name()+" is computed from the session's parsed input", true))
				default:
					obs = append(obs, mkOb(c, "MINIFY.symbol-map", u, "fresh names", assignStore, Violated, "generated names are assigned without testing them against the names the input already uses: (set 'x1 5) (defun double (n) (* n 2)) (double x1) minifies to (defun x1 ...) which overwrites x1", true))
				}
			}
			// every turn records the rename: each of these stores lies on every cycle through the loop head
			type rec struct {
				what string
				pred func(n ast.Node) bool
			}
			fieldStore := func(fieldName string) func(n ast.Node) bool {
				// store into / append to the local later returned as SymbolMap.<fieldName>
				var target types.Object
				ast.Inspect(fd.Body, func(n ast.Node) bool {
					if kv, ok := n.(*ast.KeyValueExpr); ok {
						if id, ok := kv.Key.(*ast.Ident); ok && id.Name == fieldName {
							if o := identObj(info, kv.Value); o != nil {
								target = o
							}
						}
					}
					return true
				})
				return func(n ast.Node) bool {
					as, ok := n.(*ast.AssignStmt)
					if !ok || target == nil {
						return false
					}
					for _, l := range as.Lhs {
						l = ast.Unparen(l)
						if ie, ok := l.(*ast.IndexExpr); ok && identObj(info, ie.X) == target {
							return true
						}
						if identObj(info, l) == target {
							return true
						}
					}
					return false
				}
			}
			recs := []rec{
				{"assignments", func(n ast.Node) bool { return n == ast.Node(assignStore) }},
				{"SymbolMap.Entries", fieldStore("Entries")},
				{"SymbolMap.MinifiedToOriginal", fieldStore("MinifiedToOriginal")},
				{"SymbolMap.OriginalToMinified", fieldStore("OriginalToMinified")},
			}
			for _, r := range recs {
				blocks := fc.blocksWith(r.pred)
				// restrict to blocks inside the loop
				in := map[*cfg.Block]bool{}
				for b := range blocks {
					for _, n := range b.Nodes {
						if n.Pos() >= loopStmt.Body.Pos() && n.End() <= loopStmt.Body.End() && r.pred(n) {
							in[b] = true
						}
					}
				}
				still := loopBlock == nil
				if loopBlock != nil {
					for _, comp := range fc.cyclicSCCs(func(b *cfg.Block) bool { return in[b] }) {
						for _, b := range comp {
							if b == loopBlock {
								still = true
							}
						}
					}
				}
				if len(in) > 0 && !still {
					obs = append(obs, mkOb(c, "MINIFY.symbol-map", u, "every turn records "+r.what, loopStmt, Proved, "every cycle of the naming loop passes the store", true))
				} else {
					obs = append(obs, mkOb(c, "MINIFY.symbol-map", u, "every turn records "+r.what, loopStmt, Violated, "a turn of the naming loop can assign a name without recording it in "+r.what+": the symbol map would not report (or invert) that rename", true))
				}
			}
			// the recorded original is the symbol's own Name, under the new name
			okOrig := false
			mto := fieldStore("MinifiedToOriginal")
			ast.Inspect(loopStmt.Body, func(n ast.Node) bool {
				as, ok := n.(*ast.AssignStmt)
				if !ok || !mto(as) || len(as.Lhs) != 1 || len(as.Rhs) != 1 {
					return true
				}
				ie, ok := ast.Unparen(as.Lhs[0]).(*ast.IndexExpr)
				if !ok || identObj(info, ie.Index) != nameObj {
					return true
				}
				if f := FieldOfSelector(info, as.Rhs[0]); f != nil && f.Name() == "Name" {
					if types.ExprString(ast.Unparen(as.Rhs[0]).(*ast.SelectorExpr).X) == types.ExprString(ast.Unparen(assignStore.Lhs[0]).(*ast.IndexExpr).Index) {
						okOrig = true
					}
				}
				return true
			})
			if okOrig {
				obs = append(obs, mkOb(c, "MINIFY.symbol-map", u, "original recorded", loopStmt, Proved, "MinifiedToOriginal[newName] = <the renamed symbol>.Name", true))
			} else {
				obs = append(obs, mkOb(c, "MINIFY.symbol-map", u, "original recorded", loopStmt, Violated, "MinifiedToOriginal is not keyed by the assigned name with the renamed symbol's own Name as value", true))
			}
			return obs
		}})
}

func strconvQuote(s string) string { return fmt.Sprintf("%q", s) }

// nameGen summarises a generator helper `gen(set, last) (name, number)`.
type nameGen struct {
	fn     *types.Func
	how    string
	fresh  bool         // every return lies behind a false `set[name]` test
	setArg types.Object // the caller's object passed as the set
}

// nameGenerator recognises, in the naming loop of u, the definition
// `name, n = gen(set, n)` of nameObj by a helper of the package that
//   - starts its number at <counter parameter> + k (k >= 1) and afterwards only increments it,
//   - renders the name, at every definition, as <constant> + strconv.Itoa(number) or
//     fmt.Sprintf(<constant with one integer verb>, number), re-rendering after every increment,
//   - returns (name, number) on every return;
// the caller passes its counter and stores the returned number back into it, and
// the counter has no other writes than constant initialisation.  The numbers of
// successive turns then strictly increase, so the names are pairwise distinct.
func (c *Ctx) nameGenerator(u FuncUnit, loop *ast.RangeStmt, nameObj types.Object) *nameGen {
	info := u.Pkg.TypesInfo
	var call *ast.CallExpr
	var def *ast.AssignStmt
	ndefs := 0
	ast.Inspect(u.Decl.Body, func(n ast.Node) bool {
		as, ok := n.(*ast.AssignStmt)
		if !ok {
			return true
		}
		for _, l := range as.Lhs {
			if identObj(info, l) == nameObj {
				ndefs++
				if len(as.Lhs) == 2 && len(as.Rhs) == 1 && identObj(info, as.Lhs[0]) == nameObj {
					if ce, ok := ast.Unparen(as.Rhs[0]).(*ast.CallExpr); ok {
						call, def = ce, as
					}
				}
			}
		}
		return true
	})
	if call == nil || ndefs != 1 || def.Pos() < loop.Body.Pos() || def.End() > loop.Body.End() {
		return nil
	}
	g := originOf(Callee(info, call))
	if g == nil || g.Pkg() != u.Obj.Pkg() {
		return nil
	}
	gd := c.declOf[g]
	if gd == nil || gd.Body == nil {
		return nil
	}
	ginfo := c.pkgOf[gd].TypesInfo
	sig := g.Type().(*types.Signature)
	if sig.Results().Len() != 2 || len(call.Args) != sig.Params().Len() {
		return nil
	}
	// caller: the counter passed is the object that receives the second result
	counter := identObj(info, def.Lhs[1])
	ci := -1
	var setArg types.Object
	si := -1
	for i, a := range call.Args {
		if o := identObj(info, a); o != nil && o == counter {
			ci = i
		}
		if tv, ok := info.Types[a]; ok {
			if m, ok := tv.Type.Underlying().(*types.Map); ok && types.Identical(m.Elem(), types.Typ[types.Bool]) {
				si, setArg = i, identObj(info, a)
			}
		}
	}
	if counter == nil || ci < 0 {
		return nil
	}
	// the counter's other writes: constant definitions only
	okCounter := true
	ast.Inspect(u.Decl.Body, func(n ast.Node) bool {
		switch x := n.(type) {
		case *ast.AssignStmt:
			if x == def {
				return true
			}
			for i, l := range x.Lhs {
				if identObj(info, l) == counter {
					if len(x.Lhs) != len(x.Rhs) {
						okCounter = false
					} else if _, isC := intConst(info, x.Rhs[i]); !isC {
						okCounter = false
					}
				}
			}
		case *ast.IncDecStmt:
			if identObj(info, x.X) == counter && x.Tok != token.INC {
				okCounter = false
			}
		case *ast.UnaryExpr:
			if x.Op == token.AND && identObj(info, x.X) == counter {
				okCounter = false
			}
		}
		return true
	})
	if !okCounter {
		return nil
	}
	cparam := sig.Params().At(ci)
	// inside the generator
	var number, name types.Object
	okGen := true
	ast.Inspect(gd.Body, func(n ast.Node) bool {
		if rs, ok := n.(*ast.ReturnStmt); ok {
			if len(rs.Results) != 2 {
				okGen = false
				return true
			}
			nm, nb := identObj(ginfo, rs.Results[0]), identObj(ginfo, rs.Results[1])
			if nm == nil || nb == nil || (name != nil && nm != name) || (number != nil && nb != number) {
				okGen = false
			}
			name, number = nm, nb
		}
		return true
	})
	if !okGen || name == nil || number == nil {
		return nil
	}
	renders := func(e ast.Expr) bool {
		e = ast.Unparen(e)
		if be, ok := e.(*ast.BinaryExpr); ok && be.Op == token.ADD {
			if _, isC := constStringVal(ginfo, be.X); isC {
				if ce, ok := ast.Unparen(be.Y).(*ast.CallExpr); ok && stdFuncCalled(ginfo, ce, "strconv", "Itoa") && len(ce.Args) == 1 && identObj(ginfo, ce.Args[0]) == number {
					return true
				}
			}
			return false
		}
		if ce, ok := e.(*ast.CallExpr); ok && stdFuncCalled(ginfo, ce, "fmt", "Sprintf") && len(ce.Args) == 2 && identObj(ginfo, ce.Args[1]) == number {
			if f, ok := constStringVal(ginfo, ce.Args[0]); ok {
				vs := parseVerbs(f)
				return len(vs) == 1 && strings.ContainsRune("dxXob", vs[0]) && !strings.Contains(f, ".")
			}
		}
		return false
	}
	// Path-based reading of the generator (any loop shape):
	//   - the number is written only by ++ / += k (k >= 1) / its one definition `number := counter (+ k)`;
	//   - every path from the entry to a return passes a write that makes it exceed the caller's counter;
	//   - every definition of the name renders the number, all with one shape;
	//   - after every write of the number, every path to a return re-renders the name first.
	gfc := c.cfgOf(FuncUnit{g, gd, c.pkgOf[gd]}, nil)
	nNameDefs := 0
	var shape string
	numWrites := map[ast.Node]bool{} // statements that raise the number (>= +1)
	nInit := 0
	nameDefs := map[ast.Node]bool{}
	ast.Inspect(gd.Body, func(n ast.Node) bool {
		switch x := n.(type) {
		case *ast.AssignStmt:
			for i, l := range x.Lhs {
				switch identObj(ginfo, l) {
				case number:
					if len(x.Lhs) != len(x.Rhs) {
						okGen = false
						continue
					}
					r := ast.Unparen(x.Rhs[i])
					switch {
					case x.Tok == token.ADD_ASSIGN:
						if k, isC := intConst(ginfo, r); isC && k >= 1 {
							numWrites[x] = true
						} else {
							okGen = false
						}
					case number != cparam && (x.Tok == token.DEFINE || x.Tok == token.ASSIGN) && nInit == 0:
						nInit++
						if identObj(ginfo, r) == cparam {
							break // plain copy: must still be raised before a return
						}
						be, isB := r.(*ast.BinaryExpr)
						okInit := false
						if isB && be.Op == token.ADD {
							if k, isC := intConst(ginfo, be.Y); isC && k >= 1 && identObj(ginfo, be.X) == cparam {
								okInit = true
							}
							if k, isC := intConst(ginfo, be.X); isC && k >= 1 && identObj(ginfo, be.Y) == cparam {
								okInit = true
							}
						}
						if okInit {
							numWrites[x] = true
						} else {
							okGen = false
						}
					default:
						okGen = false
					}
				case name:
					nNameDefs++
					if len(x.Lhs) != len(x.Rhs) || !renders(x.Rhs[i]) {
						okGen = false
					} else {
						sh := types.ExprString(x.Rhs[i])
						if shape != "" && sh != shape {
							okGen = false
						}
						shape = sh
						nameDefs[x] = true
					}
				}
			}
		case *ast.IncDecStmt:
			if identObj(ginfo, x.X) == number {
				if x.Tok == token.INC {
					numWrites[x] = true
				} else {
					okGen = false
				}
			} else if identObj(ginfo, x.X) == cparam {
				okGen = false
			}
		case *ast.UnaryExpr:
			if x.Op == token.AND && (identObj(ginfo, x.X) == number || identObj(ginfo, x.X) == name) {
				okGen = false
			}
		}
		return true
	})
	if !okGen || nNameDefs == 0 || len(numWrites) == 0 || (number != cparam && nInit != 1) {
		return nil
	}
	// locate the writes and renderings in the flow graph (an if/for init statement sits in the block of its condition)
	type at struct {
		b *cfg.Block
		i int
	}
	find := func(set map[ast.Node]bool) []at {
		var out []at
		for _, b := range gfc.G.Blocks {
			if !gfc.Live(b) {
				continue
			}
			for i, n := range b.Nodes {
				if set[n] {
					out = append(out, at{b, i})
				}
			}
		}
		return out
	}
	wr, rd := find(numWrites), find(nameDefs)
	if len(wr) != len(numWrites) || len(rd) != len(nameDefs) {
		return nil
	}
	var retBlocks []*cfg.Block
	for _, b := range gfc.G.Blocks {
		if !gfc.Live(b) {
			continue
		}
		for _, n := range b.Nodes {
			if _, ok := n.(*ast.ReturnStmt); ok {
				retBlocks = append(retBlocks, b)
			}
		}
	}
	wrBlocks, rdBlocks := map[*cfg.Block]bool{}, map[*cfg.Block]bool{}
	for _, w := range wr {
		wrBlocks[w.b] = true
	}
	for _, r := range rd {
		rdBlocks[r.b] = true
	}
	for _, rb := range retBlocks {
		// a return is reached only after the number was raised ...
		if !wrBlocks[rb] && gfc.reachableFromAvoidingBlocks(gfc.G.Blocks[0], rb, wrBlocks) {
			return nil
		}
	}
	// ... and after every raise the name is rendered again before any return
	for _, w := range wr {
		rerendered := false
		for _, r := range rd {
			if r.b == w.b && r.i > w.i {
				rerendered = true
			}
		}
		if rerendered {
			continue
		}
		for _, rb := range retBlocks {
			if rb == w.b {
				return nil // raised and returned in one block without a rendering in between
			}
			if rdBlocks[rb] {
				continue // the rendering in the return's own block precedes the return
			}
			for _, sx := range w.b.Succs {
				if gfc.reachableFromAvoidingBlocks(sx, rb, rdBlocks) {
					return nil
				}
			}
		}
	}
	out := &nameGen{fn: g, how: "the generator " + g.Name() + " renders a number that starts above the caller's counter and only grows, and the caller stores it back: pairwise distinct"}
	// freshness: every return behind a false set[name]
	if si >= 0 && setArg != nil {
		sparam := sig.Params().At(si)
		cls := func(e ast.Expr) (string, bool) {
			ie, ok := ast.Unparen(e).(*ast.IndexExpr)
			if ok && identObj(ginfo, ie.Index) == name && identObj(ginfo, ie.X) == sparam {
				return "taken", false
			}
			return "", false
		}
		cut := gfc.edgesEntailing(cls, func(v map[string]bool) bool { return v["$has:taken"] && !v["taken"] })
		fresh := len(cut) > 0
		for _, b := range gfc.G.Blocks {
			if !gfc.Live(b) {
				continue
			}
			for _, n := range b.Nodes {
				if _, ok := n.(*ast.ReturnStmt); ok && gfc.reachableAvoiding(b, cut) {
					fresh = false
				}
			}
		}
		out.fresh, out.setArg = fresh, setArg
	}
	return out
}

func init() {
	register(&Rule{ID: "PKGTRACK.export-with-package", Floor: 4,
		Doc: "every function of the minifier and the analysis package that recognises top-level (export ...) forms also recognises (in-package ...): exported names are relative to the current package, so a scanner that handles export without tracking in-package attributes the exports of a multi-package file to the wrong package (sibling agreement: all top-level scanners track the package)",
		Run: func(c *Ctx) []Obligation {
			var obs []Obligation
			for _, u := range c.Funcs(func(p string) bool { r := rel(p); return r == "minifier" || r == "analysis" }) {
				info := u.Pkg.TypesInfo
				// string constants compared against (==, !=, case) in this function
				heads := map[string]ast.Node{}
				note := func(e ast.Expr) {
					if s, ok := constStringVal(info, e); ok {
						if _, seen := heads[s]; !seen {
							heads[s] = e
						}
					}
				}
				ast.Inspect(u.Decl.Body, func(n ast.Node) bool {
					switch x := n.(type) {
					case *ast.BinaryExpr:
						if x.Op == token.EQL || x.Op == token.NEQ {
							note(x.X)
							note(x.Y)
						}
					case *ast.CaseClause:
						for _, e := range x.List {
							note(e)
						}
					}
					return true
				})
				exp, ok := heads["export"]
				if !ok {
					continue
				}
				if _, ok := heads["in-package"]; ok {
					obs = append(obs, mkOb(c, "PKGTRACK.export-with-package", u, "handles export", exp, Proved, "the same function recognises in-package", false))
				} else if drv, _, _, _, ok := c.callbackDriver(u, exp); ok && c.comparesWithString(drv, "in-package") {
					// the export test sits in a callback driven by an iterator over the file's forms which itself
					// tracks in-package and hands the current package to the callback
					obs = append(obs, mkOb(c, "PKGTRACK.export-with-package", u, "handles export", exp, Proved, "the iterator that drives this callback ("+drv.Name()+") recognises in-package", true))
				} else {
					obs = append(obs, mkOb(c, "PKGTRACK.export-with-package", u, "handles export", exp, Violated, "this function recognises (export ...) forms but not (in-package ...): in a file with several packages the exported names are looked up without their package", true))
				}
			}
			return obs
		}})
}

// typeConstsTested: the lisp.LType constants a function compares some X.Type
// against (==, case), following same-package helpers one level.
func (c *Ctx) typeConstsTested(u FuncUnit, depth int) map[string]bool {
	out := map[string]bool{}
	info := u.Pkg.TypesInfo
	note := func(e ast.Expr) {
		if o, ok := identObjOrSel(info, e).(*types.Const); ok && o.Pkg() != nil && strings.HasSuffix(o.Pkg().Path(), "/lisp") && strings.HasPrefix(o.Name(), "L") {
			out[o.Name()] = true
		}
	}
	ast.Inspect(u.Decl.Body, func(n ast.Node) bool {
		switch x := n.(type) {
		case *ast.BinaryExpr:
			if x.Op == token.EQL {
				note(x.X)
				note(x.Y)
			}
		case *ast.CaseClause:
			for _, e := range x.List {
				note(e)
			}
		case *ast.CallExpr:
			if depth > 0 {
				if fn := originOf(Callee(info, x)); fn != nil && fn.Pkg() == u.Obj.Pkg() && fn != u.Obj {
					if fd := c.declOf[fn]; fd != nil && fd.Body != nil {
						for k := range c.typeConstsTested(FuncUnit{fn, fd, c.pkgOf[fd]}, depth-1) {
							out[k] = true
						}
					}
				}
			}
		}
		return true
	})
	return out
}

func identObjOrSel(info *types.Info, e ast.Expr) types.Object {
	e = ast.Unparen(e)
	switch x := e.(type) {
	case *ast.Ident:
		return info.Uses[x]
	case *ast.SelectorExpr:
		return info.Uses[x.Sel]
	}
	return nil
}

func init() {
	register(&Rule{ID: "EXPORT.shapes-agree", Floor: 3,
		Doc: "every static recogniser of the names an (export ...) form exports — minifier.exportNames, minifier.rewriteExports, analysis.prescanExport, analysis.scanExportNames — tests for every argument type the export builtin accepts (today: symbol, string, list): a name exported in a spelling the tools do not recognise is treated as private and renamed",
		Run: func(c *Ctx) []Obligation {
			bfn, bfd, bpkg := c.LookupFunc("lisp.builtinExport")
			if bfn == nil {
				return []Obligation{anchorMissing("EXPORT.shapes-agree", "lisp.builtinExport")}
			}
			accepted := map[string]bool{}
			binfo := bpkg.TypesInfo
			ast.Inspect(bfd.Body, func(n ast.Node) bool {
				cc, ok := n.(*ast.CaseClause)
				if !ok || cc.List == nil {
					return true
				}
				// a clause that returns an error rejects
				rejects := false
				for _, st := range cc.Body {
					if rs, ok := st.(*ast.ReturnStmt); ok && len(rs.Results) == 1 {
						if ce, ok := ast.Unparen(rs.Results[0]).(*ast.CallExpr); ok {
							if se, ok := ast.Unparen(ce.Fun).(*ast.SelectorExpr); ok && strings.HasPrefix(se.Sel.Name, "Error") {
								rejects = true
							}
						}
					}
				}
				if rejects {
					return true
				}
				for _, e := range cc.List {
					if o, ok := identObjOrSel(binfo, e).(*types.Const); ok {
						accepted[o.Name()] = true
					}
				}
				return true
			})
			if len(accepted) < 2 {
				// not a switch: decide it on the flow graph.  A type constant K the builtin compares an
				// argument's Type with is ACCEPTED when assuming `Type == K` makes some code reachable that is
				// not reachable for a type the builtin never mentions, other than a return of an error
				accepted = map[string]bool{}
				bfc := c.cfgOf(FuncUnit{bfn, bfd, bpkg}, nil)
				typeFld := c.LookupField("lisp.LVal.Type")
				cands := map[string]bool{}
				typeCmp := func(e ast.Expr) (string, bool, bool) { // constant, isEq, ok
					be, ok := ast.Unparen(e).(*ast.BinaryExpr)
					if !ok || (be.Op != token.EQL && be.Op != token.NEQ) {
						return "", false, false
					}
					for _, pr := range [][2]ast.Expr{{be.X, be.Y}, {be.Y, be.X}} {
						if FieldOfSelector(binfo, pr[0]) != typeFld || typeFld == nil {
							continue
						}
						if o, ok := identObjOrSel(binfo, pr[1]).(*types.Const); ok {
							return o.Name(), be.Op == token.EQL, true
						}
					}
					return "", false, false
				}
				for _, b := range bfc.G.Blocks {
					if cond := bfc.CondOf(b); cond != nil && bfc.Live(b) {
						bfc.inspectCond(cond, func(e ast.Expr) {
							if k, _, ok := typeCmp(e); ok {
								cands[k] = true
							}
						}, 0)
					}
				}
				under := func(k string) map[*cfg.Block]bool {
					return bfc.reachableUnder(func(e ast.Expr) int {
						kk, eq, ok := typeCmp(e)
						if !ok {
							return -1
						}
						if (kk == k) == eq {
							return 1
						}
						return 0
					})
				}
				rejecting := func(b *cfg.Block) bool {
					for _, n := range b.Nodes {
						if rs, ok := n.(*ast.ReturnStmt); ok && len(rs.Results) == 1 {
							if ce, ok := ast.Unparen(rs.Results[0]).(*ast.CallExpr); ok {
								if se, ok := ast.Unparen(ce.Fun).(*ast.SelectorExpr); ok && strings.HasPrefix(se.Sel.Name, "Error") {
									return true
								}
							}
						}
					}
					return false
				}
				other := under("")
				for k := range cands {
					for b := range under(k) {
						if !other[b] && !rejecting(b) && len(b.Nodes) > 0 {
							accepted[k] = true
						}
					}
				}
			}
			var obs []Obligation
			if len(accepted) < 2 {
				obs = append(obs, mkOb(c, "EXPORT.shapes-agree", FuncUnit{bfn, bfd, bpkg}, "accepted argument types", bfd, Undecided, fmt.Sprintf("could not read the accepted argument types of builtinExport (found %d)", len(accepted)), false))
				return obs
			}
			var acc []string
			for k := range accepted {
				acc = append(acc, k)
			}
			sort.Strings(acc)
			for _, name := range []string{"minifier.exportNames", "minifier.rewriteExports", "analysis.(*analyzer).prescanExport", "analysis.scanExportNames"} {
				fn, fd, pkg := c.LookupFunc(name)
				if fn == nil {
					continue // a recogniser may be merged into another; the floor keeps at least three
				}
				u := FuncUnit{fn, fd, pkg}
				tested := c.typeConstsTested(u, 2)
				var missing []string
				for _, k := range acc {
					if !tested[k] {
						missing = append(missing, k)
					}
				}
				if len(missing) == 0 {
					obs = append(obs, mkOb(c, "EXPORT.shapes-agree", u, "recognised argument types", fd, Proved, "tests for "+strings.Join(acc, ", ")+" (directly or in a helper)", true))
				} else {
					obs = append(obs, mkOb(c, "EXPORT.shapes-agree", u, "recognised argument types", fd, Violated, "the export builtin accepts "+strings.Join(acc, ", ")+" but this recogniser never tests for "+strings.Join(missing, ", ")+": e.g. (export \"pub\") exports pub at run time, the tool treats pub as private and renames its definition", true))
				}
			}
			return obs
		}})
}

// MINIFY.qualified-refs-total — C17: a private definition stays reachable
// through a package-qualified reference (`pkg:name`) only because the minifier
// records EVERY qualified symbol written in evaluated position and keeps the
// definitions they name.  The recorder is one recursive walk; it must look at
// every child of every list that is not quoted.  A walk that chooses its
// children by the head symbol (skipping quasiquote templates, say) misses the
// references macros make on behalf of their callers.
func init() {
	register(&Rule{ID: "MINIFY.qualified-refs-total", Floor: 1,
		Doc: "recordQualifiedReferences recurses over the whole of <node>.Cells of every list, and the only conditions that can keep a list from that loop are nil, its Type and an empty Cells — never its head symbol, its contents or its quoted flag (a bracket list `[cb pkg:name]` is parsed as a quoted list, and binding forms evaluate it): a `pkg:name` written anywhere protects the definition it names; recording one that is only data merely keeps a name",
		Run: func(c *Ctx) []Obligation {
			const rid = "MINIFY.qualified-refs-total"
			fn, fd, pkg := c.LookupFunc("minifier.recordQualifiedReferences")
			if fn == nil || fd.Type.Params == nil || len(fd.Type.Params.List) == 0 || len(fd.Type.Params.List[0].Names) == 0 {
				return []Obligation{anchorMissing(rid, "minifier.recordQualifiedReferences")}
			}
			u := FuncUnit{fn, fd, pkg}
			info := pkg.TypesInfo
			node := info.Defs[fd.Type.Params.List[0].Names[0]]
			isNodeSel := func(e ast.Expr, fld string) bool {
				se, ok := ast.Unparen(e).(*ast.SelectorExpr)
				return ok && se.Sel.Name == fld && identObj(info, se.X) == node
			}
			// atoms that only look at the node itself
			var okCond func(e ast.Expr) bool
			okCond = func(e ast.Expr) bool {
				e = ast.Unparen(e)
				switch x := e.(type) {
				case *ast.UnaryExpr:
					return x.Op == token.NOT && okCond(x.X)
				case *ast.BinaryExpr:
					switch x.Op {
					case token.LAND, token.LOR:
						return okCond(x.X) && okCond(x.Y)
					case token.EQL, token.NEQ, token.LSS, token.GTR, token.LEQ, token.GEQ:
						side := func(a ast.Expr) bool {
							a = ast.Unparen(a)
							if identObj(info, a) == node || isNodeSel(a, "Type") {
								return true
							}
							if ce, ok := a.(*ast.CallExpr); ok && len(ce.Args) == 1 {
								if id, ok := ast.Unparen(ce.Fun).(*ast.Ident); ok && id.Name == "len" && isNodeSel(ce.Args[0], "Cells") {
									return true
								}
							}
							if tv, ok := info.Types[a]; ok && (tv.Value != nil || tv.IsNil()) {
								return true
							}
							return false
						}
						return side(x.X) && side(x.Y)
					}
				}
				// node.IsQuoted() is deliberately NOT accepted: a bracket list is
				// parsed as a quoted list and binding forms evaluate what is
				// inside one, so "quoted" does not mean "not a reference".
				return false
			}
			// the full-range recursion
			var loops []*ast.RangeStmt
			var partial []*ast.RangeStmt
			ast.Inspect(fd.Body, func(n ast.Node) bool {
				rs, ok := n.(*ast.RangeStmt)
				if !ok {
					return true
				}
				rec := false
				for _, ce := range callsIn(rs.Body, false) {
					if originOf(Callee(info, ce)) == fn && len(ce.Args) > 0 && rs.Value != nil && identObj(info, ce.Args[0]) == identObj(info, rs.Value) {
						rec = true
					}
				}
				if !rec {
					return true
				}
				if isNodeSel(rs.X, "Cells") {
					loops = append(loops, rs)
				} else {
					partial = append(partial, rs)
				}
				return true
			})
			var obs []Obligation
			if len(loops) == 0 {
				return []Obligation{mkOb(c, rid, u, "recursion over the children", fd, Violated, "no loop recurses over the whole of "+node.Name()+".Cells: some children of an evaluated list are never searched for qualified references", true)}
			}
			loop := loops[0]
			path := enclosingPath(fd.Body, loop)
			bad := ""
			for i, anc := range path {
				switch a := anc.(type) {
				case *ast.IfStmt:
					if !okCond(a.Cond) {
						bad = "the loop runs only under `" + types.ExprString(a.Cond) + "`"
					}
				case *ast.CaseClause:
					// a case of `switch node.Type`
					if i > 0 {
						if sw, ok := path[i-1].(*ast.BlockStmt); ok && i > 1 {
							if ss, ok := path[i-2].(*ast.SwitchStmt); ok && ss.Tag != nil && !isNodeSel(ss.Tag, "Type") {
								bad = "the loop is a case of a switch on `" + types.ExprString(ss.Tag) + "`"
							}
							_ = sw
						}
					}
				case *ast.ForStmt, *ast.RangeStmt, *ast.FuncLit, *ast.SelectStmt, *ast.TypeSwitchStmt:
					if anc != ast.Node(loop) {
						bad = "the loop is nested in another construct"
					}
				}
			}
			if bad != "" {
				obs = append(obs, mkOb(c, rid, u, "recursion over the children", loop, Violated, bad+": a list can be skipped because of what it contains, so a qualified reference written inside it does not protect the definition it names", true))
			} else {
				obs = append(obs, mkOb(c, rid, u, "recursion over the children", loop, Proved, "every child of every list that reaches the loop is searched; the loop is conditional only on tests of the node itself", true))
			}
			// exits in front of the loop
			ord := &ordinal{}
			loopClause := enclosingCase(path)
			ast.Inspect(fd.Body, func(n ast.Node) bool {
				if _, ok := n.(*ast.FuncLit); ok {
					return false
				}
				rs, ok := n.(*ast.ReturnStmt)
				if !ok || rs.Pos() > loop.Pos() {
					return true
				}
				rpath := enclosingPath(fd.Body, rs)
				if cc := enclosingCase(rpath); cc != nil && loopClause != nil && cc != loopClause {
					return true // a different case of the switch on node.Type
				}
				construct := ord.next("exit before the recursion")
				guard := ""
				okGuard := false
				for _, anc := range rpath {
					if is, ok := anc.(*ast.IfStmt); ok {
						guard = types.ExprString(is.Cond)
						okGuard = okCond(is.Cond)
						if !okGuard {
							break
						}
					}
				}
				if guard != "" && okGuard {
					obs = append(obs, mkOb(c, rid, u, construct, rs, Proved, "guarded by `"+guard+"`, a test of the node's presence or type", true))
				} else {
					obs = append(obs, mkOb(c, rid, u, construct, rs, Violated, "a list leaves the recorder before its children are searched, on a condition about its contents (`"+guard+"`): qualified references inside such a list do not protect the definitions they name, and the renamed definition is then unbound where the reference is evaluated", true))
				}
				return true
			})
			for _, p := range partial {
				obs = append(obs, mkOb(c, rid, u, ord.next("partial recursion"), p, Proved, "an additional walk over part of the children; the full loop is checked separately", false))
			}
			return obs
		}})
}

// enclosingPath: the chain of nodes from root down to (and including) target.
func enclosingPath(root ast.Node, target ast.Node) []ast.Node {
	var path, out []ast.Node
	ast.Inspect(root, func(n ast.Node) bool {
		if out != nil {
			return false
		}
		if n == nil {
			path = path[:len(path)-1]
			return true
		}
		path = append(path, n)
		if n == target {
			out = append([]ast.Node(nil), path...)
			return false
		}
		return true
	})
	return out
}

func enclosingCase(path []ast.Node) *ast.CaseClause {
	var cc *ast.CaseClause
	for _, n := range path {
		if c, ok := n.(*ast.CaseClause); ok {
			cc = c
		}
	}
	return cc
}

// MINIFY.session-wide-sets — C17: "exported names and package-qualified
// references keep working across all files of one minify session".  Whether a
// top-level definition must keep its name is decided file by file, but the two
// facts the decision rests on — somebody wrote `pkg:name`, somebody wrote
// `(export 'name)` — can each be stated in ANY file of the session.  So the
// function that decides has two phases: collect over all files, then decide.
func init() {
	register(&Rule{ID: "MINIFY.session-wide-sets", Floor: 4,
		Doc: "in preservePackageSurfaceSymbols the per-file decision loop reads only maps that were completed, by loops over ALL files, before it starts; among them one is filled through the export recogniser (exportNames), one through the qualified-symbol recogniser (splitQualifiedSymbol) and one counts the definitions of each name — an export or a qualified reference written in one file protects the definition written in another, and a name the session defines more than once keeps its name",
		Run: func(c *Ctx) []Obligation {
			const rid = "MINIFY.session-wide-sets"
			fn, fd, pkg := c.LookupFunc("minifier.preservePackageSurfaceSymbols")
			expN := c.LookupPkgFunc("minifier.exportNames")
			qual := c.LookupPkgFunc("minifier.splitQualifiedSymbol")
			p1 := c.LookupPkgFunc("minifier.preserveNodeSymbol")
			p2 := c.LookupPkgFunc("minifier.preserveQualifiedDefinitionNode")
			if fn == nil || expN == nil || qual == nil || p1 == nil || p2 == nil {
				return []Obligation{anchorMissing(rid, "minifier.preservePackageSurfaceSymbols / exportNames / splitQualifiedSymbol / preserve*")}
			}
			u := FuncUnit{fn, fd, pkg}
			info := pkg.TypesInfo
			inMin := func(p string) bool { return rel(p) == "minifier" }
			reachExp := c.staticReach(inMin, expN)
			reachQual := c.staticReach(inMin, qual)
			var files types.Object
			for _, f := range fd.Type.Params.List {
				for _, nm := range f.Names {
					if sl, ok := info.Defs[nm].Type().Underlying().(*types.Slice); ok {
						if n, ok := sl.Elem().(*types.Named); ok && n == c.LookupType("minifier.parsedFile") {
							files = info.Defs[nm]
						}
					}
				}
			}
			if files == nil {
				return []Obligation{anchorMissing(rid, "the []parsedFile parameter of preservePackageSurfaceSymbols")}
			}
			overFiles := func(n ast.Node) bool {
				rs, ok := n.(*ast.RangeStmt)
				return ok && identObj(info, rs.X) == files
			}
			isFilesType := func(t types.Type) bool {
				sl, ok := t.Underlying().(*types.Slice)
				if !ok {
					return false
				}
				n, ok := sl.Elem().(*types.Named)
				return ok && n == c.LookupType("minifier.parsedFile")
			}
			// private helpers of the package called (transitively, depth 3) from a node
			type helperUse struct {
				u    FuncUnit
				call *ast.CallExpr // the call in fd's body (or in an outer helper) that enters it
			}
			var helpersIn func(root ast.Node, rinfo *types.Info, depth int, seen map[*types.Func]bool) []helperUse
			helpersIn = func(root ast.Node, rinfo *types.Info, depth int, seen map[*types.Func]bool) []helperUse {
				var out []helperUse
				if depth > 3 {
					return out
				}
				for _, ce := range callsIn(root, false) {
					h := originOf(Callee(rinfo, ce))
					if h == nil || h.Pkg() != fn.Pkg() || seen[h] || h == fn || h == p1 || h == p2 {
						continue // the preserve actions themselves are not part of the decision
					}
					hd := c.declOf[h]
					if hd == nil || hd.Body == nil {
						continue
					}
					seen[h] = true
					hu := FuncUnit{h, hd, c.pkgOf[hd]}
					out = append(out, helperUse{hu, ce})
					out = append(out, helpersIn(hd.Body, hu.Pkg.TypesInfo, depth+1, seen)...)
				}
				return out
			}
			// decision loop: the file loop whose body preserves (itself or through a helper)
			var decision *ast.RangeStmt
			var fileLoops []*ast.RangeStmt
			for _, st := range fd.Body.List {
				if !overFiles(st) {
					continue
				}
				rs := st.(*ast.RangeStmt)
				fileLoops = append(fileLoops, rs)
				preserves := false
				// (callbacks handed to an internal iterator inside the loop run inside the loop)
				for _, ce := range callsIn(rs.Body, true) {
					if f := originOf(Callee(info, ce)); f == p1 || f == p2 {
						preserves = true
					}
				}
				for _, hu := range helpersIn(rs.Body, info, 0, map[*types.Func]bool{}) {
					for _, ce := range callsIn(hu.u.Decl.Body, false) {
						if f := originOf(Callee(hu.u.Pkg.TypesInfo, ce)); f == p1 || f == p2 {
							preserves = true
						}
					}
				}
				if preserves && decision == nil {
					decision = rs
				}
			}
			if decision == nil {
				return []Obligation{mkOb(c, rid, u, "decision loop", fd, Undecided, "no top-level loop over the files that calls preserveNodeSymbol / preserveQualifiedDefinitionNode was found", true)}
			}
			// the two phases: what runs before the decision loop (statements of this function and
			// the private helpers they call) and what runs inside it
			type region struct {
				info  *types.Info
				root  ast.Node
				loops []*ast.RangeStmt // loops over ALL files inside root
			}
			var phase1, phase2 []region
			for _, st := range fd.Body.List {
				if st.End() <= decision.Pos() {
					r := region{info: info, root: st}
					if rs, ok := st.(*ast.RangeStmt); ok && overFiles(rs) {
						r.loops = append(r.loops, rs)
					}
					phase1 = append(phase1, r)
					for _, hu := range helpersIn(st, info, 0, map[*types.Func]bool{}) {
						hinfo := hu.u.Pkg.TypesInfo
						hr := region{info: hinfo, root: hu.u.Decl.Body}
						// loops over a []parsedFile parameter that receives this function's files
						sig := hu.u.Obj.Type().(*types.Signature)
						for i := 0; i < sig.Params().Len(); i++ {
							pv := sig.Params().At(i)
							if !isFilesType(pv.Type()) || i >= len(hu.call.Args) {
								continue
							}
							if identObj(info, hu.call.Args[i]) != files {
								continue
							}
							ast.Inspect(hu.u.Decl.Body, func(n ast.Node) bool {
								if rs, ok := n.(*ast.RangeStmt); ok && identObj(hinfo, rs.X) == pv {
									hr.loops = append(hr.loops, rs)
								}
								return true
							})
						}
						phase1 = append(phase1, hr)
					}
				}
			}
			phase2 = append(phase2, region{info: info, root: decision.Body})
			for _, hu := range helpersIn(decision.Body, info, 0, map[*types.Func]bool{}) {
				phase2 = append(phase2, region{info: hu.u.Pkg.TypesInfo, root: hu.u.Decl.Body})
			}
			// a local closure defined before the loop and called inside it (`preserveDefinition := func(…) {…}`)
			// runs in the decision phase: its body is read with it
			ast.Inspect(decision.Body, func(n ast.Node) bool {
				ce, ok := n.(*ast.CallExpr)
				if !ok {
					return true
				}
				if id, ok := ast.Unparen(ce.Fun).(*ast.Ident); ok {
					if d := soleDef(info, fd.Body, id); d != nil {
						if fl, ok := ast.Unparen(d).(*ast.FuncLit); ok {
							phase2 = append(phase2, region{info: info, root: fl.Body})
						}
					}
				}
				return true
			})
			// a function literal handed to an internal iterator inside the loop (`forEachTopLevelForm(exprs, func(…) {…})`)
			// runs in the decision phase as well, and so do the helpers it calls
			ast.Inspect(decision.Body, func(n ast.Node) bool {
				ce, ok := n.(*ast.CallExpr)
				if !ok {
					return true
				}
				for _, a := range ce.Args {
					if fl, ok := ast.Unparen(a).(*ast.FuncLit); ok {
						phase2 = append(phase2, region{info: info, root: fl.Body})
						for _, hu := range helpersIn(fl.Body, info, 0, map[*types.Func]bool{}) {
							phase2 = append(phase2, region{info: hu.u.Pkg.TypesInfo, root: hu.u.Decl.Body})
						}
					}
				}
				return true
			})
			// late statements of this function (after the decision loop) count as phase 2 too
			for _, st := range fd.Body.List {
				if st.Pos() >= decision.End() {
					phase2 = append(phase2, region{info: info, root: st})
				}
			}
			// a map is named by its storage: a local of this function, or a struct field
			mapKey := func(ri *types.Info, e ast.Expr) types.Object {
				e = ast.Unparen(e)
				var o types.Object
				switch x := e.(type) {
				case *ast.Ident:
					o = ri.Uses[x]
					if o == nil {
						o = ri.Defs[x]
					}
					if v, ok := o.(*types.Var); !ok || v.IsField() || v.Parent() == nil || v.Pkg() == nil || v.Parent() == v.Pkg().Scope() {
						return nil
					}
					if o.Pos() < fd.Body.Pos() || o.Pos() > decision.Pos() {
						return nil // not a local of this function declared before the loop
					}
				case *ast.SelectorExpr:
					o = FieldOfSelector(ri, x)
					if o == nil {
						return nil
					}
				default:
					return nil
				}
				if _, ok := o.Type().Underlying().(*types.Map); !ok {
					return nil
				}
				return o
			}
			// maps read inside the decision phase
			type mapUse struct {
				obj         types.Object
				fillsBefore []ast.Node
				fillsLate   []ast.Node
				viaExp      bool
				viaQual     bool
				viaCount    bool
			}
			// readOnlyParam: the callee (a helper of the package) only LOOKS UP in the map it receives in
			// position i — no element store, no ++/--, no delete, and it hands the map to nothing else
			readOnlyParam := func(callee *types.Func, i int) bool {
				cd := c.declOf[callee]
				if callee == nil || cd == nil || cd.Body == nil || callee.Pkg() != fn.Pkg() {
					return false
				}
				sig := callee.Type().(*types.Signature)
				if i >= sig.Params().Len() {
					return false
				}
				pv := sig.Params().At(i)
				ci := c.pkgOf[cd].TypesInfo
				ro := true
				ast.Inspect(cd.Body, func(k ast.Node) bool {
					switch y := k.(type) {
					case *ast.AssignStmt:
						for _, l := range y.Lhs {
							if ix, ok := ast.Unparen(l).(*ast.IndexExpr); ok && identObj(ci, ix.X) == pv {
								ro = false
							}
							if identObj(ci, l) == pv {
								ro = false
							}
						}
					case *ast.IncDecStmt:
						if ix, ok := ast.Unparen(y.X).(*ast.IndexExpr); ok && identObj(ci, ix.X) == pv {
							ro = false
						}
					case *ast.CallExpr:
						for _, a := range y.Args {
							if identObj(ci, a) == pv {
								ro = false
							}
						}
					}
					return true
				})
				return ro
			}
			uses := map[types.Object]*mapUse{}
			for _, r := range phase2 {
				ast.Inspect(r.root, func(n ast.Node) bool {
					if ix, ok := n.(*ast.IndexExpr); ok {
						if o := mapKey(r.info, ix.X); o != nil && uses[o] == nil {
							uses[o] = &mapUse{obj: o}
						}
					}
					// a map handed to a helper that only looks things up in it is consulted there
					if ce, ok := n.(*ast.CallExpr); ok {
						for i, a := range ce.Args {
							if o := mapKey(r.info, a); o != nil && uses[o] == nil && readOnlyParam(originOf(Callee(r.info, ce)), i) {
								uses[o] = &mapUse{obj: o}
							}
						}
					}
					return true
				})
			}
			noteCallee := func(mu *mapUse, callee *types.Func) {
				if callee == nil {
					return
				}
				if callee == expN || reachExp[callee] {
					mu.viaExp = true
				}
				if callee == qual || reachQual[callee] {
					mu.viaQual = true
				}
				// a counting fill: the callee increments an element of a map parameter
				if cd := c.declOf[callee]; cd != nil && cd.Body != nil && callee.Pkg() == fn.Pkg() {
					ast.Inspect(cd.Body, func(k ast.Node) bool {
						if ids, ok := k.(*ast.IncDecStmt); ok && ids.Tok == token.INC {
							if _, isIx := ast.Unparen(ids.X).(*ast.IndexExpr); isIx {
								mu.viaCount = true
							}
						}
						return true
					})
				}
			}
			scanFills := func(r region, late bool) {
				inLoop := func(n ast.Node) bool {
					for _, fl := range r.loops {
						if n.Pos() >= fl.Pos() && n.End() <= fl.End() {
							return true
						}
					}
					return false
				}
				ast.Inspect(r.root, func(n ast.Node) bool {
					switch x := n.(type) {
					case *ast.CallExpr:
						for ai, a := range x.Args {
							if mu := uses[mapKey(r.info, a)]; mu != nil {
								if readOnlyParam(originOf(Callee(r.info, x)), ai) {
									continue // a lookup, not a fill
								}
								if late || !inLoop(x) {
									mu.fillsLate = append(mu.fillsLate, x)
								} else {
									mu.fillsBefore = append(mu.fillsBefore, x)
									noteCallee(mu, originOf(Callee(r.info, x)))
								}
							}
						}
					case *ast.AssignStmt:
						for _, l := range x.Lhs {
							if ix, ok := ast.Unparen(l).(*ast.IndexExpr); ok {
								if mu := uses[mapKey(r.info, ix.X)]; mu != nil {
									if late || !inLoop(x) {
										mu.fillsLate = append(mu.fillsLate, x)
									} else {
										mu.fillsBefore = append(mu.fillsBefore, x)
									}
								}
							}
						}
					case *ast.IncDecStmt:
						if ix, ok := ast.Unparen(x.X).(*ast.IndexExpr); ok {
							if mu := uses[mapKey(r.info, ix.X)]; mu != nil {
								if late || !inLoop(x) {
									mu.fillsLate = append(mu.fillsLate, x)
								} else {
									mu.fillsBefore = append(mu.fillsBefore, x)
									if x.Tok == token.INC {
										mu.viaCount = true
									}
								}
							}
						}
					}
					return true
				})
			}
			for _, r := range phase1 {
				scanFills(r, false)
			}
			for _, r := range phase2 {
				scanFills(r, true)
			}
			var obs []Obligation
			haveExp, haveQual, haveCount := false, false, false
			names := []string{}
			byName := map[string]*mapUse{}
			for o, mu := range uses {
				names = append(names, o.Name())
				byName[o.Name()] = mu
			}
			sort.Strings(names)
			for _, nm := range names {
				mu := byName[nm]
				construct := "map " + nm + " read by the decision loop"
				switch {
				case len(mu.fillsLate) > 0:
					obs = append(obs, mkOb(c, rid, u, construct, mu.fillsLate[0], Violated, "the map is still being filled while (or after) definitions are judged, or is filled outside a loop over all files: a definition in an earlier file is judged before a later file's export or reference has been seen", true))
				case len(mu.fillsBefore) == 0:
					obs = append(obs, mkOb(c, rid, u, construct, decision, Undecided, "no fill site found for this map", true))
				default:
					obs = append(obs, mkOb(c, rid, u, construct, mu.fillsBefore[0], Proved, "completed by a loop over all files before the decision loop starts", true))
					haveExp = haveExp || mu.viaExp
					haveQual = haveQual || mu.viaQual
					haveCount = haveCount || mu.viaCount
				}
			}
			if haveExp {
				obs = append(obs, mkOb(c, rid, u, "session-wide export set", decision, Proved, "a map filled through exportNames over all files is consulted", true))
			} else {
				obs = append(obs, mkOb(c, rid, u, "session-wide export set", decision, Violated, "no map consulted by the decision loop is filled through the export recogniser over all files: `(export 'helper)` written in one file of a package does not protect `(defun helper …)` written in another (the per-file analysis of the defining file does not know the name is exported), so the definition is renamed and every user of the exported name finds it unbound", true))
			}
			if haveCount {
				obs = append(obs, mkOb(c, rid, u, "session-wide definition count", decision, Proved, "a map of per-name definition counts over all files is consulted", true))
			} else {
				obs = append(obs, mkOb(c, rid, u, "session-wide definition count", decision, Violated, "no map consulted by the decision loop counts how often the session defines a name: a function defined twice — (defun f () 1) (set 'a (f)) (defun f () 2) — is two symbols to the analysis, every reference resolves to the last, and each definition is renamed on its own, so the call between the definitions names a function that is not bound yet (unbound symbol: x2); across files the earlier file silently calls the later file's definition", true))
			}
			if haveQual {
				obs = append(obs, mkOb(c, rid, u, "session-wide qualified-reference set", decision, Proved, "a map filled through splitQualifiedSymbol over all files is consulted", true))
			} else {
				obs = append(obs, mkOb(c, rid, u, "session-wide qualified-reference set", decision, Violated, "no map consulted by the decision loop is filled through the qualified-symbol recogniser over all files: `pkg:name` written in another file does not protect the private definition it names", true))
			}
			return obs
		}})
}

// MINIFY.global-kinds — C17: a top-level name may be renamed only when the
// name is nothing but a binding.  `set` takes its name as a quoted symbol (a
// value); defmacro names are looked up in templates; a deftype name is stored
// in every value of the type and printed with it.  Only a top-level FUNCTION
// name is a pure binding.  The rule is a census of the kinds `renameable` lets
// through at global scope.
func init() {
	register(&Rule{ID: "MINIFY.global-kinds", Floor: 5,
		Doc: "in minifier.renameable, under the ScopeGlobal test, every analysis.SymbolKind other than SymFunction (and SymParameter, which cannot be global) is refused — by a `return false` clause of the kind switch there or by an unconditional kind test earlier in the function: variables named by `set`, macros and deftype names (stored in and printed with every value of the type) keep their names",
		Run: func(c *Ctx) []Obligation {
			const rid = "MINIFY.global-kinds"
			fn, fd, pkg := c.LookupFunc("minifier.renameable")
			if fn == nil {
				return []Obligation{anchorMissing(rid, "minifier.renameable")}
			}
			u := FuncUnit{fn, fd, pkg}
			info := pkg.TypesInfo
			// all SymbolKind constants
			var kindT types.Type
			kinds := map[string]types.Object{}
			for _, p := range c.Pkgs {
				if rel(p.PkgPath) != "analysis" {
					continue
				}
				sc := p.Types.Scope()
				if o := sc.Lookup("SymbolKind"); o != nil {
					kindT = o.Type()
				}
				for _, nm := range sc.Names() {
					if k, ok := sc.Lookup(nm).(*types.Const); ok && kindT != nil && types.Identical(k.Type(), kindT) {
						kinds[nm] = k
					}
				}
			}
			if len(kinds) == 0 {
				return []Obligation{anchorMissing(rid, "analysis.SymbolKind constants")}
			}
			kindOf := func(e ast.Expr) string {
				if o := identObjOrSel(info, e); o != nil {
					if _, ok := kinds[o.Name()]; ok && kinds[o.Name()] == o {
						return o.Name()
					}
				}
				return ""
			}
			isKindSel := func(e ast.Expr) bool {
				se, ok := ast.Unparen(e).(*ast.SelectorExpr)
				return ok && se.Sel.Name == "Kind" && kindT != nil && types.Identical(info.TypeOf(e), kindT)
			}
			// decided on the flow graph: a kind K is refused at global scope when, assuming the symbol's
			// Kind is K and its scope is the global one, no return other than `return false` stays
			// reachable — whether the tests are an if-chain, a switch on the kind under a ScopeGlobal
			// test, or clauses of one tagless switch with a named `atGlobalScope`
			blocked := map[string]ast.Node{}
			fc := c.cfgOf(u, nil)
			var sw ast.Node = fd
			isScopeGlobal := func(e ast.Expr) bool {
				o := identObjOrSel(info, e)
				_, isConst := o.(*types.Const)
				return isConst && o.Name() == "ScopeGlobal"
			}
			isScopePtr := func(e ast.Expr) bool {
				t := info.TypeOf(e)
				if t == nil {
					return false
				}
				pt, ok := t.Underlying().(*types.Pointer)
				if !ok {
					return false
				}
				nt, ok := types.Unalias(pt.Elem()).(*types.Named)
				return ok && nt.Obj().Name() == "Scope" && nt.Obj().Pkg() != nil && rel(nt.Obj().Pkg().Path()) == "analysis"
			}
			sawGlobalTest := false
			for _, k := range sortedKeys(kinds) {
				k := k
				reach := fc.reachableUnder(func(e ast.Expr) int {
					be, ok := ast.Unparen(e).(*ast.BinaryExpr)
					if !ok || (be.Op != token.EQL && be.Op != token.NEQ) {
						return -1
					}
					tri := func(v bool) int {
						if v == (be.Op == token.EQL) {
							return 1
						}
						return 0
					}
					for _, pr := range [][2]ast.Expr{{be.X, be.Y}, {be.Y, be.X}} {
						if isKindSel(pr[0]) && kindOf(pr[1]) != "" {
							return tri(kindOf(pr[1]) == k)
						}
						if isScopeGlobal(pr[1]) {
							sawGlobalTest = true
							return tri(true)
						}
						if isNilIdent(info, pr[1]) && isScopePtr(pr[0]) {
							return tri(false) // the scope is not nil
						}
					}
					return -1
				})
				refused, nret := true, 0
				for b := range reach {
					for _, n := range b.Nodes {
						rs, ok := n.(*ast.ReturnStmt)
						if !ok {
							continue
						}
						nret++
						if len(rs.Results) != 1 || !isBoolConst(info, rs.Results[0], false) {
							refused = false
						}
					}
				}
				if refused && nret > 0 {
					blocked[k] = fd
				}
			}
			if !sawGlobalTest {
				return []Obligation{mkOb(c, rid, u, "kind switch at global scope", fd, Undecided, "no test of the symbol's scope against ScopeGlobal found in renameable", true)}
			}
			pureBinding := map[string]string{
				"SymFunction":  "a top-level function name is only a binding: defun stores the function under it and nothing prints it",
				"SymParameter": "parameters are never at global scope",
			}
			var obs []Obligation
			for _, k := range sortedKeys(kinds) {
				construct := "global " + k
				if n, ok := blocked[k]; ok {
					obs = append(obs, mkOb(c, rid, u, construct, n, Proved, "refused", true))
				} else if why, ok := pureBinding[k]; ok {
					obs = append(obs, mkOb(c, rid, u, construct, sw, Proved, "renameable: "+why, false))
				} else {
					obs = append(obs, mkOb(c, rid, u, construct, sw, Violated, "a top-level name of this kind can be renamed, but the name is more than a binding (a `set` name is a quoted symbol, a macro name is looked up in templates, a deftype name is stored in and printed with every value of the type): the minified program's values or output differ from the original's", true))
				}
			}
			return obs
		}})
}

// INPKG.shapes-agree — C17 ("multiple packages and files"): which package a
// top-level form belongs to is decided statically by every tool that scans for
// in-package; the evaluator accepts the package designator as a symbol or a
// STRING.  A scanner that reads only one of the spellings files everything
// after `(in-package "p")` under the previous package: private references
// across files and `p:name` references stop matching their definitions.
func init() {
	register(&Rule{ID: "INPKG.shapes-agree", Floor: 2,
		Doc: "every static reader of an in-package / use-package designator — minifier.packageName and astutil.PackageNameArg (which analysis and lint share) — tests for every argument type the in-package builtin accepts (today: symbol and string), directly or in a helper it calls",
		Run: func(c *Ctx) []Obligation {
			const rid = "INPKG.shapes-agree"
			bfn, bfd, bpkg := c.LookupFunc("lisp.builtinInPackage")
			if bfn == nil {
				return []Obligation{anchorMissing(rid, "lisp.builtinInPackage")}
			}
			binfo := bpkg.TypesInfo
			accepted := map[string]bool{}
			// the refusal: `if a.Type != LSymbol && a.Type != LString { return env.Errorf(…) }`
			ast.Inspect(bfd.Body, func(n ast.Node) bool {
				is, ok := n.(*ast.IfStmt)
				if !ok || len(accepted) > 0 || len(is.Body.List) == 0 {
					return true
				}
				if _, isRet := is.Body.List[len(is.Body.List)-1].(*ast.ReturnStmt); !isRet {
					return true
				}
				for _, a := range impliedAtoms(is.Cond, true) {
					be, ok := ast.Unparen(a.E).(*ast.BinaryExpr)
					if !ok {
						continue
					}
					neq := be.Op == token.NEQ && a.Positive || be.Op == token.EQL && !a.Positive
					if !neq {
						continue
					}
					for _, side := range []ast.Expr{be.X, be.Y} {
						if k, ok := identObjOrSel(binfo, side).(*types.Const); ok && strings.HasPrefix(k.Name(), "L") {
							accepted[k.Name()] = true
						}
					}
				}
				return true
			})
			if len(accepted) < 2 {
				return []Obligation{mkOb(c, rid, FuncUnit{bfn, bfd, bpkg}, "accepted designator types", bfd, Undecided, fmt.Sprintf("could not read the designator types builtinInPackage accepts (found %d)", len(accepted)), true)}
			}
			acc := sortedKeys(accepted)
			var obs []Obligation
			for _, name := range []string{"minifier.packageName", "astutil.PackageNameArg"} {
				fn, fd, pkg := c.LookupFunc(name)
				if fn == nil {
					obs = append(obs, anchorMissing(rid, name))
					continue
				}
				u := FuncUnit{fn, fd, pkg}
				tested := c.typeConstsTested(u, 2)
				var missing []string
				for _, k := range acc {
					if !tested[k] {
						missing = append(missing, k)
					}
				}
				if len(missing) == 0 {
					obs = append(obs, mkOb(c, rid, u, "recognised designator types", fd, Proved, "tests for "+strings.Join(acc, ", "), true))
				} else {
					obs = append(obs, mkOb(c, rid, u, "recognised designator types", fd, Violated, "the in-package builtin accepts "+strings.Join(acc, ", ")+" but this reader never tests for "+strings.Join(missing, ", ")+": after (in-package \"p\") the tool keeps filing definitions and references under the previous package, so cross-file private references and p:name references no longer find what they name and the minified program fails with unbound symbol", true))
				}
			}
			return obs
		}})
}

// MINIFY.file-identity — C17 ("across all files of one minify session"): a
// symbol's identity across files is its name plus the file, line and column
// the scanner stamped on its definition.  The file component is whatever name
// the scanner was given, so it must be the session's own key for the file —
// the input's Path as supplied — and not something derived from it that two
// inputs can share (a base name, a cleaned or relative path).
func init() {
	register(&Rule{ID: "MINIFY.file-identity", Floor: 1,
		Doc: "in minifier.parseFile the file name handed to the scanner (the first argument of token.NewScanner / NewScannerString) is, directly, the Path field of the input being parsed: two different inputs never produce locations with the same file component, so cross-file references are rewritten to the name generated for the definition they actually resolve to, and the symbol map has one entry per definition",
		Run: func(c *Ctx) []Obligation {
			const rid = "MINIFY.file-identity"
			fn, fd, pkg := c.LookupFunc("minifier.parseFile")
			if fn == nil || fd.Type.Params == nil || len(fd.Type.Params.List) == 0 {
				return []Obligation{anchorMissing(rid, "minifier.parseFile")}
			}
			u := FuncUnit{fn, fd, pkg}
			info := pkg.TypesInfo
			input := info.Defs[fd.Type.Params.List[0].Names[0]]
			var obs []Obligation
			ord := &ordinal{}
			for _, ce := range callsIn(fd.Body, true) {
				f := Callee(info, ce)
				if f == nil || f.Pkg() == nil || rel(f.Pkg().Path()) != "parser/token" || !strings.HasPrefix(f.Name(), "NewScanner") || len(ce.Args) == 0 {
					continue
				}
				construct := ord.next("scanner file name")
				se, ok := ast.Unparen(ce.Args[0]).(*ast.SelectorExpr)
				if ok && se.Sel.Name == "Path" && identObj(info, se.X) == input {
					obs = append(obs, mkOb(c, rid, u, construct, ce, Proved, "the input's own Path", true))
				} else {
					obs = append(obs, mkOb(c, rid, u, construct, ce, Violated, "the scanner is named `"+types.ExprString(ce.Args[0])+"`, not the input's Path: two files of a session that share that name (alpha/util.lisp and beta/util.lisp) stamp identical locations, so a reference to one file's helper is rewritten to the name generated for the other's and the symbol map reports two names for one position", true))
				}
			}
			if len(obs) == 0 {
				obs = append(obs, mkOb(c, rid, u, "scanner file name", fd, Undecided, "no token.NewScanner call in parseFile", true))
			}
			return obs
		}})
}

// comparesWithString: u compares something (==, !=, case) with the string constant s.
func (c *Ctx) comparesWithString(u FuncUnit, s string) bool {
	info := u.Pkg.TypesInfo
	hit := false
	is := func(e ast.Expr) {
		if v, ok := constStringVal(info, e); ok && v == s {
			hit = true
		}
	}
	ast.Inspect(u.Decl.Body, func(n ast.Node) bool {
		switch x := n.(type) {
		case *ast.BinaryExpr:
			if x.Op == token.EQL || x.Op == token.NEQ {
				is(x.X)
				is(x.Y)
			}
		case *ast.CaseClause:
			for _, e := range x.List {
				is(e)
			}
		}
		return !hit
	})
	return hit
}
