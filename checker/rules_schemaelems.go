package main

import (
	"go/ast"
	"go/types"

	"golang.org/x/tools/go/cfg"
)

// SCHEMA.elements-all-applied (C14) — a validator that declares the type of the ELEMENTS of its
// input (s:of) applies its constraints to every element: the loop over the elements moves on to the
// next one only after the element went through applyConstraint (or the validator returned).  A
// `continue` in front of the application — an element skipped because "its type matched before", a
// sampled prefix, a cached verdict — accepts an array whose later elements were never judged, and
// which elements those are depends on the order of the array.

func init() {
	register(&Rule{ID: "SCHEMA.elements-all-applied", Floor: 1,
		Doc: "in libschema, a loop whose body hands its own element (the range value) to applyConstraint reaches its next turn only through such a call (or through the inner loop over the constraints that makes it): no path skips the application for an element, so every element of an array is judged against the declared element types and the verdict does not depend on which elements came first",
		Run: func(c *Ctx) []Obligation {
			const rid = "SCHEMA.elements-all-applied"
			apply := c.LookupPkgFunc("lisp/lisplib/libschema.applyConstraint")
			if apply == nil {
				return []Obligation{anchorMissing(rid, "libschema.applyConstraint")}
			}
			var obs []Obligation
			for _, u := range c.Funcs(func(p string) bool { return rel(p) == "lisp/lisplib/libschema" }) {
				if u.Decl == nil || u.Decl.Body == nil {
					continue
				}
				info := u.Pkg.TypesInfo
				ord := &ordinal{}
				// enclosing function literal of each range statement
				var visit func(body *ast.BlockStmt, lit *ast.FuncLit)
				visit = func(body *ast.BlockStmt, lit *ast.FuncLit) {
					ast.Inspect(body, func(n ast.Node) bool {
						if fl, ok := n.(*ast.FuncLit); ok && fl != lit {
							visit(fl.Body, fl)
							return false
						}
						rs, ok := n.(*ast.RangeStmt)
						if !ok || rs.Value == nil {
							return true
						}
						elem := identObj(info, rs.Value)
						if elem == nil {
							if id, ok := rs.Value.(*ast.Ident); ok {
								elem = info.Defs[id]
							}
						}
						if elem == nil || !isLValPtr(c, elem.Type()) {
							return true
						}
						appliesElem := func(m ast.Node) bool {
							hit := false
							ast.Inspect(m, func(k ast.Node) bool {
								if fl, ok := k.(*ast.FuncLit); ok && fl != lit {
									return false
								}
								ce, ok := k.(*ast.CallExpr)
								if !ok || originOf(Callee(info, ce)) != apply {
									return true
								}
								for _, a := range ce.Args {
									if o := identObj(info, a); o != nil && o == elem {
										hit = true
									}
								}
								return !hit
							})
							return hit
						}
						if !appliesElem(rs.Body) {
							return true
						}
						construct := ord.next("loop applying constraints to its element")
						fc := c.cfgOf(u, lit)
						var head, entry *cfg.Block
						blocked := map[*cfg.Block]bool{}
						for _, b := range fc.G.Blocks {
							if !fc.Live(b) {
								continue
							}
							if b.Stmt == rs && b.Kind == cfg.KindRangeLoop {
								head = b
							}
							if b.Stmt == rs && b.Kind == cfg.KindRangeBody {
								entry = b
							}
							for _, nd := range b.Nodes {
								if nd.Pos() >= rs.Body.Pos() && nd.End() <= rs.Body.End() && appliesElem(nd) {
									blocked[b] = true
								}
							}
							// the inner loop over the constraints that makes the call
							if b.Stmt != nil && b.Stmt != rs && (b.Kind == cfg.KindRangeLoop || b.Kind == cfg.KindForLoop) &&
								b.Stmt.Pos() >= rs.Body.Pos() && b.Stmt.End() <= rs.Body.End() && appliesElem(b.Stmt) {
								blocked[b] = true
							}
						}
						if head == nil || entry == nil {
							obs = append(obs, mkOb(c, rid, u, construct, rs, Undecided, "the element loop was not located in the flow graph", false))
							return true
						}
						if blocked[entry] || !fc.reachableFromAvoidingBlocks(entry, head, blocked) {
							obs = append(obs, mkOb(c, rid, u, construct, rs, Proved, "the next element is reached only after this one went through applyConstraint", true))
						} else {
							obs = append(obs, mkOb(c, rid, u, construct, rs, Violated, "the loop can move on to the next element without having applied the constraints to this one: an element is accepted unjudged (a skip keyed on something other than the element's own verdict, e.g. `its type matched before`), so (s:of s:bool) accepts (vector true 'maybe)", true))
						}
						return true
					})
				}
				visit(u.Decl.Body, nil)
			}
			return obs
		}})
}

var _ = types.Typ
