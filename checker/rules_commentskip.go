package main

import (
	"go/ast"
	"go/types"
	"strings"

	"golang.org/x/tools/go/cfg"
)

// MODE.comment-skip-neutral — C12 / C16 ("every source text is either rejected
// by all three readers or accepted by all three"): comments are tokens.  The
// format-preserving reader may collect them at places the other readers do not
// (to attach a trailing comment), but only where that cannot change what any
// reader sees NEXT: once comments have been skipped in one mode only, a token
// test (`PeekType() == HASH_BANG`, Accept, IsEOF) looks at a different token in
// that mode than in the others.
func init() {
	register(&Rule{ID: "MODE.comment-skip-neutral", Floor: 0,
		Doc: "in the parser, after a call of ignoreComments that runs only in format-preserving mode (inside `if p.preserveFormat`), no inspection of the token stream (PeekType, Accept, IsEOF, a Parse… call) is reachable in the same function before an ignoreComments call that runs in every mode: skipping comments in one mode only never decides which token a later test sees",
		Run: func(c *Ctx) []Obligation {
			const rid = "MODE.comment-skip-neutral"
			pf := c.LookupField("parser/rdparser.Parser.preserveFormat")
			ign := c.LookupMethod("parser/rdparser.Parser.ignoreComments")
			if pf == nil || ign == nil {
				return []Obligation{anchorMissing(rid, "Parser.preserveFormat / ignoreComments")}
			}
			var obs []Obligation
			for _, u := range c.Funcs(func(p string) bool { return rel(p) == "parser/rdparser" }) {
				if u.Decl == nil || u.Decl.Body == nil || u.Obj == ign {
					continue
				}
				info := u.Pkg.TypesInfo
				// format-only spans
				type span struct{ lo, hi ast.Node }
				var spans []*ast.BlockStmt
				ast.Inspect(u.Decl.Body, func(n ast.Node) bool {
					if is, ok := n.(*ast.IfStmt); ok {
						for _, a := range impliedAtoms(is.Cond, true) {
							if FieldOfSelector(info, a.E) == pf && a.Positive {
								spans = append(spans, is.Body)
							}
						}
					}
					return true
				})
				if len(spans) == 0 {
					continue
				}
				inSpan := func(n ast.Node) bool {
					for _, s := range spans {
						if n.Pos() >= s.Pos() && n.End() <= s.End() {
							return true
						}
					}
					return false
				}
				// a token inspection: a call of a method of the parser or of its token source
				// that is not comment/metadata bookkeeping
				inspects := func(ce *ast.CallExpr) string {
					se, ok := ast.Unparen(ce.Fun).(*ast.SelectorExpr)
					if !ok || info.Selections[se] == nil {
						return ""
					}
					f, _ := info.Selections[se].Obj().(*types.Func)
					if f == nil || f.Pkg() == nil || f == ign {
						return ""
					}
					pp := rel(f.Pkg().Path())
					if pp != "parser/rdparser" && pp != "parser/token" {
						return ""
					}
					switch {
					case strings.HasPrefix(f.Name(), "Peek"), strings.HasPrefix(f.Name(), "Accept"), strings.HasPrefix(f.Name(), "Parse"),
						strings.HasPrefix(f.Name(), "parse"), f.Name() == "IsEOF", f.Name() == "Scan", f.Name() == "ReadToken", f.Name() == "TokenText":
						return f.Name()
					}
					return ""
				}
				fc := c.cfgOf(u, nil)
				ord := &ordinal{}
				for _, b := range fc.G.Blocks {
					if !fc.Live(b) {
						continue
					}
					for i, n := range b.Nodes {
						for _, ce := range callsIn(n, false) {
							if originOf(Callee(info, ce)) != ign || !inSpan(ce) {
								continue
							}
							construct := ord.next("format-only ignoreComments")
							what := ""
							_, bad := fc.ForwardSearch(Loc{b, i},
								func(l Loc, m ast.Node) searchVerdict {
									for _, c2 := range callsIn(m, false) {
										if originOf(Callee(info, c2)) == ign && !inSpan(c2) {
											return svStop // every mode skips comments here
										}
										if w := inspects(c2); w != "" {
											what = w
											return svBad
										}
									}
									return svContinue
								}, func(*cfg.Block, int) bool { return true }, nil)
							if bad {
								obs = append(obs, mkOb(c, rid, u, construct, ce, Violated, "after comments were skipped in format-preserving mode only, "+what+" inspects the token stream: it sees the token behind the comments in that mode and the first comment in the others, so the readers can take different decisions on the same text (e.g. accept a `#!` line behind header comments)", true))
							} else {
								obs = append(obs, mkOb(c, rid, u, construct, ce, Proved, "nothing inspects the token stream after it in this function before every mode skips comments", true))
							}
						}
					}
				}
			}
			return obs
		}})
}
