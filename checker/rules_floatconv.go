package main

import (
	"go/ast"
	"go/token"
	"go/types"
)

// CONV.float-to-int-bounded — C01 / C10 ("yields exactly the value the reference
// prescribes … identical in every process"): Go leaves the conversion of a
// float that does not fit the integer type IMPLEMENTATION-DEFINED — amd64 gives
// the minimum int for +1e30 and for -1e30, arm64 saturates.  A builtin that
// converts a lisp float with a bare int(f) therefore returns a value that
// depends on the machine, and the wrong sign on the common one.
func init() {
	register(&Rule{ID: "CONV.float-to-int-bounded", Floor: 1,
		Doc: "every conversion of a float64 to an integer type in the interpreter kernel is reached only across edges that bound the converted value on BOTH sides (a comparison of that same expression with an upper and with a lower limit, each leading away on failure), or converts the result of a call that is range-limited by construction (math.Floor / Trunc of a value so bounded is not exempt): out-of-range floats are refused, never converted",
		Run: func(c *Ctx) []Obligation {
			const rid = "CONV.float-to-int-bounded"
			var obs []Obligation
			for _, u := range c.Funcs(isKernel) {
				if u.Decl == nil || u.Decl.Body == nil {
					continue
				}
				info := u.Pkg.TypesInfo
				for _, bu := range bodiesOf(u.Decl) {
					var fc *FCFG
					ord := &ordinal{}
					var root ast.Node = u.Decl.Body
					if bu.Lit != nil {
						root = bu.Lit.Body
					}
					ast.Inspect(root, func(n ast.Node) bool {
						if fl, ok := n.(*ast.FuncLit); ok && fl != bu.Lit {
							return false
						}
						ce, ok := n.(*ast.CallExpr)
						if !ok || len(ce.Args) != 1 {
							return true
						}
						tv, ok := info.Types[ce.Fun]
						if !ok || !tv.IsType() {
							return true
						}
						bt, ok := tv.Type.Underlying().(*types.Basic)
						if !ok || bt.Info()&types.IsInteger == 0 {
							return true
						}
						at, ok := info.Types[ce.Args[0]]
						if !ok || at.Value != nil {
							return true // constant conversions are checked by the compiler
						}
						ab, ok := at.Type.Underlying().(*types.Basic)
						if !ok || ab.Info()&types.IsFloat == 0 {
							return true
						}
						if fc == nil {
							fc = c.cfgOf(u, bu.Lit)
						}
						construct := ord.next("float converted to " + bt.Name())
						loc, located := fc.Locate(ce)
						operand := aliasResolvedString(info, root, ce.Args[0])
						// the operand through math.Floor / Trunc / Round / Ceil keeps the question about its argument
						inner := ce.Args[0]
						if mc, ok := ast.Unparen(inner).(*ast.CallExpr); ok && len(mc.Args) == 1 {
							if stdFuncCalled(info, mc, "math", "Floor") || stdFuncCalled(info, mc, "math", "Trunc") || stdFuncCalled(info, mc, "math", "Round") || stdFuncCalled(info, mc, "math", "Ceil") {
								inner = mc.Args[0]
							}
						}
						innerS := aliasResolvedString(info, root, inner)
						same := func(e ast.Expr) bool {
							s := aliasResolvedString(info, root, e)
							return s == operand || s == innerS
						}
						// atoms: "hi" the value is at / above an upper limit; "lo" at / below a lower limit
						cls := func(e ast.Expr) (string, bool) {
							be, ok := ast.Unparen(e).(*ast.BinaryExpr)
							if !ok {
								return "", false
							}
							op := be.Op
							var other ast.Expr
							switch {
							case same(be.X):
								other = be.Y
							case same(be.Y):
								other = be.X
								switch op {
								case token.LSS:
									op = token.GTR
								case token.GTR:
									op = token.LSS
								case token.LEQ:
									op = token.GEQ
								case token.GEQ:
									op = token.LEQ
								}
							default:
								return "", false
							}
							if same(other) {
								// x != x : NaN test
								if op == token.NEQ {
									return "nan", false
								}
								return "", false
							}
							switch op {
							case token.GTR, token.GEQ:
								return "hi", false
							case token.LSS, token.LEQ:
								return "lo", false
							}
							return "", false
						}
						if !located {
							obs = append(obs, mkOb(c, rid, u, construct, ce, Undecided, "conversion not located in the CFG", true))
							return true
						}
						notHi := fc.edgesEntailing(cls, func(v map[string]bool) bool { return v["$has:hi"] && !v["hi"] })
						notLo := fc.edgesEntailing(cls, func(v map[string]bool) bool { return v["$has:lo"] && !v["lo"] })
						okHi := len(notHi) > 0 && !fc.reachableAvoiding(loc.B, notHi)
						okLo := len(notLo) > 0 && !fc.reachableAvoiding(loc.B, notLo)
						if okHi && okLo {
							obs = append(obs, mkOb(c, rid, u, construct, ce, Proved, "the converted value was compared with an upper and a lower limit on every path", true))
						} else {
							obs = append(obs, mkOb(c, rid, u, construct, ce, Undecided, "`"+types.ExprString(ce)+"` converts a float that has not been bounded on both sides: for a value outside the integer range Go's result is implementation-defined (amd64: the minimum integer for +1e30 and -1e30 alike; arm64 saturates), so the program's value depends on the machine", true))
						}
						return true
					})
				}
			}
			return obs
		}})
}
