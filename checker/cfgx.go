package main

import (
	"fmt"
	"go/ast"
	"go/token"
	"go/types"

	"golang.org/x/tools/go/cfg"
)

// FCFG is the control-flow graph of one function body (or function literal)
// with dominator information.  Conditions are decomposed by go/cfg, so a block
// that ends in a condition has Succs[0] = true edge, Succs[1] = false edge.
type FCFG struct {
	G        *cfg.CFG
	Info     *types.Info
	Body     *ast.BlockStmt
	boolDefs map[*types.Var]ast.Expr
	// tagOf: case expression of a tagged switch -> the (side-effect free) tag; go/cfg records only
	// "one half of the tag==cond condition" in the branching block, CondOf supplies the whole
	tagOf map[ast.Expr]ast.Expr
	synth map[ast.Expr]*ast.BinaryExpr
	idom  map[*cfg.Block]*cfg.Block
	order    map[*cfg.Block]int
	preds    map[*cfg.Block][]*cfg.Block
}

// Loc is a position in the CFG: node index i of block b.
type Loc struct {
	B *cfg.Block
	I int
}

// noReturnFuncs: calls that never return normally.
func mayReturn(info *types.Info) func(*ast.CallExpr) bool {
	return func(call *ast.CallExpr) bool {
		if id, ok := ast.Unparen(call.Fun).(*ast.Ident); ok && id.Name == "panic" {
			if _, isBuiltin := info.Uses[id].(*types.Builtin); isBuiltin {
				return false
			}
		}
		if fn := Callee(info, call); fn != nil && fn.Pkg() != nil {
			full := fn.Pkg().Path() + "." + fn.Name()
			switch full {
			case "log.Panicf", "log.Panic", "log.Panicln", "log.Fatalf", "log.Fatal", "log.Fatalln", "os.Exit":
				return false
			}
		}
		return true
	}
}

func NewFCFG(info *types.Info, body *ast.BlockStmt) *FCFG {
	g := cfg.New(body, mayReturn(info))
	f := &FCFG{G: g, Info: info, Body: body, tagOf: map[ast.Expr]ast.Expr{}, synth: map[ast.Expr]*ast.BinaryExpr{}}
	ast.Inspect(body, func(n ast.Node) bool {
		sw, ok := n.(*ast.SwitchStmt)
		if !ok || sw.Tag == nil || !pureTag(sw.Tag) {
			return true
		}
		for _, cl := range sw.Body.List {
			if cc, ok := cl.(*ast.CaseClause); ok {
				for _, e := range cc.List {
					f.tagOf[e] = sw.Tag
				}
			}
		}
		return true
	})
	f.computeDom()
	return f
}

// pureTag: an identifier / selector / constant-index chain — evaluating it
// again at every case is the same as evaluating it once.
func pureTag(e ast.Expr) bool {
	switch x := ast.Unparen(e).(type) {
	case *ast.Ident:
		return true
	case *ast.SelectorExpr:
		return pureTag(x.X)
	case *ast.IndexExpr:
		if _, ok := ast.Unparen(x.Index).(*ast.BasicLit); ok {
			return pureTag(x.X)
		}
		if _, ok := ast.Unparen(x.Index).(*ast.Ident); ok {
			return pureTag(x.X)
		}
	case *ast.StarExpr:
		return pureTag(x.X)
	}
	return false
}

func (f *FCFG) computeDom() {
	// reverse postorder over live blocks
	var rpo []*cfg.Block
	seen := map[*cfg.Block]bool{}
	var dfs func(b *cfg.Block)
	dfs = func(b *cfg.Block) {
		seen[b] = true
		for _, s := range b.Succs {
			if !seen[s] {
				dfs(s)
			}
		}
		rpo = append(rpo, b)
	}
	if len(f.G.Blocks) == 0 {
		return
	}
	entry := f.G.Blocks[0]
	dfs(entry)
	for i, j := 0, len(rpo)-1; i < j; i, j = i+1, j-1 {
		rpo[i], rpo[j] = rpo[j], rpo[i]
	}
	f.order = map[*cfg.Block]int{}
	for i, b := range rpo {
		f.order[b] = i
	}
	f.preds = map[*cfg.Block][]*cfg.Block{}
	for _, b := range rpo {
		for _, s := range b.Succs {
			f.preds[s] = append(f.preds[s], b)
		}
	}
	f.idom = map[*cfg.Block]*cfg.Block{entry: entry}
	changed := true
	for changed {
		changed = false
		for _, b := range rpo[1:] {
			var nd *cfg.Block
			for _, p := range f.preds[b] {
				if f.idom[p] == nil {
					continue
				}
				if nd == nil {
					nd = p
				} else {
					nd = f.intersect(p, nd)
				}
			}
			if nd != nil && f.idom[b] != nd {
				f.idom[b] = nd
				changed = true
			}
		}
	}
}

func (f *FCFG) intersect(a, b *cfg.Block) *cfg.Block {
	for a != b {
		for f.order[a] > f.order[b] {
			a = f.idom[a]
		}
		for f.order[b] > f.order[a] {
			b = f.idom[b]
		}
	}
	return a
}

func (f *FCFG) Live(b *cfg.Block) bool { _, ok := f.order[b]; return ok }

// BlockDominates reports whether every path from entry to b passes through a.
func (f *FCFG) BlockDominates(a, b *cfg.Block) bool {
	if !f.Live(a) || !f.Live(b) {
		return false
	}
	for {
		if a == b {
			return true
		}
		nb := f.idom[b]
		if nb == b || nb == nil {
			return false
		}
		b = nb
	}
}

// Dominates: location a is executed before location b on every path to b.
func (f *FCFG) Dominates(a, b Loc) bool {
	if a.B == b.B {
		return a.I <= b.I
	}
	return f.BlockDominates(a.B, b.B)
}

// Locate finds the CFG node that contains the AST node n (by position).  Nodes
// inside function literals are not part of this CFG and yield ok=false unless
// the literal itself sits in a node (then that node is returned).
func (f *FCFG) Locate(n ast.Node) (Loc, bool) {
	for _, b := range f.G.Blocks {
		for i, m := range b.Nodes {
			if m.Pos() <= n.Pos() && n.End() <= m.End() {
				return Loc{b, i}, true
			}
		}
	}
	return Loc{}, false
}

// Node returns the AST node at a location.
func (f *FCFG) Node(l Loc) ast.Node { return l.B.Nodes[l.I] }

// CondEdge describes the branch taken out of a block whose last node is a
// condition: Succs[0] on true, Succs[1] on false.
func (f *FCFG) CondOf(b *cfg.Block) ast.Expr {
	if len(b.Succs) != 2 || len(b.Nodes) == 0 {
		return nil
	}
	e, _ := b.Nodes[len(b.Nodes)-1].(ast.Expr)
	if tag, ok := f.tagOf[e]; ok && e != nil {
		// `switch tag { case e:` — the branch taken here is decided by tag == e
		if be, ok := f.synth[e]; ok {
			return be
		}
		be := &ast.BinaryExpr{X: tag, OpPos: e.Pos(), Op: token.EQL, Y: e}
		f.synth[e] = be
		return be
	}
	return e
}

// ForwardSearch walks all paths forward from start (exclusive).  visit is
// called for each node; it returns stop=true to cut the path at that node
// (the node "covers" the path), or bad=true to report the node as reached.
// edgeOK, when non-nil, filters edges (b -> succ index).
// Returns the first bad location reached, if any; reaching the function exit
// calls atExit.
type searchVerdict int

const (
	svContinue searchVerdict = iota
	svStop
	svBad
)

func (f *FCFG) ForwardSearch(start Loc, visit func(l Loc, n ast.Node) searchVerdict,
	edgeOK func(b *cfg.Block, succIdx int) bool, atExit func(b *cfg.Block) bool) (Loc, bool) {
	type item struct {
		b *cfg.Block
		i int
	}
	seen := map[*cfg.Block]bool{}
	work := []item{{start.B, start.I + 1}}
	for len(work) > 0 {
		it := work[len(work)-1]
		work = work[:len(work)-1]
		cut := false
		for i := it.i; i < len(it.b.Nodes); i++ {
			switch visit(Loc{it.b, i}, it.b.Nodes[i]) {
			case svStop:
				cut = true
			case svBad:
				return Loc{it.b, i}, true
			}
			if cut {
				break
			}
		}
		if cut {
			continue
		}
		if len(it.b.Succs) == 0 {
			if atExit != nil && atExit(it.b) {
				return Loc{it.b, len(it.b.Nodes) - 1}, true
			}
			continue
		}
		for k, s := range it.b.Succs {
			if edgeOK != nil && !edgeOK(it.b, k) {
				continue
			}
			if !seen[s] {
				seen[s] = true
				work = append(work, item{s, 0})
			}
		}
	}
	return Loc{}, false
}

// isNilTest recognises `x != nil` / `x == nil` on the given object, returning
// (isTest, trueMeansNonNil).
func isNilTest(info *types.Info, e ast.Expr, obj types.Object) (bool, bool) {
	be, ok := ast.Unparen(e).(*ast.BinaryExpr)
	if !ok || (be.Op != token.NEQ && be.Op != token.EQL) {
		return false, false
	}
	isNil := func(x ast.Expr) bool {
		id, ok := ast.Unparen(x).(*ast.Ident)
		if !ok {
			return false
		}
		_, isNilObj := info.Uses[id].(*types.Nil)
		return isNilObj
	}
	isObj := func(x ast.Expr) bool {
		id, ok := ast.Unparen(x).(*ast.Ident)
		return ok && (info.Uses[id] == obj)
	}
	if (isObj(be.X) && isNil(be.Y)) || (isObj(be.Y) && isNil(be.X)) {
		return true, be.Op == token.NEQ
	}
	return false, false
}

// funcBodies yields the declared body plus every function literal body inside
// it, each as its own CFG unit.
type bodyUnit struct {
	Body *ast.BlockStmt
	Lit  *ast.FuncLit // nil for the declaration's own body
}

func bodiesOf(fd *ast.FuncDecl) []bodyUnit {
	out := []bodyUnit{{Body: fd.Body}}
	ast.Inspect(fd.Body, func(n ast.Node) bool {
		if l, ok := n.(*ast.FuncLit); ok {
			out = append(out, bodyUnit{Body: l.Body, Lit: l})
		}
		return true
	})
	return out
}

// innermostBody returns the body (declaration or literal) that directly
// contains node n.
func innermostBody(fd *ast.FuncDecl, n ast.Node) bodyUnit {
	best := bodyUnit{Body: fd.Body}
	ast.Inspect(fd.Body, func(m ast.Node) bool {
		if m == nil {
			return true
		}
		if m.Pos() > n.Pos() || m.End() < n.End() {
			return false
		}
		if l, ok := m.(*ast.FuncLit); ok && l.Body.Pos() <= n.Pos() && n.End() <= l.Body.End() {
			best = bodyUnit{Body: l.Body, Lit: l}
		}
		return true
	})
	return best
}

// ---- compound conditions ----
//
// go/cfg keeps `a && b || !c` as one condition node.  The helpers below give
// the two out-edges of such a block their logical content.

// LitAtom is an atomic condition with a polarity.
type LitAtom struct {
	E        ast.Expr
	Positive bool
}

// impliedAtoms returns atoms that necessarily hold on the given edge of cond
// (edgeTrue: the condition evaluated to true).  Conjuncts of a true `&&` and
// negated disjuncts of a false `||` are implied; anything else is not.
func impliedAtoms(cond ast.Expr, edgeTrue bool) []LitAtom {
	var out []LitAtom
	depth := 0
	var walk func(e ast.Expr, want bool)
	walk = func(e ast.Expr, want bool) {
		e = ast.Unparen(e)
		switch x := e.(type) {
		case *ast.UnaryExpr:
			if x.Op == token.NOT {
				walk(x.X, !want)
				return
			}
		case *ast.BinaryExpr:
			if x.Op == token.LAND && want {
				walk(x.X, true)
				walk(x.Y, true)
				return
			}
			if x.Op == token.LOR && !want {
				walk(x.X, false)
				walk(x.Y, false)
				return
			}
			if x.Op == token.LAND || x.Op == token.LOR {
				return // a disjunction of facts: no single atom is implied
			}
		case *ast.Ident:
			// a boolean local that abbreviates a condition reads as that condition
			if d, ok := boolLocalUse[x]; ok && depth < 4 {
				depth++
				walk(d, want)
				depth--
				return
			}
		case *ast.CallExpr:
			// a predicate helper reads as the condition it returns
			// (the call itself stays an atom too: some rules know the helper by name)
			if d, ok := predInline[x]; ok && depth < 4 {
				out = append(out, LitAtom{e, want})
				depth++
				walk(d, want)
				depth--
				return
			}
		}
		out = append(out, LitAtom{e, want})
	}
	walk(cond, edgeTrue)
	return out
}

// edgesImplying lists CFG edges on which some atom accepted by pred holds.
func (f *FCFG) edgesImplying(pred func(a LitAtom) bool) []cfgEdge {
	var out []cfgEdge
	for _, b := range f.G.Blocks {
		if !f.Live(b) {
			continue
		}
		cond := f.CondOf(b)
		if cond == nil {
			continue
		}
		for k := 0; k < 2; k++ {
			for _, a := range impliedAtoms(cond, k == 0) {
				if pred(a) {
					out = append(out, cfgEdge{b, k})
					break
				}
			}
		}
	}
	return out
}

// edgeEntails decides whether the logical content of edge (b,k) implies goal.
// cls names the atoms the goal talks about (with polarity); other atoms are
// free.  All assignments are enumerated (at most 2^12).
func (f *FCFG) edgeEntails(b *cfg.Block, k int, cls func(e ast.Expr) (string, bool), goal func(v map[string]bool) bool) bool {
	cond := f.CondOf(b)
	if cond == nil {
		return false
	}
	return f.exprEntails(cond, k == 0, b, cls, goal)
}

// exprEntails decides whether `cond` evaluating to `want` implies goal (b is
// the block whose condition cond is, or nil for a free-standing expression
// such as a returned boolean).
func (f *FCFG) exprEntails(cond ast.Expr, want bool, b *cfg.Block, cls func(e ast.Expr) (string, bool), goal func(v map[string]bool) bool) bool {
	k := 1
	if want {
		k = 0
	}
	type atom struct {
		name string
		neg  bool
	}
	atoms := map[ast.Expr]atom{}
	var names []string
	seenName := map[string]bool{}
	nfree := 0
	expanding := map[string]bool{}
	expanded := map[ast.Expr]ast.Expr{}
	var collect func(e ast.Expr)
	collect = func(e ast.Expr) {
		e = ast.Unparen(e)
		switch x := e.(type) {
		case *ast.UnaryExpr:
			if x.Op == token.NOT {
				collect(x.X)
				return
			}
		case *ast.BinaryExpr:
			if x.Op == token.LAND || x.Op == token.LOR {
				collect(x.X)
				collect(x.Y)
				return
			}
		case *ast.Ident:
			if nm, _ := cls(e); nm == "" {
				if d := f.boolDef(x); d != nil && !expanding[x.Name] {
					expanding[x.Name] = true
					collect(d)
					expanding[x.Name] = false
					expanded[e] = d
					return
				}
			}
		case *ast.CallExpr:
			if nm, _ := cls(e); nm == "" {
				if d, ok := predInline[x]; ok {
					collect(d)
					expanded[e] = d
					return
				}
			}
		}
		n, neg := cls(e)
		if n == "" {
			nfree++
			n = fmt.Sprintf("$free%d", nfree)
		}
		atoms[e] = atom{n, neg}
		if !seenName[n] {
			seenName[n] = true
			names = append(names, n)
		}
	}
	collect(cond)
	// atoms the goal may talk about but this condition does not mention are
	// universally quantified too: every classified atom of any condition of the
	// function joins the enumeration (otherwise a missing atom would silently
	// read as false and `!atom` goals would be entailed by unrelated edges).
	for _, ob := range f.G.Blocks {
		oc := f.CondOf(ob)
		if oc == nil || ob == b {
			continue
		}
		f.inspectCond(oc, func(e ast.Expr) {
			if nm, _ := cls(e); nm != "" && !seenName[nm] {
				seenName[nm] = true
				names = append(names, nm)
			}
		}, 0)
	}
	if len(names) > 14 {
		return false
	}
	var eval func(e ast.Expr, v map[string]bool) bool
	eval = func(e ast.Expr, v map[string]bool) bool {
		e = ast.Unparen(e)
		switch x := e.(type) {
		case *ast.UnaryExpr:
			if x.Op == token.NOT {
				return !eval(x.X, v)
			}
		case *ast.BinaryExpr:
			if x.Op == token.LAND {
				return eval(x.X, v) && eval(x.Y, v)
			}
			if x.Op == token.LOR {
				return eval(x.X, v) || eval(x.Y, v)
			}
		}
		if d, ok := expanded[e]; ok {
			return eval(d, v)
		}
		a := atoms[e]
		return v[a.name] != a.neg
	}
	for mask := 0; mask < 1<<len(names); mask++ {
		v := map[string]bool{}
		for i, n := range names {
			v[n] = mask&(1<<i) != 0
			v["$has:"+n] = true // lets a goal tell "atom is false" from "atom does not occur in this function"
		}
		holds := eval(cond, v)
		if (k == 0) != holds {
			continue // this assignment does not take edge k
		}
		if !goal(v) {
			return false
		}
	}
	return true
}

// boolDef: id names a boolean local of this function with exactly one
// definition (`named := a == b`), never reassigned and never address-taken; the
// defining expression is returned so that a test on the local reads as a test
// on what it abbreviates.
func (f *FCFG) boolDef(id *ast.Ident) ast.Expr {
	if f.Info == nil || f.Body == nil {
		return nil
	}
	v, ok := f.Info.Uses[id].(*types.Var)
	if !ok || v.IsField() || v.Pkg() == nil || v.Parent() == v.Pkg().Scope() {
		return nil
	}
	if bt, ok := v.Type().Underlying().(*types.Basic); !ok || bt.Kind() != types.Bool {
		return nil
	}
	if f.boolDefs == nil {
		f.boolDefs = map[*types.Var]ast.Expr{}
	}
	if d, ok := f.boolDefs[v]; ok {
		return d
	}
	var def ast.Expr
	n := 0
	ast.Inspect(f.Body, func(m ast.Node) bool {
		switch x := m.(type) {
		case *ast.AssignStmt:
			for i, l := range x.Lhs {
				if lid, ok := l.(*ast.Ident); ok && (f.Info.Defs[lid] == v || f.Info.Uses[lid] == v) {
					n++
					if len(x.Lhs) == len(x.Rhs) && x.Tok == token.DEFINE {
						def = x.Rhs[i]
					} else {
						n++
					}
				}
			}
		case *ast.ValueSpec:
			for i, nm := range x.Names {
				if f.Info.Defs[nm] == v {
					n++
					if i < len(x.Values) {
						def = x.Values[i]
					} else {
						n++
					}
				}
			}
		case *ast.UnaryExpr:
			if x.Op == token.AND {
				if lid, ok := ast.Unparen(x.X).(*ast.Ident); ok && f.Info.Uses[lid] == v {
					n += 2
				}
			}
		}
		return true
	})
	if n != 1 {
		def = nil
	}
	// the definition must be a pure boolean expression (comparisons, calls are kept as atoms)
	f.boolDefs[v] = def
	return def
}

// inspectCond visits the sub-expressions of a condition, looking through
// single-definition boolean locals.
func (f *FCFG) inspectCond(cond ast.Expr, visit func(e ast.Expr), depth int) {
	ast.Inspect(cond, func(n ast.Node) bool {
		e, ok := n.(ast.Expr)
		if !ok {
			return true
		}
		visit(e)
		if id, ok := e.(*ast.Ident); ok && depth < 3 {
			if d := f.boolDef(id); d != nil {
				f.inspectCond(d, visit, depth+1)
			}
		}
		if ce, ok := e.(*ast.CallExpr); ok && depth < 3 {
			if d, ok := predInline[ce]; ok {
				f.inspectCond(d, visit, depth+1)
			}
		}
		return true
	})
}

// edgesEntailing lists all edges whose content implies goal.
func (f *FCFG) edgesEntailing(cls func(e ast.Expr) (string, bool), goal func(v map[string]bool) bool) []cfgEdge {
	var out []cfgEdge
	for _, b := range f.G.Blocks {
		if !f.Live(b) || f.CondOf(b) == nil {
			continue
		}
		// only blocks that mention at least one classified atom
		mentions := false
		f.inspectCond(f.CondOf(b), func(e ast.Expr) {
			if nm, _ := cls(e); nm != "" {
				mentions = true
			}
		}, 0)
		if !mentions {
			continue
		}
		for k := 0; k < 2; k++ {
			if f.edgeEntails(b, k, cls, goal) {
				out = append(out, cfgEdge{b, k})
			}
		}
	}
	return out
}

// nilEdges lists edges on which obj is known nil (wantNil) or non-nil.
func (f *FCFG) nilEdges(obj types.Object, wantNil bool) []cfgEdge {
	return f.edgesImplying(func(a LitAtom) bool {
		is, trueNonNil := isNilTest(f.Info, a.E, obj)
		if !is {
			return false
		}
		nonNil := trueNonNil == a.Positive
		return nonNil != wantNil
	})
}

// edgeReturns: the first node on edge (b,k) is `return <obj>` (returns the
// object unchanged); with obj == nil any return is accepted.
func (f *FCFG) edgeReturns(e cfgEdge, obj types.Object) bool {
	succ := e.B.Succs[e.K]
	if len(succ.Nodes) == 0 {
		return false
	}
	rs, ok := succ.Nodes[0].(*ast.ReturnStmt)
	if !ok {
		return false
	}
	if obj == nil {
		return true
	}
	for _, r := range rs.Results {
		if identObj(f.Info, r) == obj {
			return true
		}
	}
	return false
}
