package main

import (
	"go/ast"
	"go/token"
	"go/types"

	"golang.org/x/tools/go/cfg"
)

// FCFG is the control-flow graph of one function body (or function literal)
// with dominator information.  Conditions are decomposed by go/cfg, so a block
// that ends in a condition has Succs[0] = true edge, Succs[1] = false edge.
type FCFG struct {
	G     *cfg.CFG
	Info  *types.Info
	Body  *ast.BlockStmt
	idom  map[*cfg.Block]*cfg.Block
	order map[*cfg.Block]int
	preds map[*cfg.Block][]*cfg.Block
}

// Loc is a position in the CFG: node index i of block b.
type Loc struct {
	B *cfg.Block
	I int
}

// noReturnFuncs: calls that never return normally.
func mayReturn(info *types.Info) func(*ast.CallExpr) bool {
	return func(call *ast.CallExpr) bool {
		if id, ok := ast.Unparen(call.Fun).(*ast.Ident); ok && id.Name == "panic" {
			if _, isBuiltin := info.Uses[id].(*types.Builtin); isBuiltin {
				return false
			}
		}
		if fn := Callee(info, call); fn != nil && fn.Pkg() != nil {
			full := fn.Pkg().Path() + "." + fn.Name()
			switch full {
			case "log.Panicf", "log.Panic", "log.Panicln", "log.Fatalf", "log.Fatal", "log.Fatalln", "os.Exit":
				return false
			}
		}
		return true
	}
}

func NewFCFG(info *types.Info, body *ast.BlockStmt) *FCFG {
	g := cfg.New(body, mayReturn(info))
	f := &FCFG{G: g, Info: info, Body: body}
	f.computeDom()
	return f
}

func (f *FCFG) computeDom() {
	// reverse postorder over live blocks
	var rpo []*cfg.Block
	seen := map[*cfg.Block]bool{}
	var dfs func(b *cfg.Block)
	dfs = func(b *cfg.Block) {
		seen[b] = true
		for _, s := range b.Succs {
			if !seen[s] {
				dfs(s)
			}
		}
		rpo = append(rpo, b)
	}
	if len(f.G.Blocks) == 0 {
		return
	}
	entry := f.G.Blocks[0]
	dfs(entry)
	for i, j := 0, len(rpo)-1; i < j; i, j = i+1, j-1 {
		rpo[i], rpo[j] = rpo[j], rpo[i]
	}
	f.order = map[*cfg.Block]int{}
	for i, b := range rpo {
		f.order[b] = i
	}
	f.preds = map[*cfg.Block][]*cfg.Block{}
	for _, b := range rpo {
		for _, s := range b.Succs {
			f.preds[s] = append(f.preds[s], b)
		}
	}
	f.idom = map[*cfg.Block]*cfg.Block{entry: entry}
	changed := true
	for changed {
		changed = false
		for _, b := range rpo[1:] {
			var nd *cfg.Block
			for _, p := range f.preds[b] {
				if f.idom[p] == nil {
					continue
				}
				if nd == nil {
					nd = p
				} else {
					nd = f.intersect(p, nd)
				}
			}
			if nd != nil && f.idom[b] != nd {
				f.idom[b] = nd
				changed = true
			}
		}
	}
}

func (f *FCFG) intersect(a, b *cfg.Block) *cfg.Block {
	for a != b {
		for f.order[a] > f.order[b] {
			a = f.idom[a]
		}
		for f.order[b] > f.order[a] {
			b = f.idom[b]
		}
	}
	return a
}

func (f *FCFG) Live(b *cfg.Block) bool { _, ok := f.order[b]; return ok }

// BlockDominates reports whether every path from entry to b passes through a.
func (f *FCFG) BlockDominates(a, b *cfg.Block) bool {
	if !f.Live(a) || !f.Live(b) {
		return false
	}
	for {
		if a == b {
			return true
		}
		nb := f.idom[b]
		if nb == b || nb == nil {
			return false
		}
		b = nb
	}
}

// Dominates: location a is executed before location b on every path to b.
func (f *FCFG) Dominates(a, b Loc) bool {
	if a.B == b.B {
		return a.I <= b.I
	}
	return f.BlockDominates(a.B, b.B)
}

// Locate finds the CFG node that contains the AST node n (by position).  Nodes
// inside function literals are not part of this CFG and yield ok=false unless
// the literal itself sits in a node (then that node is returned).
func (f *FCFG) Locate(n ast.Node) (Loc, bool) {
	for _, b := range f.G.Blocks {
		for i, m := range b.Nodes {
			if m.Pos() <= n.Pos() && n.End() <= m.End() {
				return Loc{b, i}, true
			}
		}
	}
	return Loc{}, false
}

// Node returns the AST node at a location.
func (f *FCFG) Node(l Loc) ast.Node { return l.B.Nodes[l.I] }

// CondEdge describes the branch taken out of a block whose last node is a
// condition: Succs[0] on true, Succs[1] on false.
func (f *FCFG) CondOf(b *cfg.Block) ast.Expr {
	if len(b.Succs) != 2 || len(b.Nodes) == 0 {
		return nil
	}
	e, _ := b.Nodes[len(b.Nodes)-1].(ast.Expr)
	return e
}

// ForwardSearch walks all paths forward from start (exclusive).  visit is
// called for each node; it returns stop=true to cut the path at that node
// (the node "covers" the path), or bad=true to report the node as reached.
// edgeOK, when non-nil, filters edges (b -> succ index).
// Returns the first bad location reached, if any; reaching the function exit
// calls atExit.
type searchVerdict int

const (
	svContinue searchVerdict = iota
	svStop
	svBad
)

func (f *FCFG) ForwardSearch(start Loc, visit func(l Loc, n ast.Node) searchVerdict,
	edgeOK func(b *cfg.Block, succIdx int) bool, atExit func(b *cfg.Block) bool) (Loc, bool) {
	type item struct {
		b *cfg.Block
		i int
	}
	seen := map[*cfg.Block]bool{}
	work := []item{{start.B, start.I + 1}}
	for len(work) > 0 {
		it := work[len(work)-1]
		work = work[:len(work)-1]
		cut := false
		for i := it.i; i < len(it.b.Nodes); i++ {
			switch visit(Loc{it.b, i}, it.b.Nodes[i]) {
			case svStop:
				cut = true
			case svBad:
				return Loc{it.b, i}, true
			}
			if cut {
				break
			}
		}
		if cut {
			continue
		}
		if len(it.b.Succs) == 0 {
			if atExit != nil && atExit(it.b) {
				return Loc{it.b, len(it.b.Nodes) - 1}, true
			}
			continue
		}
		for k, s := range it.b.Succs {
			if edgeOK != nil && !edgeOK(it.b, k) {
				continue
			}
			if !seen[s] {
				seen[s] = true
				work = append(work, item{s, 0})
			}
		}
	}
	return Loc{}, false
}

// isNilTest recognises `x != nil` / `x == nil` on the given object, returning
// (isTest, trueMeansNonNil).
func isNilTest(info *types.Info, e ast.Expr, obj types.Object) (bool, bool) {
	be, ok := ast.Unparen(e).(*ast.BinaryExpr)
	if !ok || (be.Op != token.NEQ && be.Op != token.EQL) {
		return false, false
	}
	isNil := func(x ast.Expr) bool {
		id, ok := ast.Unparen(x).(*ast.Ident)
		if !ok {
			return false
		}
		_, isNilObj := info.Uses[id].(*types.Nil)
		return isNilObj
	}
	isObj := func(x ast.Expr) bool {
		id, ok := ast.Unparen(x).(*ast.Ident)
		return ok && (info.Uses[id] == obj)
	}
	if (isObj(be.X) && isNil(be.Y)) || (isObj(be.Y) && isNil(be.X)) {
		return true, be.Op == token.NEQ
	}
	return false, false
}

// funcBodies yields the declared body plus every function literal body inside
// it, each as its own CFG unit.
type bodyUnit struct {
	Body *ast.BlockStmt
	Lit  *ast.FuncLit // nil for the declaration's own body
}

func bodiesOf(fd *ast.FuncDecl) []bodyUnit {
	out := []bodyUnit{{Body: fd.Body}}
	ast.Inspect(fd.Body, func(n ast.Node) bool {
		if l, ok := n.(*ast.FuncLit); ok {
			out = append(out, bodyUnit{Body: l.Body, Lit: l})
		}
		return true
	})
	return out
}

// innermostBody returns the body (declaration or literal) that directly
// contains node n.
func innermostBody(fd *ast.FuncDecl, n ast.Node) bodyUnit {
	best := bodyUnit{Body: fd.Body}
	ast.Inspect(fd.Body, func(m ast.Node) bool {
		if m == nil {
			return true
		}
		if m.Pos() > n.Pos() || m.End() < n.End() {
			return false
		}
		if l, ok := m.(*ast.FuncLit); ok && l.Body.Pos() <= n.Pos() && n.End() <= l.Body.End() {
			best = bodyUnit{Body: l.Body, Lit: l}
		}
		return true
	})
	return best
}
