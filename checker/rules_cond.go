package main

import (
	"go/ast"
	"go/constant"
	"go/token"
	"go/types"

	"golang.org/x/tools/go/cfg"
)

// E8.CARVEOUT and friends (C06).

func (c *Ctx) lerrorConst() (types.Object, *types.Var) {
	p := c.Pkg("lisp")
	if p == nil {
		return nil, nil
	}
	return p.Types.Scope().Lookup("LError"), c.LookupField("lisp.LVal.Type")
}

func init() {
	register(&Rule{ID: "CARVE.ignore-errors", Floor: 1,
		Doc: "in opIgnoreErrors every return that replaces an evaluation error by another value is reachable from the error edge only through the false edge of IsInternalPanic(err)",
		Run: func(c *Ctx) []Obligation {
			fn, fd, pkg := c.LookupFunc("lisp.opIgnoreErrors")
			isPanic := c.LookupPkgFunc("lisp.IsInternalPanic")
			lerr, typeFld := c.lerrorConst()
			if fn == nil || isPanic == nil || lerr == nil || typeFld == nil {
				return []Obligation{anchorMissing("CARVE.ignore-errors", "opIgnoreErrors/IsInternalPanic/LError")}
			}
			u := FuncUnit{fn, fd, pkg}
			info := pkg.TypesInfo
			fc := c.cfgOf(u, nil)
			var obs []Obligation
			ord := &ordinal{}
			nerr := 0
			for _, ee := range errorEdges(fc, typeFld, lerr) {
				errObj := ee.Obj
				nerr++
				cut := fc.edgesImplying(func(a LitAtom) bool {
					ce, ok := ast.Unparen(a.E).(*ast.CallExpr)
					return ok && !a.Positive && originOf(Callee(info, ce)) == isPanic && len(ce.Args) == 1 && identObj(info, ce.Args[0]) == errObj
				})
				start := ee.E.B.Succs[ee.E.K]
				// `val.Type == LError && !IsInternalPanic(val)`: the edge that establishes the error also
				// establishes the carve-out, so everything behind it is behind the carve-out
				edgeCarves := false
				for _, ce := range cut {
					if ce.B == ee.E.B && ce.K == ee.E.K {
						edgeCarves = true
					}
				}
				for _, b := range fc.G.Blocks {
					if !fc.Live(b) {
						continue
					}
					for _, n := range b.Nodes {
						rs, isRet := n.(*ast.ReturnStmt)
						if !isRet || len(rs.Results) != 1 {
							continue
						}
						if identObj(info, rs.Results[0]) == errObj {
							continue // propagates the error itself
						}
						if edgeCarves && fc.reachableFromAvoiding(start, b, nil) {
							obs = append(obs, mkOb(c, "CARVE.ignore-errors", u, ord.next("swallowing return "+types.ExprString(rs.Results[0])), rs, Proved, "the edge that establishes the error also establishes !IsInternalPanic(err)", true))
							continue
						}
						if !fc.reachableFromAvoiding(start, b, nil) {
							continue
						}
						construct := ord.next("swallowing return " + types.ExprString(rs.Results[0]))
						if len(cut) > 0 && !fc.reachableFromAvoiding(start, b, cut) {
							obs = append(obs, mkOb(c, "CARVE.ignore-errors", u, construct, rs, Proved, "reachable from the error edge only when IsInternalPanic(err) is false", true))
						} else {
							obs = append(obs, mkOb(c, "CARVE.ignore-errors", u, construct, rs, Violated, "an error recovered from a host panic can be swallowed: the return is reachable from the error edge without passing !IsInternalPanic(err)", true))
						}
					}
				}
			}
			if nerr == 0 {
				obs = append(obs, mkOb(c, "CARVE.ignore-errors", u, "error test", fd, Undecided, "no `val.Type == LError` test found", false))
			}
			return obs
		}})

	register(&Rule{ID: "CARVE.handler-bind", Floor: 2,
		Doc: "in opHandlerBind the handler dispatch (PushCondition) is reachable from the error edge only through `binding name == condition name` or (`binding name == \"condition\"` and not IsInternalPanic(err)); the pushed condition is the error itself",
		Run: func(c *Ctx) []Obligation {
			fn, fd, pkg := c.LookupFunc("lisp.opHandlerBind")
			isPanic := c.LookupPkgFunc("lisp.IsInternalPanic")
			push := c.LookupMethod("lisp.Runtime.PushCondition")
			strFld := c.LookupField("lisp.LVal.Str")
			lerr, typeFld := c.lerrorConst()
			if fn == nil || isPanic == nil || push == nil || strFld == nil || lerr == nil {
				return []Obligation{anchorMissing("CARVE.handler-bind", "opHandlerBind/IsInternalPanic/PushCondition")}
			}
			root := FuncUnit{fn, fd, pkg}
			// analyze: the selection and dispatch as written in unit u.  errParam == nil: u is opHandlerBind and the
			// error is whatever a `X.Type == LError` edge names; otherwise u is a private helper the error was
			// handed to (handleCondition(env, binds, val)) and errParam is the parameter that receives it.
			var analyze func(u FuncUnit, errParam types.Object, depth int) []Obligation
			analyze = func(u FuncUnit, errParam types.Object, depth int) []Obligation {
				fn, fd, pkg := u.Obj, u.Decl, u.Pkg
				info := pkg.TypesInfo
				fc := c.cfgOf(u, nil)
				var obs []Obligation
				// delegate: the error is handed, as an argument, to an unexported function of the package that
				// (transitively) makes the dispatch — the selection is written there
				delegate := func(errObj types.Object) []Obligation {
					if depth >= 3 || errObj == nil {
						return nil
					}
					var out []Obligation
					done := map[*types.Func]bool{}
					for _, ce := range callsIn(fd.Body, false) {
						h := originOf(Callee(info, ce))
						if h == nil || h.Pkg() != fn.Pkg() || h.Exported() || h == fn || done[h] || !c.reaches(h, push) {
							continue
						}
						hd := c.declOf[h]
						if hd == nil || hd.Body == nil {
							continue
						}
						if po := boundParam(info, ce, h, errObj); po != nil {
							done[h] = true
							out = append(out, analyze(FuncUnit{h, hd, c.pkgOf[hd]}, po, depth+1)...)
						}
					}
					return out
				}
				// the dispatch: a PushCondition call here, or a call to a private helper that makes it
				type dispatch struct {
					loc     Loc
					call    *ast.CallExpr // the call in opHandlerBind
					push    *ast.CallExpr // the PushCondition call
					inUnit  FuncUnit      // where the PushCondition call is written
					viaCall bool
				}
				var pushes []dispatch
				for _, p := range fc.findCalls(push) {
					pushes = append(pushes, dispatch{p.Loc, p.Call, p.Call, u, false})
				}
				for _, hu := range c.withHelpers(u) {
					if hu.Obj == fn {
						continue
					}
					var pc *ast.CallExpr
					for _, ce := range callsIn(hu.Decl.Body, false) {
						if originOf(Callee(hu.Pkg.TypesInfo, ce)) == push {
							pc = ce
						}
					}
					if pc == nil {
						continue
					}
					for _, p := range fc.findCalls(hu.Obj) {
						pushes = append(pushes, dispatch{p.Loc, p.Call, pc, hu, true})
					}
				}
				if len(pushes) == 0 {
					var errObjs []types.Object
					if errParam != nil {
						errObjs = append(errObjs, errParam)
					} else {
						for _, ee := range errorEdges(fc, typeFld, lerr) {
							errObjs = append(errObjs, ee.Obj)
						}
					}
					for _, eo := range errObjs {
						if out := delegate(eo); len(out) > 0 {
							return out
						}
					}
					return []Obligation{mkOb(c, "CARVE.handler-bind", u, "dispatch", fd, Undecided, "no PushCondition call: handler dispatch changed shape", false)}
				}
				goalSelected := func(v map[string]bool) bool { return v["nameEq"] || v["catchAll"] || v["h11"] || v["h10"] }
				goalCarved := func(v map[string]bool) bool {
					return v["nameEq"] || (v["$has:isPanic"] && !v["isPanic"]) || v["h11"] || v["h01"]
				}
				// nameObjs: string parameters of a helper that receive `<binding symbol>.Str` from its caller
				// (`handlerMatches(sym.Str, val)`): inside the helper they are the binding's specifier
				var mkCls func(info *types.Info, errObj types.Object, nameObjs map[types.Object]bool, depth int) func(e ast.Expr) (string, bool)
				mkCls = func(info *types.Info, errObj types.Object, nameObjs map[types.Object]bool, depth int) func(e ast.Expr) (string, bool) {
					isStrOf := func(e ast.Expr, o types.Object) bool {
						se, ok := ast.Unparen(e).(*ast.SelectorExpr)
						return ok && FieldOfSelector(info, se) == strFld && identObj(info, se.X) == o
					}
					isAnyStr := func(e ast.Expr) (types.Object, bool) {
						if o := identObj(info, e); o != nil && nameObjs[o] {
							return o, true
						}
						se, ok := ast.Unparen(e).(*ast.SelectorExpr)
						if !ok || FieldOfSelector(info, se) != strFld {
							return nil, false
						}
						return identObj(info, se.X), true
					}
					return func(e ast.Expr) (string, bool) {
						if ce, ok := ast.Unparen(e).(*ast.CallExpr); ok {
							h := originOf(Callee(info, ce))
							if h == isPanic && len(ce.Args) == 1 && identObj(info, ce.Args[0]) == errObj {
								return "isPanic", false
							}
							// a boolean helper of the package given the error: what its true result entails
							if h != nil && h != isPanic && depth < 2 && h.Pkg() == fn.Pkg() {
								if po := boundParam(info, ce, h, errObj); po != nil {
									hnames := map[types.Object]bool{}
									hsig := h.Type().(*types.Signature)
									for i, a := range ce.Args {
										if o, ok := isAnyStr(a); ok && o != errObj && i < hsig.Params().Len() {
											hnames[hsig.Params().At(i)] = true
										}
									}
									sub := func(hi *types.Info) func(e ast.Expr) (string, bool) { return mkCls(hi, po, hnames, depth+1) }
									sel := c.helperResultEntails(h, true, sub, goalSelected)
									car := c.helperResultEntails(h, true, sub, goalCarved)
									switch {
									case sel && car:
										return "h11", false
									case sel:
										return "h10", false
									case car:
										return "h01", false
									}
								}
							}
							return "", false
						}
						be, ok := ast.Unparen(e).(*ast.BinaryExpr)
						if !ok || (be.Op != token.EQL && be.Op != token.NEQ) {
							return "", false
						}
						// `bind != nil` with bind := findBinding(…, err): a selecting helper of the package — what its
						// non-nil result entails
						if depth < 2 && (isNilIdent(info, be.X) || isNilIdent(info, be.Y)) {
							x := be.X
							if isNilIdent(info, be.X) {
								x = be.Y
							}
							if d := soleDef(info, fd.Body, x); d != nil && depth == 0 {
								if hc, ok := ast.Unparen(d).(*ast.CallExpr); ok {
									if h := originOf(Callee(info, hc)); h != nil && h.Pkg() == fn.Pkg() {
										if po := boundParam(info, hc, h, errObj); po != nil {
											sub := func(hi *types.Info) func(e ast.Expr) (string, bool) {
												return mkCls(hi, po, map[types.Object]bool{}, depth+1)
											}
											sel := c.helperNonNilEntails(h, sub, goalSelected)
											car := c.helperNonNilEntails(h, sub, goalCarved)
											// the atom is true when x is non-nil for `!=`, nil for `==`
											neg := be.Op == token.EQL
											switch {
											case sel && car:
												return "h11", neg
											case sel:
												return "h10", neg
											case car:
												return "h01", neg
											}
										}
									}
								}
							}
							return "", false
						}
						neg := be.Op == token.NEQ
						if isStrOf(be.X, errObj) || isStrOf(be.Y, errObj) {
							other := be.Y
							if isStrOf(be.Y, errObj) {
								other = be.X
							}
							if o, ok := isAnyStr(other); ok && o != errObj {
								return "nameEq", neg
							}
							return "", false
						}
						for _, pair := range [][2]ast.Expr{{be.X, be.Y}, {be.Y, be.X}} {
							if _, ok := isAnyStr(pair[0]); ok {
								if tv, ok := info.Types[pair[1]]; ok && tv.Value != nil && tv.Value.Kind() == constant.String && constant.StringVal(tv.Value) == "condition" {
									return "catchAll", neg
								}
							}
						}
						return "", false
					}
				}
				type errStart struct {
					obj   types.Object
					start *cfg.Block
				}
				var starts []errStart
				if errParam != nil {
					starts = append(starts, errStart{errParam, fc.G.Blocks[0]})
				} else {
					for _, ee := range errorEdges(fc, typeFld, lerr) {
						starts = append(starts, errStart{ee.Obj, ee.E.B.Succs[ee.E.K]})
					}
				}
				for _, es := range starts {
					errObj := es.obj
					start := es.start
					reach := false
					for _, p := range pushes {
						if fc.reachableFromAvoiding(start, p.loc.B, nil) {
							reach = true
						}
					}
					if !reach {
						continue
					}
					cls := mkCls(info, errObj, nil, 0)
					selected := fc.edgesEntailing(cls, goalSelected)
					carved := fc.edgesEntailing(cls, goalCarved)
					// the search over the bindings ends early only for a binding that matches: every way out of the
					// loop that contains the dispatch (a return, a break) other than going on to the next binding
					// lies behind an edge that selects the binding AND behind one that respects the carve-out.  A
					// catch-all binding that may not handle a host panic is passed over like any other that does
					// not match — a later binding naming the condition must still get its turn.
					for _, p := range pushes {
						if p.viaCall {
							continue
						}
						loop := innermostLoopAround(fd.Body, p.call)
						if loop == nil {
							continue
						}
						var body *ast.BlockStmt
						switch l := loop.(type) {
						case *ast.RangeStmt:
							body = l.Body
						case *ast.ForStmt:
							body = l.Body
						}
						inBody := func(n ast.Node) bool { return n.Pos() >= body.Pos() && n.End() <= body.End() }
						xord := &ordinal{}
						for _, b := range fc.G.Blocks {
							if !fc.Live(b) || len(b.Nodes) == 0 || !inBody(b.Nodes[0]) {
								continue
							}
							exit := ""
							if _, ok := b.Nodes[len(b.Nodes)-1].(*ast.ReturnStmt); ok {
								exit = "return"
							}
							for _, sc := range b.Succs {
								if sc.Stmt == loop && (sc.Kind == cfg.KindRangeDone || sc.Kind == cfg.KindForDone) {
									exit = "break"
								}
							}
							if exit == "" || !fc.reachableFromAvoiding(start, b, nil) {
								continue
							}
							construct := xord.next("selection loop exit (" + exit + ")")
							last := b.Nodes[len(b.Nodes)-1]
							switch {
							case len(selected) == 0 || fc.reachableFromAvoiding(start, b, selected):
								obs = append(obs, mkOb(c, "CARVE.handler-bind", u, construct, last, Violated, "the search over the bindings can end here for a binding whose specifier neither equals the condition name nor is `condition`: later bindings never get their turn", true))
							case len(carved) == 0 || fc.reachableFromAvoiding(start, b, carved):
								obs = append(obs, mkOb(c, "CARVE.handler-bind", u, construct, last, Violated, "the search over the bindings can end here at a catch-all binding that may not handle the host panic: a later binding that names the condition (internal-panic) never gets its turn", true))
							default:
								obs = append(obs, mkOb(c, "CARVE.handler-bind", u, construct, last, Proved, "the search ends here only for a binding that matches the condition (and respects the carve-out); every other binding is passed over", true))
							}
						}
					}
					for _, p := range pushes {
						construct := "dispatch PushCondition"
						if len(selected) == 0 || fc.reachableFromAvoiding(start, p.loc.B, selected) {
							obs = append(obs, mkOb(c, "CARVE.handler-bind", u, construct+": name match", p.call, Violated, "a handler can be dispatched although its specifier neither equals the condition name nor is `condition`", true))
						} else {
							obs = append(obs, mkOb(c, "CARVE.handler-bind", u, construct+": name match", p.call, Proved, "every path from the error edge to the dispatch passes an edge that entails (name equal or catch-all)", true))
						}
						if len(carved) == 0 || fc.reachableFromAvoiding(start, p.loc.B, carved) {
							obs = append(obs, mkOb(c, "CARVE.handler-bind", u, construct+": panic carve-out", p.call, Violated, "the catch-all `condition` binding can be dispatched for an error recovered from a host panic", true))
						} else {
							obs = append(obs, mkOb(c, "CARVE.handler-bind", u, construct+": panic carve-out", p.call, Proved, "every path from the error edge to the dispatch passes an edge that entails (name equal or not IsInternalPanic(err))", true))
						}
						pushedErr := false
						if len(p.push.Args) == 1 {
							if !p.viaCall {
								pushedErr = identObj(info, p.push.Args[0]) == errObj
							} else if po := boundParam(info, p.call, p.inUnit.Obj, errObj); po != nil {
								pushedErr = identObj(p.inUnit.Pkg.TypesInfo, p.push.Args[0]) == po
							}
						}
						if pushedErr {
							obs = append(obs, mkOb(c, "CARVE.handler-bind", u, construct+": pushed value", p.call, Proved, "the condition made available to rethrow is the error object itself", false))
						} else {
							obs = append(obs, mkOb(c, "CARVE.handler-bind", u, construct+": pushed value", p.call, Violated, "the value pushed for rethrow is not the error being handled", true))
						}
					}
				}
				if len(obs) == 0 {
					for _, es := range starts {
						if out := delegate(es.obj); len(out) > 0 {
							return out
						}
					}
					obs = append(obs, mkOb(c, "CARVE.handler-bind", u, "dispatch", fd, Undecided, "no error test leading to the dispatch found", false))
				}
				return obs
			}
			return analyze(root, nil, 0)
		}})

	register(&Rule{ID: "RETHROW.identity", Floor: 1,
		Doc: "builtinRethrow returns the CurrentCondition() result itself (same object: condition, data and stack unchanged), or an error when there is none",
		Run: func(c *Ctx) []Obligation {
			fn, fd, pkg := c.LookupFunc("lisp.builtinRethrow")
			cur := c.LookupMethod("lisp.Runtime.CurrentCondition")
			if fn == nil || cur == nil {
				return []Obligation{anchorMissing("RETHROW.identity", "builtinRethrow/CurrentCondition")}
			}
			u := FuncUnit{fn, fd, pkg}
			info := pkg.TypesInfo
			var obs []Obligation
			ord := &ordinal{}
			nident := 0
			ast.Inspect(fd.Body, func(n ast.Node) bool {
				rs, ok := n.(*ast.ReturnStmt)
				if !ok || len(rs.Results) != 1 {
					return true
				}
				construct := ord.next("return")
				if o := identObj(info, rs.Results[0]); o != nil {
					if dc, _, cnt := definingCall(info, fd.Body, o); dc != nil && cnt == 1 && originOf(Callee(info, dc)) == cur {
						nident++
						obs = append(obs, mkOb(c, "RETHROW.identity", u, construct, rs, Proved, "returns the CurrentCondition() object itself", true))
						return true
					}
				}
				if ce, ok := ast.Unparen(rs.Results[0]).(*ast.CallExpr); ok {
					if f := Callee(info, ce); f != nil && (f.Name() == "Errorf" || f.Name() == "Error" || f.Name() == "ErrorConditionf" || f.Name() == "ErrorCondition") {
						obs = append(obs, mkOb(c, "RETHROW.identity", u, construct, rs, Proved, "fresh error (rethrow outside a handler)", false))
						return true
					}
				}
				obs = append(obs, mkOb(c, "RETHROW.identity", u, construct, rs, Violated, "rethrow returns something other than the handled error object or a fresh error", true))
				return true
			})
			if nident == 0 {
				obs = append(obs, mkOb(c, "RETHROW.identity", u, "return condition", fd, Violated, "rethrow never returns the CurrentCondition() object", true))
			}
			return obs
		}})

	register(&Rule{ID: "PANICMARK.shape", Floor: 2,
		Doc: "IsInternalPanic requires a non-empty CallStack.GoStack (a name test alone is forgeable from lisp); eval's recover handler is the function that stores GoStack and it does so on the error it returns",
		Run: func(c *Ctx) []Obligation {
			fn, fd, pkg := c.LookupFunc("lisp.IsInternalPanic")
			gs := c.LookupField("lisp.CallStack.GoStack")
			if fn == nil || gs == nil {
				return []Obligation{anchorMissing("PANICMARK.shape", "IsInternalPanic/GoStack")}
			}
			u := FuncUnit{fn, fd, pkg}
			info := pkg.TypesInfo
			var obs []Obligation
			// every `return <expr>` that can be true must conjoin a GoStack length test
			ok := false
			nonConstReturns := 0
			ast.Inspect(fd.Body, func(n ast.Node) bool {
				rs, isRet := n.(*ast.ReturnStmt)
				if !isRet || len(rs.Results) != 1 {
					return true
				}
				if isBoolConst(info, rs.Results[0], false) {
					return true
				}
				nonConstReturns++
				reads := false
				ast.Inspect(rs.Results[0], func(m ast.Node) bool {
					if se, isSel := m.(*ast.SelectorExpr); isSel && FieldOfSelector(info, se) == gs {
						reads = true
					}
					return true
				})
				if reads {
					ok = true
				} else {
					ok = false
					nonConstReturns += 100
				}
				return true
			})
			if ok && nonConstReturns == 1 {
				obs = append(obs, mkOb(c, "PANICMARK.shape", u, "marker test", fd, Proved, "the only return that can be true tests CallStack.GoStack", true))
			} else {
				obs = append(obs, mkOb(c, "PANICMARK.shape", u, "marker test", fd, Violated, "IsInternalPanic can return true without a non-empty GoStack: a lisp-raised error named internal-panic would become unswallowable", true))
			}
			// the Runtime's live stack never carries a GoStack: the only stores are in eval's recover closure and detach copies (CENSUS.CallStack.GoStack)
			efn, efd, epkg := c.LookupFunc("lisp.(*LEnv).eval")
			if efn != nil {
				eu := FuncUnit{efn, efd, epkg}
				found := false
				direct := c.directlyDeferred(eu)
				for _, w := range c.censusFor(nil).WritersOf(gs) {
					if w.Lit == nil && direct[w.Unit.Obj] {
						// `defer env.leaveEval(&result)`: the handler is a declared method
						hasRecover := false
						for _, ce := range callsIn(w.Unit.Decl.Body, false) {
							if id, isId := ast.Unparen(ce.Fun).(*ast.Ident); isId && id.Name == "recover" {
								hasRecover = true
							}
						}
						if hasRecover {
							found = true
							obs = append(obs, mkOb(c, "PANICMARK.shape", eu, "GoStack store", w.Node, Proved, "stored in the recover handler eval defers", true))
						}
						continue
					}
					if w.Unit.Obj == efn && w.Lit != nil && isDeferredLit(efd, w.Lit) {
						// the closure must call recover()
						hasRecover := false
						for _, ce := range callsIn(w.Lit.Body, false) {
							if id, isId := ast.Unparen(ce.Fun).(*ast.Ident); isId && id.Name == "recover" {
								hasRecover = true
							}
						}
						if hasRecover {
							found = true
							obs = append(obs, mkOb(c, "PANICMARK.shape", eu, "GoStack store", w.Node, Proved, "stored in eval's deferred recover handler", true))
						}
					}
				}
				if !found {
					// ... or in a constructor of the internal-panic condition that the handler calls
					ast.Inspect(efd.Body, func(n ast.Node) bool {
						lit, isLit := n.(*ast.FuncLit)
						if !isLit || !isDeferredLit(efd, lit) {
							return true
						}
						hasRecover := false
						var via *ast.CallExpr
						for _, ce := range callsIn(lit.Body, false) {
							if id, isId := ast.Unparen(ce.Fun).(*ast.Ident); isId && id.Name == "recover" {
								hasRecover = true
							}
							if m, ok := c.panicWrapHelper(originOf(Callee(epkg.TypesInfo, ce))); ok && m {
								via = ce
							}
						}
						if hasRecover && via != nil && !found {
							found = true
							obs = append(obs, mkOb(c, "PANICMARK.shape", eu, "GoStack store", via, Proved, "stored by the internal-panic constructor that eval's deferred recover handler calls", true))
						}
						return true
					})
				}
				if !found {
					obs = append(obs, mkOb(c, "PANICMARK.shape", eu, "GoStack store", efd, Violated, "eval's deferred recover handler no longer marks recovered panics with GoStack", true))
				}
			}
			return obs
		}})
}

var _ = cfg.KindBody

// panicWrapHelper: fn is a function of the kernel every return of which hands
// back one local whose only definitions are ErrorConditionf(CondInternalPanic,
// ...) calls — a constructor of the internal-panic condition.  marks reports
// whether it also stores the GoStack marker.
func (c *Ctx) panicWrapHelper(fn *types.Func) (marks bool, ok bool) {
	fd := c.declOf[fn]
	if fn == nil || fd == nil || fd.Body == nil {
		return false, false
	}
	info := c.pkgOf[fd].TypesInfo
	condConst := c.Pkg("lisp").Types.Scope().Lookup("CondInternalPanic")
	gs := c.LookupField("lisp.CallStack.GoStack")
	if condConst == nil {
		return false, false
	}
	var res types.Object
	okRet, nret := true, 0
	ast.Inspect(fd.Body, func(n ast.Node) bool {
		if _, isLit := n.(*ast.FuncLit); isLit {
			return false
		}
		if rs, isRet := n.(*ast.ReturnStmt); isRet {
			nret++
			if len(rs.Results) != 1 {
				okRet = false
				return true
			}
			o := identObj(info, rs.Results[0])
			if o == nil || (res != nil && o != res) {
				okRet = false
			}
			res = o
		}
		return true
	})
	if !okRet || nret == 0 || res == nil {
		return false, false
	}
	ndef := 0
	ast.Inspect(fd.Body, func(n ast.Node) bool {
		as, isAs := n.(*ast.AssignStmt)
		if !isAs {
			return true
		}
		for i, l := range as.Lhs {
			if identObj(info, l) != res {
				continue
			}
			ndef++
			good := false
			if len(as.Lhs) == len(as.Rhs) {
				if ce, isCall := ast.Unparen(as.Rhs[i]).(*ast.CallExpr); isCall && len(ce.Args) >= 1 {
					if f := Callee(info, ce); f != nil && f.Name() == "ErrorConditionf" && identObj(info, ce.Args[0]) == condConst {
						good = true
					}
				}
			}
			if !good {
				okRet = false
			}
		}
		if len(as.Lhs) == 1 && gs != nil && FieldOfSelector(info, as.Lhs[0]) == gs {
			marks = true
		}
		return true
	})
	return marks, okRet && ndef > 0
}

// blocksWith returns the live blocks containing a node accepted by pred.
func (f *FCFG) blocksWith(pred func(n ast.Node) bool) map[*cfg.Block]bool {
	out := map[*cfg.Block]bool{}
	for _, b := range f.G.Blocks {
		if !f.Live(b) {
			continue
		}
		for _, n := range b.Nodes {
			if pred(n) {
				out[b] = true
			}
		}
	}
	return out
}

// exitReachableAvoiding: can control leave the function (reach a block without
// successors) from the entry without entering a block in `through` and without
// using an edge in cut?
func (f *FCFG) exitReachableAvoiding(through map[*cfg.Block]bool, cut []cfgEdge) bool {
	if len(f.G.Blocks) == 0 {
		return true
	}
	isCut := func(b *cfg.Block, k int) bool {
		for _, e := range cut {
			if e.B == b && e.K == k {
				return true
			}
		}
		return false
	}
	seen := map[*cfg.Block]bool{}
	var dfs func(b *cfg.Block) bool
	dfs = func(b *cfg.Block) bool {
		if through[b] {
			return false
		}
		seen[b] = true
		if len(b.Succs) == 0 {
			return true
		}
		for k, s := range b.Succs {
			if isCut(b, k) {
				continue
			}
			if !seen[s] && dfs(s) {
				return true
			}
		}
		return false
	}
	return dfs(f.G.Blocks[0])
}

func init() {
	register(&Rule{ID: "COND.stack-shape", Floor: 2,
		Doc: "PushCondition appends its argument to the condition stack on every path; PopCondition shrinks the stack on every path except the one where it is empty (push and deferred pop stay balanced for nested handlers)",
		Run: func(c *Ctx) []Obligation {
			fld := c.LookupField("lisp.Runtime.conditionStack")
			if fld == nil {
				return []Obligation{anchorMissing("COND.stack-shape", "Runtime.conditionStack")}
			}
			var obs []Obligation
			// push
			if fn, fd, pkg := c.LookupFunc("lisp.(*Runtime).PushCondition"); fn != nil {
				u := FuncUnit{fn, fd, pkg}
				info := pkg.TypesInfo
				fc := c.cfgOf(u, nil)
				param := argsParam(info, u, nil)
				if fd.Type.Params != nil && len(fd.Type.Params.List) == 1 && len(fd.Type.Params.List[0].Names) == 1 {
					param = info.Defs[fd.Type.Params.List[0].Names[0]]
				}
				stores := fc.blocksWith(func(n ast.Node) bool {
					as, ok := n.(*ast.AssignStmt)
					if !ok || len(as.Lhs) != 1 || len(as.Rhs) != 1 || FieldOfSelector(info, as.Lhs[0]) != fld {
						return false
					}
					ce, ok := ast.Unparen(as.Rhs[0]).(*ast.CallExpr)
					if !ok || len(ce.Args) != 2 {
						return false
					}
					id, ok := ast.Unparen(ce.Fun).(*ast.Ident)
					return ok && id.Name == "append" && FieldOfSelector(info, ce.Args[0]) == fld && identObj(info, ce.Args[1]) == param
				})
				if len(stores) > 0 && !fc.exitReachableAvoiding(stores, nil) {
					obs = append(obs, mkOb(c, "COND.stack-shape", u, "push on all paths", fd, Proved, "every path through PushCondition appends the argument", true))
				} else {
					obs = append(obs, mkOb(c, "COND.stack-shape", u, "push on all paths", fd, Violated, "a path through PushCondition does not push its argument, but opHandlerBind's deferred PopCondition always pops: an enclosing handler's condition is lost", true))
				}
			} else {
				obs = append(obs, anchorMissing("COND.stack-shape", "PushCondition"))
			}
			// pop
			if fn, fd, pkg := c.LookupFunc("lisp.(*Runtime).PopCondition"); fn != nil {
				u := FuncUnit{fn, fd, pkg}
				info := pkg.TypesInfo
				fc := c.cfgOf(u, nil)
				shrink := fc.blocksWith(func(n ast.Node) bool {
					as, ok := n.(*ast.AssignStmt)
					if !ok || len(as.Lhs) != 1 || len(as.Rhs) != 1 || FieldOfSelector(info, as.Lhs[0]) != fld {
						return false
					}
					se, ok := ast.Unparen(as.Rhs[0]).(*ast.SliceExpr)
					return ok && FieldOfSelector(info, se.X) == fld && se.High != nil
				})
				// len var
				isLenStack := func(e ast.Expr) bool {
					if ce, ok := ast.Unparen(e).(*ast.CallExpr); ok && len(ce.Args) == 1 {
						if id, ok := ast.Unparen(ce.Fun).(*ast.Ident); ok && id.Name == "len" && FieldOfSelector(info, ce.Args[0]) == fld {
							return true
						}
					}
					if o := identObj(info, e); o != nil {
						if dc, _, n := definingCall(info, fd.Body, o); dc != nil && n == 1 && len(dc.Args) == 1 {
							if id, ok := ast.Unparen(dc.Fun).(*ast.Ident); ok && id.Name == "len" && FieldOfSelector(info, dc.Args[0]) == fld {
								return true
							}
						}
					}
					return false
				}
				// lenTerm: e is len(stack)+off — the length itself, `len(stack) - 1`, or a local
				// defined once as either (`last := len(r.conditionStack) - 1`)
				var lenTerm func(e ast.Expr, depth int) (int, bool)
				lenTerm = func(e ast.Expr, depth int) (int, bool) {
					e = ast.Unparen(e)
					if isLenStack(e) {
						return 0, true
					}
					if be, ok := e.(*ast.BinaryExpr); ok && (be.Op == token.SUB || be.Op == token.ADD) {
						if off, ok := lenTerm(be.X, depth+1); ok {
							if k, okc := intConst(info, be.Y); okc {
								if be.Op == token.SUB {
									return off - k, true
								}
								return off + k, true
							}
						}
					}
					// an index helper of the same type: `top := r.topConditionIndex()` with
					// `func (r *Runtime) topConditionIndex() int { return len(r.conditionStack) - 1 }`
					if ce, ok := e.(*ast.CallExpr); ok && depth < 3 && len(ce.Args) == 0 {
						if h := originOf(Callee(info, ce)); h != nil {
							if hd := c.declOf[h]; hd != nil && hd.Body != nil && len(hd.Body.List) == 1 {
								if rs, ok := hd.Body.List[0].(*ast.ReturnStmt); ok && len(rs.Results) == 1 {
									hinfo := c.pkgOf[hd].TypesInfo
									var hterm func(x ast.Expr) (int, bool)
									hterm = func(x ast.Expr) (int, bool) {
										x = ast.Unparen(x)
										if lc, ok := x.(*ast.CallExpr); ok && len(lc.Args) == 1 {
											if id, ok := ast.Unparen(lc.Fun).(*ast.Ident); ok && id.Name == "len" && FieldOfSelector(hinfo, lc.Args[0]) == fld {
												return 0, true
											}
										}
										if be, ok := x.(*ast.BinaryExpr); ok && (be.Op == token.SUB || be.Op == token.ADD) {
											if off, ok := hterm(be.X); ok {
												if k, okc := intConst(hinfo, be.Y); okc {
													if be.Op == token.SUB {
														return off - k, true
													}
													return off + k, true
												}
											}
										}
										return 0, false
									}
									if off, ok := hterm(rs.Results[0]); ok {
										return off, true
									}
								}
							}
						}
					}
					// a tuple-returning helper: `err, depth := r.topCondition()` where the helper's k-th result
					// is, on every return, the stack's length (a local defined as len(stack), or the
					// constant 0 on the edge where that local is 0)
					if o := identObj(info, e); o != nil && depth < 3 {
						if dc, idx, ndef := definingCall(info, fd.Body, o); dc != nil && ndef == 1 && len(dc.Args) == 0 {
							if h := originOf(Callee(info, dc)); h != nil {
								if hd := c.declOf[h]; hd != nil && hd.Body != nil && h.Type().(*types.Signature).Results().Len() > 1 {
									hinfo := c.pkgOf[hd].TypesInfo
									hu := FuncUnit{h, hd, c.pkgOf[hd]}
									isLenExpr := func(x ast.Expr) bool {
										x = ast.Unparen(x)
										if lc, ok := x.(*ast.CallExpr); ok && len(lc.Args) == 1 {
											if id, ok := ast.Unparen(lc.Fun).(*ast.Ident); ok && id.Name == "len" && FieldOfSelector(hinfo, lc.Args[0]) == fld {
												return true
											}
										}
										return false
									}
									// locals (incl. named results) whose every assignment is len(stack)
									lenLocal := func(x ast.Expr) types.Object {
										lo := identObj(hinfo, x)
										if lo == nil {
											return nil
										}
										n, good := 0, 0
										ast.Inspect(hd.Body, func(m ast.Node) bool {
											if as, ok := m.(*ast.AssignStmt); ok && len(as.Lhs) == len(as.Rhs) {
												for i, l := range as.Lhs {
													if identObj(hinfo, l) == lo {
														n++
														if isLenExpr(as.Rhs[i]) {
															good++
														}
													}
												}
											}
											return true
										})
										if n > 0 && n == good {
											return lo
										}
										return nil
									}
									hfc := c.cfgOf(hu, nil)
									allLen, nret := true, 0
									for _, hb := range hfc.G.Blocks {
										if !hfc.Live(hb) {
											continue
										}
										for _, nd := range hb.Nodes {
											rs, ok := nd.(*ast.ReturnStmt)
											if !ok {
												continue
											}
											nret++
											if idx >= len(rs.Results) {
												allLen = false
												continue
											}
											r := rs.Results[idx]
											if isLenExpr(r) || lenLocal(r) != nil {
												continue
											}
											if k, isC := intConst(hinfo, r); isC && k == 0 {
												// returned where the length is known to be zero
												zero := hfc.edgesImplying(func(a LitAtom) bool {
													be, ok := ast.Unparen(a.E).(*ast.BinaryExpr)
													if !ok || (be.Op != token.EQL && be.Op != token.NEQ) {
														return false
													}
													kk, isK := intConst(hinfo, be.Y)
													if !isK || kk != 0 || !(isLenExpr(be.X) || lenLocal(be.X) != nil) {
														return false
													}
													return (be.Op == token.EQL) == a.Positive
												})
												if len(zero) > 0 && !hfc.reachableAvoiding(hb, zero) {
													continue
												}
											}
											allLen = false
										}
									}
									if allLen && nret > 0 {
										return 0, true
									}
								}
							}
						}
					}
					if o := identObj(info, e); o != nil && depth < 3 {
						var def ast.Expr
						n := 0
						ast.Inspect(fd.Body, func(m ast.Node) bool {
							if as, ok := m.(*ast.AssignStmt); ok && len(as.Lhs) == len(as.Rhs) {
								for i, l := range as.Lhs {
									if identObj(info, l) == o {
										n++
										def = as.Rhs[i]
									}
								}
							}
							return true
						})
						if n == 1 && def != nil {
							return lenTerm(def, depth+1)
						}
					}
					return 0, false
				}
				empty := fc.edgesImplying(func(a LitAtom) bool {
					be, ok := ast.Unparen(a.E).(*ast.BinaryExpr)
					if !ok {
						return false
					}
					var k int
					var okc bool
					op := be.Op
					if off, isT := lenTerm(be.X, 0); isT {
						k, okc = intConst(info, be.Y)
						k -= off // len + off OP k  ==  len OP k - off
					} else if off, isT := lenTerm(be.Y, 0); isT {
						k, okc = intConst(info, be.X)
						k -= off
						switch op {
						case token.LSS:
							op = token.GTR
						case token.GTR:
							op = token.LSS
						case token.LEQ:
							op = token.GEQ
						case token.GEQ:
							op = token.LEQ
						}
					} else {
						return false
					}
					if !okc {
						return false
					}
					// atom (with polarity) means len == 0
					switch {
					case op == token.EQL && k == 0:
						return a.Positive
					case op == token.NEQ && k == 0:
						return !a.Positive
					case op == token.LSS && k == 1, op == token.LEQ && k == 0:
						return a.Positive
					case op == token.GTR && k == 0, op == token.GEQ && k == 1:
						return !a.Positive
					}
					return false
				})
				if len(shrink) > 0 && !fc.exitReachableAvoiding(shrink, empty) {
					obs = append(obs, mkOb(c, "COND.stack-shape", u, "pop on all non-empty paths", fd, Proved, "every path through PopCondition shrinks the stack unless it is empty", true))
				} else {
					obs = append(obs, mkOb(c, "COND.stack-shape", u, "pop on all non-empty paths", fd, Violated, "a path through PopCondition leaves a non-empty condition stack unchanged: a condition stays pending after its handler returns", true))
				}
			} else {
				obs = append(obs, anchorMissing("COND.stack-shape", "PopCondition"))
			}
			return obs
		}})

	register(&Rule{ID: "PANICMARK.recover-wraps", Floor: 2,
		Doc: "in eval's deferred recover handler every path on which recover() returned non-nil assigns the named result from ErrorConditionf(CondInternalPanic, ...) (no other assignment to the result exists there): a recovered host panic always becomes the internal-panic condition and is then marked",
		Run: func(c *Ctx) []Obligation {
			fn, fd, pkg := c.LookupFunc("lisp.(*LEnv).eval")
			if fn == nil {
				return []Obligation{anchorMissing("PANICMARK.recover-wraps", "eval")}
			}
			u := FuncUnit{fn, fd, pkg}
			info := pkg.TypesInfo
			condConst := c.Pkg("lisp").Types.Scope().Lookup("CondInternalPanic")
			// named result
			var resObj types.Object
			if fd.Type.Results != nil && len(fd.Type.Results.List) == 1 && len(fd.Type.Results.List[0].Names) == 1 {
				resObj = info.Defs[fd.Type.Results.List[0].Names[0]]
			}
			// the handler: a deferred closure calling recover(), or a declared function deferred
			// directly (`defer env.leaveEval(&result)`) that calls recover() in its own body and
			// reaches eval's result through the pointer it is handed
			var lit ast.Node
			var litBody *ast.BlockStmt
			hu := u
			isRes := func(e ast.Expr) bool { return resObj != nil && identObj(info, e) == resObj }
			callsRecover := func(body ast.Node) bool {
				for _, ce := range callsIn(body, false) {
					if id, isId := ast.Unparen(ce.Fun).(*ast.Ident); isId && id.Name == "recover" {
						return true
					}
				}
				return false
			}
			ast.Inspect(fd.Body, func(n ast.Node) bool {
				d, ok := n.(*ast.DeferStmt)
				if !ok {
					return true
				}
				if l := deferredLit(d); l != nil {
					if callsRecover(l.Body) {
						lit, litBody = l, l.Body
					}
					return true
				}
				h := originOf(Callee(info, d.Call))
				hd := c.declOf[h]
				if h == nil || hd == nil || hd.Body == nil || !callsRecover(hd.Body) {
					return true
				}
				// the parameter bound to &result
				hunit := FuncUnit{h, hd, c.pkgOf[hd]}
				hinfo := hunit.Pkg.TypesInfo
				var ptrParam types.Object
				for i, a := range d.Call.Args {
					if ue, isU := ast.Unparen(a).(*ast.UnaryExpr); isU && ue.Op == token.AND && resObj != nil && identObj(info, ue.X) == resObj {
						if ps := paramObjs(hunit); i < len(ps) {
							ptrParam = ps[i]
						}
					}
				}
				if ptrParam == nil {
					return true
				}
				lit, litBody, hu = hd, hd.Body, hunit
				isRes = func(e ast.Expr) bool {
					st, isStar := ast.Unparen(e).(*ast.StarExpr)
					return isStar && identObj(hinfo, st.X) == ptrParam
				}
				return true
			})
			if lit == nil || condConst == nil {
				return []Obligation{mkOb(c, "PANICMARK.recover-wraps", u, "recover handler", fd, Violated, "eval has no deferred function calling recover()", true)}
			}
			if resObj == nil {
				return []Obligation{mkOb(c, "PANICMARK.recover-wraps", u, "named result", fd, Undecided, "eval has no named result", false)}
			}
			var fc *FCFG
			if fl, isLit := lit.(*ast.FuncLit); isLit {
				fc = c.cfgOf(u, fl)
			} else {
				fc = c.cfgOf(hu, nil)
				info = hu.Pkg.TypesInfo
			}
			// recovered variable
			var recObj types.Object
			ast.Inspect(litBody, func(n ast.Node) bool {
				if as, ok := n.(*ast.AssignStmt); ok && len(as.Lhs) == 1 && len(as.Rhs) == 1 {
					if ce, ok := ast.Unparen(as.Rhs[0]).(*ast.CallExpr); ok {
						if id, isId := ast.Unparen(ce.Fun).(*ast.Ident); isId && id.Name == "recover" {
							recObj = identObj(info, as.Lhs[0])
						}
					}
				}
				return true
			})
			if recObj == nil {
				return []Obligation{mkOb(c, "PANICMARK.recover-wraps", u, "recover value", lit, Undecided, "recover() result not bound", false)}
			}
			var obs []Obligation
			wrapHelpers := map[*types.Func]bool{}
			isWrap := func(n ast.Node) bool {
				as, ok := n.(*ast.AssignStmt)
				if !ok || len(as.Lhs) != 1 || len(as.Rhs) != 1 || !isRes(as.Lhs[0]) {
					return false
				}
				rhs := as.Rhs[0]
				if d := soleDef(info, litBody, rhs); d != nil {
					rhs = d // `lerr := ErrorConditionf(…); …; result = lerr`
				}
				ce, ok := ast.Unparen(rhs).(*ast.CallExpr)
				if !ok || len(ce.Args) < 1 {
					return false
				}
				f := Callee(info, ce)
				if f != nil && f.Name() == "ErrorConditionf" && identObj(info, ce.Args[0]) == condConst {
					return true
				}
				if _, isW := c.panicWrapHelper(originOf(f)); isW {
					wrapHelpers[originOf(f)] = true
					return true
				}
				return false
			}
			// all assignments to result in the closure are wraps
			other := 0
			ast.Inspect(litBody, func(n ast.Node) bool {
				if as, ok := n.(*ast.AssignStmt); ok {
					for _, l := range as.Lhs {
						if isRes(l) && !isWrap(as) {
							other++
						}
					}
				}
				return true
			})
			wraps := fc.blocksWith(isWrap)
			recEdges := fc.nilEdges(recObj, false)
			okAll := len(recEdges) > 0 && len(wraps) > 0 && other == 0
			for _, e := range recEdges {
				// from the recovered edge, exit must not be reachable without a wrap
				start := e.B.Succs[e.K]
				seen := map[*cfg.Block]bool{}
				var dfs func(b *cfg.Block) bool
				dfs = func(b *cfg.Block) bool {
					if wraps[b] {
						// nodes before the wrap in this block may return? (returns end blocks, so no)
						return false
					}
					seen[b] = true
					if len(b.Succs) == 0 {
						return true
					}
					for _, s := range b.Succs {
						if !seen[s] && dfs(s) {
							return true
						}
					}
					return false
				}
				if dfs(start) {
					okAll = false
				}
			}
			if okAll {
				obs = append(obs, mkOb(c, "PANICMARK.recover-wraps", u, "recovered => internal-panic", lit, Proved, "every path from `recover() != nil` to the end of the handler assigns result = ErrorConditionf(CondInternalPanic, ...)", true))
			} else {
				obs = append(obs, mkOb(c, "PANICMARK.recover-wraps", u, "recovered => internal-panic", lit, Violated, "a recovered host panic can leave eval as something other than the marked internal-panic condition (it would be swallowed by ignore-errors / matched by `condition`)", true))
			}
			// GoStack store: reachable on every path after the wrap except through nil checks of the stack
			gs := c.LookupField("lisp.CallStack.GoStack")
			gstores := fc.blocksWith(func(n ast.Node) bool {
				as, ok := n.(*ast.AssignStmt)
				return ok && len(as.Lhs) == 1 && FieldOfSelector(info, as.Lhs[0]) == gs
			})
			helperMarks := false
			for h := range wrapHelpers {
				if m, _ := c.panicWrapHelper(h); m {
					helperMarks = true
				}
			}
			if len(gstores) > 0 || helperMarks {
				obs = append(obs, mkOb(c, "PANICMARK.recover-wraps", u, "marker stored", lit, Proved, "the handler stores GoStack on the wrapped error's stack", false))
			} else {
				obs = append(obs, mkOb(c, "PANICMARK.recover-wraps", u, "marker stored", lit, Violated, "the recover handler does not store the GoStack marker", true))
			}
			return obs
		}})
}

// directlyDeferred: the declared functions u defers directly (`defer x.h(…)`), i.e. the
// ones that run as u's deferred handlers and may call recover() themselves.
func (c *Ctx) directlyDeferred(u FuncUnit) map[*types.Func]bool {
	out := map[*types.Func]bool{}
	if u.Decl == nil || u.Decl.Body == nil {
		return out
	}
	info := u.Pkg.TypesInfo
	ast.Inspect(u.Decl.Body, func(n ast.Node) bool {
		if _, isLit := n.(*ast.FuncLit); isLit {
			return false
		}
		if d, ok := n.(*ast.DeferStmt); ok {
			if h := originOf(Callee(info, d.Call)); h != nil && c.declOf[h] != nil {
				out[h] = true
			}
		}
		return true
	})
	return out
}

// innermostLoopAround: the innermost for/range statement of body that encloses n (nil if none;
// function literals are boundaries).
func innermostLoopAround(body *ast.BlockStmt, n ast.Node) ast.Stmt {
	var best ast.Stmt
	ast.Inspect(body, func(m ast.Node) bool {
		if m == nil {
			return false
		}
		if m.Pos() > n.Pos() || m.End() < n.End() {
			return false
		}
		switch x := m.(type) {
		case *ast.FuncLit:
			if x.Pos() <= n.Pos() && n.End() <= x.End() {
				best = nil
			}
		case *ast.RangeStmt:
			best = x
		case *ast.ForStmt:
			best = x
		}
		return true
	})
	return best
}
