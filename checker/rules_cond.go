package main

import (
	"go/ast"
	"go/constant"
	"go/token"
	"go/types"

	"golang.org/x/tools/go/cfg"
)

// E8.CARVEOUT and friends (C06).

func (c *Ctx) lerrorConst() (types.Object, *types.Var) {
	p := c.Pkg("lisp")
	if p == nil {
		return nil, nil
	}
	return p.Types.Scope().Lookup("LError"), c.LookupField("lisp.LVal.Type")
}

func init() {
	register(&Rule{ID: "CARVE.ignore-errors", Floor: 1,
		Doc: "in opIgnoreErrors every return that replaces an evaluation error by another value is reachable from the error edge only through the false edge of IsInternalPanic(err)",
		Run: func(c *Ctx) []Obligation {
			fn, fd, pkg := c.LookupFunc("lisp.opIgnoreErrors")
			isPanic := c.LookupPkgFunc("lisp.IsInternalPanic")
			lerr, typeFld := c.lerrorConst()
			if fn == nil || isPanic == nil || lerr == nil || typeFld == nil {
				return []Obligation{anchorMissing("CARVE.ignore-errors", "opIgnoreErrors/IsInternalPanic/LError")}
			}
			u := FuncUnit{fn, fd, pkg}
			info := pkg.TypesInfo
			fc := c.cfgOf(u, nil)
			var obs []Obligation
			ord := &ordinal{}
			nerr := 0
			for _, ee := range errorEdges(fc, typeFld, lerr) {
				errObj := ee.Obj
				nerr++
				cut := fc.edgesImplying(func(a LitAtom) bool {
					ce, ok := ast.Unparen(a.E).(*ast.CallExpr)
					return ok && !a.Positive && originOf(Callee(info, ce)) == isPanic && len(ce.Args) == 1 && identObj(info, ce.Args[0]) == errObj
				})
				start := ee.E.B.Succs[ee.E.K]
				for _, b := range fc.G.Blocks {
					if !fc.Live(b) {
						continue
					}
					for _, n := range b.Nodes {
						rs, isRet := n.(*ast.ReturnStmt)
						if !isRet || len(rs.Results) != 1 {
							continue
						}
						if identObj(info, rs.Results[0]) == errObj {
							continue // propagates the error itself
						}
						if !fc.reachableFromAvoiding(start, b, nil) {
							continue
						}
						construct := ord.next("swallowing return " + types.ExprString(rs.Results[0]))
						if len(cut) > 0 && !fc.reachableFromAvoiding(start, b, cut) {
							obs = append(obs, mkOb(c, "CARVE.ignore-errors", u, construct, rs, Proved, "reachable from the error edge only when IsInternalPanic(err) is false", true))
						} else {
							obs = append(obs, mkOb(c, "CARVE.ignore-errors", u, construct, rs, Violated, "an error recovered from a host panic can be swallowed: the return is reachable from the error edge without passing !IsInternalPanic(err)", true))
						}
					}
				}
			}
			if nerr == 0 {
				obs = append(obs, mkOb(c, "CARVE.ignore-errors", u, "error test", fd, Undecided, "no `val.Type == LError` test found", false))
			}
			return obs
		}})

	register(&Rule{ID: "CARVE.handler-bind", Floor: 2,
		Doc: "in opHandlerBind the handler dispatch (PushCondition) is reachable from the error edge only through `binding name == condition name` or (`binding name == \"condition\"` and not IsInternalPanic(err)); the pushed condition is the error itself",
		Run: func(c *Ctx) []Obligation {
			fn, fd, pkg := c.LookupFunc("lisp.opHandlerBind")
			isPanic := c.LookupPkgFunc("lisp.IsInternalPanic")
			push := c.LookupMethod("lisp.Runtime.PushCondition")
			strFld := c.LookupField("lisp.LVal.Str")
			lerr, typeFld := c.lerrorConst()
			if fn == nil || isPanic == nil || push == nil || strFld == nil || lerr == nil {
				return []Obligation{anchorMissing("CARVE.handler-bind", "opHandlerBind/IsInternalPanic/PushCondition")}
			}
			u := FuncUnit{fn, fd, pkg}
			info := pkg.TypesInfo
			fc := c.cfgOf(u, nil)
			var obs []Obligation
			pushes := fc.findCalls(push)
			if len(pushes) == 0 {
				return []Obligation{mkOb(c, "CARVE.handler-bind", u, "dispatch", fd, Undecided, "no PushCondition call: handler dispatch changed shape", false)}
			}
			for _, ee := range errorEdges(fc, typeFld, lerr) {
				errObj := ee.Obj
				start := ee.E.B.Succs[ee.E.K]
				reach := false
				for _, p := range pushes {
					if fc.reachableFromAvoiding(start, p.Loc.B, nil) {
						reach = true
					}
				}
				if !reach {
					continue
				}
				isStrOf := func(e ast.Expr, o types.Object) bool {
					se, ok := ast.Unparen(e).(*ast.SelectorExpr)
					return ok && FieldOfSelector(info, se) == strFld && identObj(info, se.X) == o
				}
				isAnyStr := func(e ast.Expr) (types.Object, bool) {
					se, ok := ast.Unparen(e).(*ast.SelectorExpr)
					if !ok || FieldOfSelector(info, se) != strFld {
						return nil, false
					}
					return identObj(info, se.X), true
				}
				cls := func(e ast.Expr) (string, bool) {
					if ce, ok := ast.Unparen(e).(*ast.CallExpr); ok && originOf(Callee(info, ce)) == isPanic && len(ce.Args) == 1 && identObj(info, ce.Args[0]) == errObj {
						return "isPanic", false
					}
					be, ok := ast.Unparen(e).(*ast.BinaryExpr)
					if !ok || (be.Op != token.EQL && be.Op != token.NEQ) {
						return "", false
					}
					neg := be.Op == token.NEQ
					if isStrOf(be.X, errObj) || isStrOf(be.Y, errObj) {
						other := be.Y
						if isStrOf(be.Y, errObj) {
							other = be.X
						}
						if o, ok := isAnyStr(other); ok && o != errObj {
							return "nameEq", neg
						}
						return "", false
					}
					for _, pair := range [][2]ast.Expr{{be.X, be.Y}, {be.Y, be.X}} {
						if _, ok := isAnyStr(pair[0]); ok {
							if tv, ok := info.Types[pair[1]]; ok && tv.Value != nil && tv.Value.Kind() == constant.String && constant.StringVal(tv.Value) == "condition" {
								return "catchAll", neg
							}
						}
					}
					return "", false
				}
				selected := fc.edgesEntailing(cls, func(v map[string]bool) bool { return v["nameEq"] || v["catchAll"] })
				carved := fc.edgesEntailing(cls, func(v map[string]bool) bool { return v["nameEq"] || !v["isPanic"] })
				for _, p := range pushes {
					construct := "dispatch PushCondition"
					if len(selected) == 0 || fc.reachableFromAvoiding(start, p.Loc.B, selected) {
						obs = append(obs, mkOb(c, "CARVE.handler-bind", u, construct+": name match", p.Call, Violated, "a handler can be dispatched although its specifier neither equals the condition name nor is `condition`", true))
					} else {
						obs = append(obs, mkOb(c, "CARVE.handler-bind", u, construct+": name match", p.Call, Proved, "every path from the error edge to the dispatch passes an edge that entails (name equal or catch-all)", true))
					}
					if len(carved) == 0 || fc.reachableFromAvoiding(start, p.Loc.B, carved) {
						obs = append(obs, mkOb(c, "CARVE.handler-bind", u, construct+": panic carve-out", p.Call, Violated, "the catch-all `condition` binding can be dispatched for an error recovered from a host panic", true))
					} else {
						obs = append(obs, mkOb(c, "CARVE.handler-bind", u, construct+": panic carve-out", p.Call, Proved, "every path from the error edge to the dispatch passes an edge that entails (name equal or not IsInternalPanic(err))", true))
					}
					if len(p.Call.Args) == 1 && identObj(info, p.Call.Args[0]) == errObj {
						obs = append(obs, mkOb(c, "CARVE.handler-bind", u, construct+": pushed value", p.Call, Proved, "the condition made available to rethrow is the error object itself", false))
					} else {
						obs = append(obs, mkOb(c, "CARVE.handler-bind", u, construct+": pushed value", p.Call, Violated, "the value pushed for rethrow is not the error being handled", true))
					}
				}
			}
			if len(obs) == 0 {
				obs = append(obs, mkOb(c, "CARVE.handler-bind", u, "dispatch", fd, Undecided, "no error test leading to the dispatch found", false))
			}
			return obs
		}})

	register(&Rule{ID: "RETHROW.identity", Floor: 1,
		Doc: "builtinRethrow returns the CurrentCondition() result itself (same object: condition, data and stack unchanged), or an error when there is none",
		Run: func(c *Ctx) []Obligation {
			fn, fd, pkg := c.LookupFunc("lisp.builtinRethrow")
			cur := c.LookupMethod("lisp.Runtime.CurrentCondition")
			if fn == nil || cur == nil {
				return []Obligation{anchorMissing("RETHROW.identity", "builtinRethrow/CurrentCondition")}
			}
			u := FuncUnit{fn, fd, pkg}
			info := pkg.TypesInfo
			var obs []Obligation
			ord := &ordinal{}
			nident := 0
			ast.Inspect(fd.Body, func(n ast.Node) bool {
				rs, ok := n.(*ast.ReturnStmt)
				if !ok || len(rs.Results) != 1 {
					return true
				}
				construct := ord.next("return")
				if o := identObj(info, rs.Results[0]); o != nil {
					if dc, _, cnt := definingCall(info, fd.Body, o); dc != nil && cnt == 1 && originOf(Callee(info, dc)) == cur {
						nident++
						obs = append(obs, mkOb(c, "RETHROW.identity", u, construct, rs, Proved, "returns the CurrentCondition() object itself", true))
						return true
					}
				}
				if ce, ok := ast.Unparen(rs.Results[0]).(*ast.CallExpr); ok {
					if f := Callee(info, ce); f != nil && (f.Name() == "Errorf" || f.Name() == "Error" || f.Name() == "ErrorConditionf" || f.Name() == "ErrorCondition") {
						obs = append(obs, mkOb(c, "RETHROW.identity", u, construct, rs, Proved, "fresh error (rethrow outside a handler)", false))
						return true
					}
				}
				obs = append(obs, mkOb(c, "RETHROW.identity", u, construct, rs, Violated, "rethrow returns something other than the handled error object or a fresh error", true))
				return true
			})
			if nident == 0 {
				obs = append(obs, mkOb(c, "RETHROW.identity", u, "return condition", fd, Violated, "rethrow never returns the CurrentCondition() object", true))
			}
			return obs
		}})

	register(&Rule{ID: "PANICMARK.shape", Floor: 2,
		Doc: "IsInternalPanic requires a non-empty CallStack.GoStack (a name test alone is forgeable from lisp); eval's recover handler is the function that stores GoStack and it does so on the error it returns",
		Run: func(c *Ctx) []Obligation {
			fn, fd, pkg := c.LookupFunc("lisp.IsInternalPanic")
			gs := c.LookupField("lisp.CallStack.GoStack")
			if fn == nil || gs == nil {
				return []Obligation{anchorMissing("PANICMARK.shape", "IsInternalPanic/GoStack")}
			}
			u := FuncUnit{fn, fd, pkg}
			info := pkg.TypesInfo
			var obs []Obligation
			// every `return <expr>` that can be true must conjoin a GoStack length test
			ok := false
			nonConstReturns := 0
			ast.Inspect(fd.Body, func(n ast.Node) bool {
				rs, isRet := n.(*ast.ReturnStmt)
				if !isRet || len(rs.Results) != 1 {
					return true
				}
				if isBoolConst(info, rs.Results[0], false) {
					return true
				}
				nonConstReturns++
				reads := false
				ast.Inspect(rs.Results[0], func(m ast.Node) bool {
					if se, isSel := m.(*ast.SelectorExpr); isSel && FieldOfSelector(info, se) == gs {
						reads = true
					}
					return true
				})
				if reads {
					ok = true
				} else {
					ok = false
					nonConstReturns += 100
				}
				return true
			})
			if ok && nonConstReturns == 1 {
				obs = append(obs, mkOb(c, "PANICMARK.shape", u, "marker test", fd, Proved, "the only return that can be true tests CallStack.GoStack", true))
			} else {
				obs = append(obs, mkOb(c, "PANICMARK.shape", u, "marker test", fd, Violated, "IsInternalPanic can return true without a non-empty GoStack: a lisp-raised error named internal-panic would become unswallowable", true))
			}
			// the Runtime's live stack never carries a GoStack: the only stores are in eval's recover closure and detach copies (CENSUS.CallStack.GoStack)
			efn, efd, epkg := c.LookupFunc("lisp.(*LEnv).eval")
			if efn != nil {
				eu := FuncUnit{efn, efd, epkg}
				found := false
				for _, w := range c.censusFor(nil).WritersOf(gs) {
					if w.Unit.Obj == efn && w.Lit != nil && isDeferredLit(efd, w.Lit) {
						// the closure must call recover()
						hasRecover := false
						for _, ce := range callsIn(w.Lit.Body, false) {
							if id, isId := ast.Unparen(ce.Fun).(*ast.Ident); isId && id.Name == "recover" {
								hasRecover = true
							}
						}
						if hasRecover {
							found = true
							obs = append(obs, mkOb(c, "PANICMARK.shape", eu, "GoStack store", w.Node, Proved, "stored in eval's deferred recover handler", true))
						}
					}
				}
				if !found {
					obs = append(obs, mkOb(c, "PANICMARK.shape", eu, "GoStack store", efd, Violated, "eval's deferred recover handler no longer marks recovered panics with GoStack", true))
				}
			}
			return obs
		}})
}

var _ = cfg.KindBody
