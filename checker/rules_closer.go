package main

import (
	"golang.org/x/tools/go/cfg"
	"go/ast"
	"go/types"
)

// PAIR.closer-used — C05 ("the runtime is left clean after every top-level
// evaluation": entry-point depth balanced) and C04: the bookkeeping of an entry
// point is written `defer env.Runtime.beginEval()()` — beginEval runs NOW and
// hands back the function that undoes it, and that function is what is
// deferred.  `defer env.Runtime.beginEval()` (one pair of parentheses short)
// type-checks, vets clean, and does the opposite: nothing on entry, the
// increment on exit, and the undo function is thrown away.
func init() {
	register(&Rule{ID: "PAIR.closer-used", Floor: 5,
		Doc: "wherever a function of the module whose only result is its own undo function (`func()`, e.g. Runtime.beginEval) is called, the call is not itself the operand of defer / go and not a statement on its own: the returned function is invoked, deferred, stored, returned or passed on — so the action happens at the call and its undo function is not dropped",
		Run: func(c *Ctx) []Obligation {
			const rid = "PAIR.closer-used"
			isCloserFn := func(f *types.Func) bool {
				if f == nil || f.Pkg() == nil || !hasPrefix(f.Pkg().Path(), modPath) {
					return false
				}
				sig, ok := f.Type().(*types.Signature)
				if !ok || sig.Results().Len() != 1 {
					return false
				}
				rs, ok := sig.Results().At(0).Type().Underlying().(*types.Signature)
				return ok && rs.Params().Len() == 0 && rs.Results().Len() == 0
			}
			var obs []Obligation
			for _, u := range c.Funcs(nil) {
				if u.Decl == nil || u.Decl.Body == nil {
					continue
				}
				info := u.Pkg.TypesInfo
				ord := &ordinal{}
				bad := map[*ast.CallExpr]string{}
				ast.Inspect(u.Decl.Body, func(n ast.Node) bool {
					switch x := n.(type) {
					case *ast.DeferStmt:
						if isCloserFn(originOf(Callee(info, x.Call))) {
							bad[x.Call] = "the call itself is deferred: the action runs when the function returns and the undo function it hands back is discarded (a `()` is missing: `defer f()()`)"
						}
					case *ast.GoStmt:
						if isCloserFn(originOf(Callee(info, x.Call))) {
							bad[x.Call] = "the call is started as a goroutine: its undo function is discarded"
						}
					case *ast.ExprStmt:
						if ce, ok := ast.Unparen(x.X).(*ast.CallExpr); ok && isCloserFn(originOf(Callee(info, ce))) {
							bad[ce] = "the undo function returned by the call is discarded: the action is never undone"
						}
					case *ast.AssignStmt:
						if len(x.Lhs) == 1 && len(x.Rhs) == 1 {
							if id, ok := x.Lhs[0].(*ast.Ident); ok && id.Name == "_" {
								if ce, ok := ast.Unparen(x.Rhs[0]).(*ast.CallExpr); ok && isCloserFn(originOf(Callee(info, ce))) {
									bad[ce] = "the undo function returned by the call is assigned to _: the action is never undone"
								}
							}
						}
					}
					return true
				})
				// `undo := f()` … `undo()`: an undo function kept in a local and called by hand must be called on
				// EVERY path that leaves the function — an early `return` between the two (the first failing
				// form of a loader) otherwise skips it, and what f did is never undone
				ast.Inspect(u.Decl.Body, func(n ast.Node) bool {
					as, ok := n.(*ast.AssignStmt)
					if !ok || len(as.Lhs) != 1 || len(as.Rhs) != 1 {
						return true
					}
					ce, ok := ast.Unparen(as.Rhs[0]).(*ast.CallExpr)
					if !ok || !isCloserFn(originOf(Callee(info, ce))) {
						return true
					}
					x := identObj(info, as.Lhs[0])
					if x == nil {
						return true
					}
					bu := innermostBody(u.Decl, as)
					deferred, escapes := false, false
					ast.Inspect(bu.Body, func(m ast.Node) bool {
						switch y := m.(type) {
						case *ast.DeferStmt:
							if identObj(info, y.Call.Fun) == x {
								deferred = true
							}
							if l := deferredLit(y); l != nil {
								for _, c2 := range callsIn(l.Body, false) {
									if identObj(info, c2.Fun) == x {
										deferred = true
									}
								}
							}
						case *ast.CallExpr:
							for _, a := range y.Args {
								if identObj(info, a) == x {
									escapes = true
								}
							}
						case *ast.ReturnStmt:
							for _, r := range y.Results {
								if identObj(info, r) == x {
									escapes = true
								}
							}
						case *ast.AssignStmt:
							for _, r := range y.Rhs {
								if identObj(info, r) == x {
									escapes = true
								}
							}
						case *ast.KeyValueExpr:
							if identObj(info, y.Value) == x {
								escapes = true
							}
						}
						return true
					})
					if deferred || escapes {
						return true
					}
					fc := c.cfgOf(u, bu.Lit)
					loc, ok := fc.Locate(as)
					if !ok {
						return true
					}
					callsX := func(m ast.Node) bool {
						for _, c2 := range callsIn(m, false) {
							if identObj(info, c2.Fun) == x {
								return true
							}
						}
						return false
					}
					for _, m := range loc.B.Nodes[loc.I+1:] {
						if callsX(m) {
							return true
						}
					}
					through := fc.blocksWith(callsX)
					seen := map[*cfg.Block]bool{}
					var leak func(b *cfg.Block) bool
					leak = func(b *cfg.Block) bool {
						if through[b] || seen[b] {
							return false
						}
						seen[b] = true
						if len(b.Succs) == 0 {
							return true
						}
						for _, sx := range b.Succs {
							if leak(sx) {
								return true
							}
						}
						return false
					}
					leaks := len(loc.B.Succs) == 0
					for _, sx := range loc.B.Succs {
						if leak(sx) {
							leaks = true
						}
					}
					if leaks {
						bad[ce] = "the undo function is kept in `" + x.Name() + "` and called by hand, but a path leaves the function without calling it (an early return between the two): what the call did — the evaluation depth it entered — is never undone on that path; use `defer " + x.Name() + "()`"
					}
					return true
				})
				for _, ce := range callsIn(u.Decl.Body, true) {
					f := originOf(Callee(info, ce))
					if !isCloserFn(f) {
						continue
					}
					construct := ord.next("call " + shortName(f))
					if why, isBad := bad[ce]; isBad {
						obs = append(obs, mkOb(c, rid, u, construct, ce, Violated, why, true))
					} else {
						obs = append(obs, mkOb(c, rid, u, construct, ce, Proved, "the returned undo function is used", false))
					}
				}
			}
			return obs
		}})
}
