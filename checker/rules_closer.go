package main

import (
	"go/ast"
	"go/types"
)

// PAIR.closer-used — C05 ("the runtime is left clean after every top-level
// evaluation": entry-point depth balanced) and C04: the bookkeeping of an entry
// point is written `defer env.Runtime.beginEval()()` — beginEval runs NOW and
// hands back the function that undoes it, and that function is what is
// deferred.  `defer env.Runtime.beginEval()` (one pair of parentheses short)
// type-checks, vets clean, and does the opposite: nothing on entry, the
// increment on exit, and the undo function is thrown away.
func init() {
	register(&Rule{ID: "PAIR.closer-used", Floor: 5,
		Doc: "wherever a function of the module whose only result is its own undo function (`func()`, e.g. Runtime.beginEval) is called, the call is not itself the operand of defer / go and not a statement on its own: the returned function is invoked, deferred, stored, returned or passed on — so the action happens at the call and its undo function is not dropped",
		Run: func(c *Ctx) []Obligation {
			const rid = "PAIR.closer-used"
			isCloserFn := func(f *types.Func) bool {
				if f == nil || f.Pkg() == nil || !hasPrefix(f.Pkg().Path(), modPath) {
					return false
				}
				sig, ok := f.Type().(*types.Signature)
				if !ok || sig.Results().Len() != 1 {
					return false
				}
				rs, ok := sig.Results().At(0).Type().Underlying().(*types.Signature)
				return ok && rs.Params().Len() == 0 && rs.Results().Len() == 0
			}
			var obs []Obligation
			for _, u := range c.Funcs(nil) {
				if u.Decl == nil || u.Decl.Body == nil {
					continue
				}
				info := u.Pkg.TypesInfo
				ord := &ordinal{}
				bad := map[*ast.CallExpr]string{}
				ast.Inspect(u.Decl.Body, func(n ast.Node) bool {
					switch x := n.(type) {
					case *ast.DeferStmt:
						if isCloserFn(originOf(Callee(info, x.Call))) {
							bad[x.Call] = "the call itself is deferred: the action runs when the function returns and the undo function it hands back is discarded (a `()` is missing: `defer f()()`)"
						}
					case *ast.GoStmt:
						if isCloserFn(originOf(Callee(info, x.Call))) {
							bad[x.Call] = "the call is started as a goroutine: its undo function is discarded"
						}
					case *ast.ExprStmt:
						if ce, ok := ast.Unparen(x.X).(*ast.CallExpr); ok && isCloserFn(originOf(Callee(info, ce))) {
							bad[ce] = "the undo function returned by the call is discarded: the action is never undone"
						}
					case *ast.AssignStmt:
						if len(x.Lhs) == 1 && len(x.Rhs) == 1 {
							if id, ok := x.Lhs[0].(*ast.Ident); ok && id.Name == "_" {
								if ce, ok := ast.Unparen(x.Rhs[0]).(*ast.CallExpr); ok && isCloserFn(originOf(Callee(info, ce))) {
									bad[ce] = "the undo function returned by the call is assigned to _: the action is never undone"
								}
							}
						}
					}
					return true
				})
				for _, ce := range callsIn(u.Decl.Body, true) {
					f := originOf(Callee(info, ce))
					if !isCloserFn(f) {
						continue
					}
					construct := ord.next("call " + shortName(f))
					if why, isBad := bad[ce]; isBad {
						obs = append(obs, mkOb(c, rid, u, construct, ce, Violated, why, true))
					} else {
						obs = append(obs, mkOb(c, rid, u, construct, ce, Proved, "the returned undo function is used", false))
					}
				}
			}
			return obs
		}})
}
