package main

import (
	"strings"
	"go/ast"
	"go/types"

	"golang.org/x/tools/go/cfg"
)

// LOC.walk-errors-from-caller — C18 ("the error's location is the position of
// the form whose evaluation raised it"): an error takes its location from the
// environment that creates it (Errorf, ErrorAssociate copy env.loc).  Several
// methods of LEnv walk up the scope chain by reassigning their receiver
// (`env = env.parent`); once that has happened the variable is an ANCESTOR
// environment — the root, at the end of the walk — whose current location is
// whatever top-level form (or argument of one) is being evaluated, not the
// form that asked.  An error created through it points there: (set! zz 1)
// inside a function was reported at the top-level call of that function.
func init() {
	register(&Rule{ID: "LOC.walk-errors-from-caller", Floor: 1,
		Doc: "in every method of LEnv that reassigns its receiver while walking the scope chain (`env = env.parent`), no error-creating method (Errorf, Error, ErrorCondition, ErrorConditionf, ErrorAssociate) is called on the receiver variable at a point the reassignment can reach: errors are created by the environment the operation was asked of (a copy of the receiver taken before the walk), so they carry the position of the form being evaluated there",
		Run: func(c *Ctx) []Obligation {
			const rid = "LOC.walk-errors-from-caller"
			creators := map[*types.Func]bool{}
			for _, n := range []string{"Errorf", "Error", "ErrorCondition", "ErrorConditionf", "ErrorAssociate"} {
				if m := c.LookupMethod("lisp.LEnv." + n); m != nil {
					creators[m] = true
				}
			}
			// ... and every method of LEnv that calls one of them on ITS OWN receiver creates the error
			// through whatever environment it is called on (packageGet -> ErrorAssociate)
			for changed := true; changed; {
				changed = false
				for _, u := range c.Funcs(func(p string) bool { return rel(p) == "lisp" }) {
					if u.Decl == nil || u.Decl.Body == nil || u.Decl.Recv == nil || len(u.Decl.Recv.List) != 1 || len(u.Decl.Recv.List[0].Names) != 1 || creators[u.Obj] {
						continue
					}
					if !strings.HasSuffix(u.Obj.Type().(*types.Signature).Recv().Type().String(), "lisp.LEnv") {
						continue
					}
					ui := u.Pkg.TypesInfo
					r := ui.Defs[u.Decl.Recv.List[0].Names[0]]
					reassigned := false
					ast.Inspect(u.Decl.Body, func(n ast.Node) bool {
						if as, ok := n.(*ast.AssignStmt); ok {
							for _, l := range as.Lhs {
								if identObj(ui, l) == r {
									reassigned = true
								}
							}
						}
						return true
					})
					if reassigned {
						continue // a walker itself: judged below, not a creator for others
					}
					for _, ce := range callsIn(u.Decl.Body, false) {
						if se, ok := ast.Unparen(ce.Fun).(*ast.SelectorExpr); ok && identObj(ui, se.X) == r && creators[originOf(Callee(ui, ce))] {
							creators[u.Obj] = true
							changed = true
						}
					}
				}
			}
			parentF := c.LookupField("lisp.LEnv.parent")
			if len(creators) == 0 || parentF == nil {
				return []Obligation{anchorMissing(rid, "LEnv.Errorf / LEnv.parent")}
			}
			var obs []Obligation
			nwalk := 0
			for _, u := range c.Funcs(func(p string) bool { return rel(p) == "lisp" }) {
				if u.Decl == nil || u.Decl.Body == nil || u.Decl.Recv == nil || len(u.Decl.Recv.List) != 1 || len(u.Decl.Recv.List[0].Names) != 1 {
					continue
				}
				info := u.Pkg.TypesInfo
				recv := info.Defs[u.Decl.Recv.List[0].Names[0]]
				if recv == nil {
					continue
				}
				fc := c.cfgOf(u, nil)
				// blocks that reassign the receiver to an ancestor
				var reassign []Loc
				for _, b := range fc.G.Blocks {
					if !fc.Live(b) {
						continue
					}
					for i, n := range b.Nodes {
						as, ok := n.(*ast.AssignStmt)
						if !ok || len(as.Lhs) != len(as.Rhs) {
							continue
						}
						for k, l := range as.Lhs {
							if identObj(info, l) == recv && FieldOfSelector(info, as.Rhs[k]) == parentF {
								reassign = append(reassign, Loc{b, i})
							}
						}
					}
				}
				if len(reassign) == 0 {
					continue
				}
				nwalk++
				ord := &ordinal{}
				found := 0
				for _, b := range fc.G.Blocks {
					if !fc.Live(b) {
						continue
					}
					for i, n := range b.Nodes {
						for _, ce := range callsIn(n, false) {
							f := originOf(Callee(info, ce))
							se, ok := ast.Unparen(ce.Fun).(*ast.SelectorExpr)
							if f == nil || !creators[f] || !ok || identObj(info, se.X) != recv {
								continue
							}
							found++
							construct := ord.next("error created by the walking receiver (" + shortName(f) + ")")
							reach := false
							for _, r := range reassign {
								if (r.B == b && r.I < i) || fc.reachableFromAvoiding(r.B, b, nil) {
									// same block after it, or the block is reachable from the reassignment
									if r.B != b || r.I < i || fc.blockOnCycle(b) {
										reach = true
									}
								}
							}
							if reach {
								obs = append(obs, mkOb(c, rid, u, construct, ce, Violated, "this error is created by the receiver variable after it may have been reassigned to a parent environment: it carries that ancestor's current location (the top-level form being evaluated, for the root) instead of the position of the form that asked — (defun k () (set! zz 1)) (k) was reported at the call (k)", true))
							} else {
								obs = append(obs, mkOb(c, rid, u, construct, ce, Proved, "not reachable from the reassignment of the receiver", true))
							}
						}
					}
				}
				if found == 0 {
					obs = append(obs, mkOb(c, rid, u, "scope walk", u.Decl, Proved, "walks the scope chain by reassigning its receiver and creates no error through it", false))
				}
			}
			if nwalk == 0 {
				return []Obligation{{Rule: rid, Func: "lisp", Construct: "scope walks", Verdict: Undecided, Detail: "no method of LEnv reassigns its receiver to its parent any more: the recogniser matches nothing", Nontrivial: true}}
			}
			return obs
		}})
}

// blockOnCycle: b lies on a cycle of the flow graph.
func (f *FCFG) blockOnCycle(b *cfg.Block) bool {
	for _, comp := range f.cyclicSCCs(nil) {
		for _, x := range comp {
			if x == b {
				return true
			}
		}
	}
	return false
}
