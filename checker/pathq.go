package main

import (
	"go/constant"
	"go/ast"
	"go/token"
	"go/types"
	"strings"

	"golang.org/x/tools/go/cfg"
)

// Path queries used by the must-pass-through rules (E8).

type cfgEdge struct {
	B *cfg.Block
	K int
}

// reachableAvoiding: is target reachable from the entry block when the given
// edges are deleted?
func (f *FCFG) reachableAvoiding(target *cfg.Block, cut []cfgEdge) bool {
	if len(f.G.Blocks) == 0 {
		return false
	}
	isCut := func(b *cfg.Block, k int) bool {
		for _, e := range cut {
			if e.B == b && e.K == k {
				return true
			}
		}
		return false
	}
	seen := map[*cfg.Block]bool{}
	var dfs func(x *cfg.Block) bool
	dfs = func(x *cfg.Block) bool {
		if x == target {
			return true
		}
		seen[x] = true
		for i, s := range x.Succs {
			if isCut(x, i) {
				continue
			}
			if !seen[s] && dfs(s) {
				return true
			}
		}
		return false
	}
	return dfs(f.G.Blocks[0])
}

// condBlocks returns the live blocks that end in a condition accepted by pred.
func (f *FCFG) condBlocks(pred func(e ast.Expr) bool) []*cfg.Block {
	var out []*cfg.Block
	for _, b := range f.G.Blocks {
		if !f.Live(b) {
			continue
		}
		if c := f.CondOf(b); c != nil && pred(c) {
			out = append(out, b)
		}
	}
	return out
}

// definingCall finds the unique assignment `..., v, ... := call(...)` (or =)
// that defines obj inside body and returns the call and the result index.
func definingCall(info *types.Info, body ast.Node, obj types.Object) (*ast.CallExpr, int, int) {
	var call *ast.CallExpr
	idx := -1
	n := 0
	ast.Inspect(body, func(m ast.Node) bool {
		as, ok := m.(*ast.AssignStmt)
		if !ok {
			return true
		}
		for i, l := range as.Lhs {
			id, ok := l.(*ast.Ident)
			if !ok {
				continue
			}
			o := info.Defs[id]
			if o == nil {
				o = info.Uses[id]
			}
			if o != obj {
				continue
			}
			n++
			if len(as.Rhs) == 1 {
				if ce, ok := ast.Unparen(as.Rhs[0]).(*ast.CallExpr); ok {
					call, idx = ce, i
				}
			} else if len(as.Rhs) == len(as.Lhs) {
				if ce, ok := ast.Unparen(as.Rhs[i]).(*ast.CallExpr); ok {
					call, idx = ce, 0
				}
			}
		}
		return true
	})
	return call, idx, n
}

// identObj returns the object an identifier expression denotes.
func identObj(info *types.Info, e ast.Expr) types.Object {
	id, ok := ast.Unparen(e).(*ast.Ident)
	if !ok {
		return nil
	}
	if o := info.Uses[id]; o != nil {
		return o
	}
	return info.Defs[id]
}

// orderedCompare recognises `a OP b` with OP in {<,<=,>,>=} between two
// objects; it reports whether the TRUE edge means a > b (strictly or not).
// ok=false if the condition is not such a comparison of exactly these objects.
func orderedCompare(info *types.Info, e ast.Expr, a, b types.Object) (trueMeansAGreater bool, strict bool, ok bool) {
	be, isBin := ast.Unparen(e).(*ast.BinaryExpr)
	if !isBin {
		return
	}
	x, y := identObj(info, be.X), identObj(info, be.Y)
	var flip bool
	switch {
	case x == a && y == b:
	case x == b && y == a:
		flip = true
	default:
		return
	}
	switch be.Op {
	case token.GTR:
		trueMeansAGreater, strict = true, true
	case token.GEQ:
		trueMeansAGreater, strict = true, false
	case token.LSS:
		trueMeansAGreater, strict = false, true
	case token.LEQ:
		trueMeansAGreater, strict = false, false
	default:
		return
	}
	if flip {
		trueMeansAGreater = !trueMeansAGreater
	}
	ok = true
	return
}

// edgeLeadsToReturnWithout: starting on edge (b,k), every path reaches a
// return statement before reaching a node for which avoid returns true.
func (f *FCFG) edgeAvoids(b *cfg.Block, k int, avoid func(n ast.Node) bool) bool {
	if k >= len(b.Succs) {
		return false
	}
	start := b.Succs[k]
	seen := map[*cfg.Block]bool{}
	var dfs func(x *cfg.Block) bool
	dfs = func(x *cfg.Block) bool {
		seen[x] = true
		for _, n := range x.Nodes {
			if avoid(n) {
				return false
			}
			if _, isRet := n.(*ast.ReturnStmt); isRet {
				return true
			}
		}
		for _, s := range x.Succs {
			if !seen[s] && !dfs(s) {
				return false
			}
		}
		return true
	}
	return dfs(start)
}

// nodeCalls reports whether node n contains a (static) call to fn.
func nodeCalls(info *types.Info, n ast.Node, fn *types.Func) *ast.CallExpr {
	for _, ce := range callsIn(n, false) {
		if originOf(Callee(info, ce)) == fn {
			return ce
		}
	}
	return nil
}

// findCalls lists calls to fn in the CFG with locations.
func (f *FCFG) findCalls(fn *types.Func) []locatedCall {
	var out []locatedCall
	for _, b := range f.G.Blocks {
		if !f.Live(b) {
			continue
		}
		for i, n := range b.Nodes {
			for _, ce := range callsIn(n, false) {
				if originOf(Callee(f.Info, ce)) == fn {
					out = append(out, locatedCall{ce, fn, Loc{b, i}})
				}
			}
		}
	}
	return out
}

// stdFunc resolves a standard-library (or any imported) function by package
// path and name from the uses recorded in the given package.
func stdFuncCalled(info *types.Info, ce *ast.CallExpr, pkgPath, name string) bool {
	fn := Callee(info, ce)
	return fn != nil && fn.Pkg() != nil && fn.Pkg().Path() == pkgPath && fn.Name() == name
}

func methodCalled(info *types.Info, ce *ast.CallExpr, recvPkg, recvType, name string) bool {
	fn := Callee(info, ce)
	if fn == nil || fn.Name() != name {
		return false
	}
	sig, _ := fn.Type().(*types.Signature)
	if sig == nil || sig.Recv() == nil {
		return false
	}
	t := sig.Recv().Type()
	if p, ok := t.(*types.Pointer); ok {
		t = p.Elem()
	}
	n, ok := types.Unalias(t).(*types.Named)
	if !ok || n.Obj().Pkg() == nil {
		return false
	}
	return n.Obj().Pkg().Path() == recvPkg && n.Obj().Name() == recvType
}

// reachableFromAvoiding: is target reachable from start when the edges in cut
// are deleted?
func (f *FCFG) reachableFromAvoiding(start, target *cfg.Block, cut []cfgEdge) bool {
	isCut := func(b *cfg.Block, k int) bool {
		for _, e := range cut {
			if e.B == b && e.K == k {
				return true
			}
		}
		return false
	}
	seen := map[*cfg.Block]bool{}
	var dfs func(x *cfg.Block) bool
	dfs = func(x *cfg.Block) bool {
		if x == target {
			return true
		}
		seen[x] = true
		for i, s := range x.Succs {
			if isCut(x, i) {
				continue
			}
			if !seen[s] && dfs(s) {
				return true
			}
		}
		return false
	}
	return dfs(start)
}

// typeIsErrorTest recognises `X.Type == LError` / `!=` on object x; it reports
// which successor index is the "is an error" edge.
func typeIsErrorTest(info *types.Info, e ast.Expr, typeFld *types.Var, lerror types.Object) (obj types.Object, errEdge int, ok bool) {
	be, isBin := ast.Unparen(e).(*ast.BinaryExpr)
	if !isBin || (be.Op != token.EQL && be.Op != token.NEQ) {
		return nil, 0, false
	}
	side := func(a, b ast.Expr) types.Object {
		se, isSel := ast.Unparen(a).(*ast.SelectorExpr)
		if !isSel || FieldOfSelector(info, se) != typeFld {
			return nil
		}
		if identObj(info, b) != lerror {
			// qualified lisp.LError
			if s2, ok := ast.Unparen(b).(*ast.SelectorExpr); !ok || info.Uses[s2.Sel] != lerror {
				return nil
			}
		}
		return identObj(info, se.X)
	}
	o := side(be.X, be.Y)
	if o == nil {
		o = side(be.Y, be.X)
	}
	if o == nil {
		return nil, 0, false
	}
	if be.Op == token.EQL {
		return o, 0, true
	}
	return o, 1, true
}

// errEdge is an edge on which Obj is known to be an LError value.
type errEdge struct {
	Obj types.Object
	E   cfgEdge
}

// errorEdges lists edges implying `X.Type == LError` for some variable X.
func errorEdges(fc *FCFG, typeFld *types.Var, lerror types.Object) []errEdge {
	var out []errEdge
	for _, b := range fc.G.Blocks {
		if !fc.Live(b) {
			continue
		}
		cond := fc.CondOf(b)
		if cond == nil {
			continue
		}
		for k := 0; k < 2; k++ {
			for _, a := range impliedAtoms(cond, k == 0) {
				obj, edge, ok := typeIsErrorTest(fc.Info, a.E, typeFld, lerror)
				if !ok || obj == nil {
					continue
				}
				// edge==0: atom true means error
				if (edge == 0) == a.Positive {
					out = append(out, errEdge{obj, cfgEdge{b, k}})
				}
			}
		}
	}
	return out
}

// reachableAvoidingBlocks: like reachableAvoiding, additionally refusing to
// pass through any block of `blocked` (other than the target itself).
func (f *FCFG) reachableAvoidingBlocks(target *cfg.Block, cut []cfgEdge, blocked map[*cfg.Block]bool) bool {
	if len(f.G.Blocks) == 0 {
		return false
	}
	isCut := func(b *cfg.Block, k int) bool {
		for _, e := range cut {
			if e.B == b && e.K == k {
				return true
			}
		}
		return false
	}
	seen := map[*cfg.Block]bool{}
	var dfs func(x *cfg.Block) bool
	dfs = func(x *cfg.Block) bool {
		if x == target {
			return true
		}
		if blocked[x] {
			return false
		}
		seen[x] = true
		for i, s := range x.Succs {
			if isCut(x, i) {
				continue
			}
			if !seen[s] && dfs(s) {
				return true
			}
		}
		return false
	}
	return dfs(f.G.Blocks[0])
}

// reachableFromAvoidingBlocks: target reachable from start without entering a
// blocked block.
func (f *FCFG) reachableFromAvoidingBlocks(start, target *cfg.Block, blocked map[*cfg.Block]bool) bool {
	seen := map[*cfg.Block]bool{}
	var dfs func(x *cfg.Block) bool
	dfs = func(x *cfg.Block) bool {
		if x == target {
			return true
		}
		if blocked[x] {
			return false
		}
		seen[x] = true
		for _, s := range x.Succs {
			if !seen[s] && dfs(s) {
				return true
			}
		}
		return false
	}
	return dfs(start)
}

// helperMust: does every path through the declared same-module function h, from
// entry to a return that is not an error exit, pass a node accepted by pred?
// Calls to further helpers are followed to a small depth.  Used so that a path
// rule keeps holding when the statements it looks for are moved, unchanged,
// into a helper that the original site now calls (the most common refactoring).
//
// An "error exit" is a return whose (last) result is an Error*/Errorf*
// construction, or which sits in the body of an `if x != nil` / `x.Type == LError`
// test: the caller's loop or sequence is left on that path, so the obligation
// does not apply to it.
func (c *Ctx) helperMust(h *types.Func, pred func(info *types.Info, n ast.Node) bool, depth int) bool {
	fd := c.declOf[originOf(h)]
	if fd == nil || fd.Body == nil || depth > 2 {
		return false
	}
	pkg := c.pkgOf[fd]
	info := pkg.TypesInfo
	u := FuncUnit{originOf(h), fd, pkg}
	fc := c.cfgOf(u, nil)
	accept := func(n ast.Node) bool {
		if pred(info, n) {
			return true
		}
		for _, ce := range callsIn(n, false) {
			if g := originOf(Callee(info, ce)); g != nil && g != originOf(h) && c.declOf[g] != nil && g.Pkg() == h.Pkg() {
				if c.helperMust(g, pred, depth+1) {
					return true
				}
			}
		}
		return false
	}
	isErrExit := func(b *cfg.Block) bool {
		for _, n := range b.Nodes {
			rs, ok := n.(*ast.ReturnStmt)
			if !ok || len(rs.Results) == 0 {
				continue
			}
			last := ast.Unparen(rs.Results[len(rs.Results)-1])
			if ce, ok := last.(*ast.CallExpr); ok {
				if f := Callee(info, ce); f != nil && (strings.HasPrefix(f.Name(), "Error") || strings.HasSuffix(f.Name(), "Errorf")) {
					return true
				}
			}
		}
		return false
	}
	through := map[*cfg.Block]bool{}
	for _, b := range fc.G.Blocks {
		if !fc.Live(b) {
			continue
		}
		for _, n := range b.Nodes {
			if accept(n) {
				through[b] = true
			}
		}
		if isErrExit(b) {
			through[b] = true
		}
	}
	if len(through) == 0 {
		return false
	}
	return !fc.exitReachableAvoiding(through, nil)
}

// nodeMust: n itself satisfies pred, or calls a helper that must (helperMust).
func (c *Ctx) nodeMust(info *types.Info, pkg *types.Package, n ast.Node, pred func(info *types.Info, n ast.Node) bool) bool {
	if pred(info, n) {
		return true
	}
	for _, ce := range callsIn(n, false) {
		if g := originOf(Callee(info, ce)); g != nil && c.declOf[g] != nil && g.Pkg() == pkg {
			if c.helperMust(g, pred, 0) {
				return true
			}
		}
	}
	return false
}

// nodeCallsVia: n contains a call to target, or to an unexported function of
// target's package that reaches target through static calls (a private helper
// wrapped around the call).  Returns the call expression found.
func (c *Ctx) nodeCallsVia(info *types.Info, n ast.Node, target *types.Func) *ast.CallExpr {
	if ce := nodeCalls(info, n, target); ce != nil {
		return ce
	}
	key := "reachVia:" + FuncName(target)
	reach, ok := c.memo[key].(map[*types.Func]bool)
	if !ok {
		pk := ""
		if target.Pkg() != nil {
			pk = target.Pkg().Path()
		}
		reach = c.staticReach(func(p string) bool { return p == pk }, target)
		c.memo[key] = reach
	}
	for _, ce := range callsIn(n, false) {
		if g := originOf(Callee(info, ce)); g != nil && reach[g] && !g.Exported() && !c.evalLikeSet()[g] {
			return ce
		}
	}
	return nil
}

// helperResultEntails: h is a boolean helper of this module; whenever it
// returns `want`, goal holds — every return that can give `want` is either
// unreachable without crossing an edge of h that entails goal, or returns an
// expression whose being `want` entails goal.  cls classifies atoms inside h.
func (c *Ctx) helperResultEntails(h *types.Func, want bool, cls func(info *types.Info) func(e ast.Expr) (string, bool), goal func(v map[string]bool) bool) bool {
	fd := c.declOf[h]
	if fd == nil || fd.Body == nil {
		return false
	}
	sig := h.Type().(*types.Signature)
	if sig.Results().Len() != 1 {
		return false
	}
	if b, ok := sig.Results().At(0).Type().Underlying().(*types.Basic); !ok || b.Kind() != types.Bool {
		return false
	}
	pkg := c.pkgOf[fd]
	info := pkg.TypesInfo
	fc := c.cfgOf(FuncUnit{h, fd, pkg}, nil)
	k := cls(info)
	cut := fc.edgesEntailing(k, goal)
	nret := 0
	for _, b := range fc.G.Blocks {
		if !fc.Live(b) {
			continue
		}
		for _, n := range b.Nodes {
			rs, ok := n.(*ast.ReturnStmt)
			if !ok {
				continue
			}
			nret++
			if len(rs.Results) != 1 {
				return false
			}
			if tv, ok := info.Types[rs.Results[0]]; ok && tv.Value != nil && tv.Value.Kind() == constant.Bool {
				if constant.BoolVal(tv.Value) != want {
					continue
				}
			}
			if !fc.reachableAvoiding(b, cut) {
				continue
			}
			if fc.exprEntails(rs.Results[0], want, nil, k, goal) {
				continue
			}
			return false
		}
	}
	return nret > 0
}

// helperNonNilEntails: h is a selecting helper of this module with a single pointer result
// (`findBinding(list, err) *LVal`); whenever it returns something other than the nil literal, goal
// holds — every such return is unreachable without crossing an edge of h that entails goal.
func (c *Ctx) helperNonNilEntails(h *types.Func, cls func(info *types.Info) func(e ast.Expr) (string, bool), goal func(v map[string]bool) bool) bool {
	fd := c.declOf[h]
	if fd == nil || fd.Body == nil {
		return false
	}
	sig := h.Type().(*types.Signature)
	if sig.Results().Len() != 1 {
		return false
	}
	if _, ok := sig.Results().At(0).Type().Underlying().(*types.Pointer); !ok {
		return false
	}
	pkg := c.pkgOf[fd]
	info := pkg.TypesInfo
	fc := c.cfgOf(FuncUnit{h, fd, pkg}, nil)
	cut := fc.edgesEntailing(cls(info), goal)
	nret := 0
	for _, b := range fc.G.Blocks {
		if !fc.Live(b) {
			continue
		}
		for _, n := range b.Nodes {
			rs, ok := n.(*ast.ReturnStmt)
			if !ok {
				continue
			}
			if len(rs.Results) != 1 {
				return false
			}
			if isNilIdent(info, rs.Results[0]) {
				continue
			}
			nret++
			if fc.reachableAvoiding(b, cut) {
				return false
			}
		}
	}
	return nret > 0
}

// boundParam: in a call h(args...), the parameter of h that receives the
// caller's object o as a plain identifier argument (nil if none).
func boundParam(info *types.Info, ce *ast.CallExpr, h *types.Func, o types.Object) types.Object {
	sig := h.Type().(*types.Signature)
	for i, a := range ce.Args {
		if i < sig.Params().Len() && identObj(info, a) == o && o != nil {
			return sig.Params().At(i)
		}
	}
	return nil
}

// nilResultGuardEdges: edges of fc on which a local is known nil where that
// local's only definition is a call to a checker helper h of this module and
// h can return nil only across one of its own guard edges (guardOf applied to
// h's graph): `if lerr := checkKey(k); lerr != nil { return lerr }` guards what
// follows exactly as the tests written inside checkKey would.
func (c *Ctx) nilResultGuardEdges(fc *FCFG, guardOf func(fc *FCFG) []cfgEdge) []cfgEdge {
	return c.nilResultGuardEdgesAt(fc, func(h *FCFG, _ *types.Func, _ *ast.CallExpr) []cfgEdge { return guardOf(h) })
}

// nilResultGuardEdgesAt is nilResultGuardEdges with a guard recipe that sees
// the helper and the call (to bind the caller's objects to its parameters).
func (c *Ctx) nilResultGuardEdgesAt(fc *FCFG, guardOf func(hfc *FCFG, h *types.Func, call *ast.CallExpr) []cfgEdge) []cfgEdge {
	var out []cfgEdge
	seen := map[types.Object]bool{}
	for _, b := range fc.G.Blocks {
		cond := fc.CondOf(b)
		if !fc.Live(b) || cond == nil {
			continue
		}
		ast.Inspect(cond, func(n ast.Node) bool {
			id, ok := n.(*ast.Ident)
			if !ok {
				return true
			}
			o, ok := fc.Info.Uses[id].(*types.Var)
			if !ok || seen[o] || o.IsField() {
				return true
			}
			seen[o] = true
			ce, idx, ndefs := definingCall(fc.Info, fc.Body, o)
			if ce == nil || ndefs != 1 {
				return true
			}
			h := originOf(Callee(fc.Info, ce))
			if h == nil || !c.nilOnlyBehind(h, idx, func(hfc *FCFG) []cfgEdge { return guardOf(hfc, h, ce) }) {
				return true
			}
			out = append(out, fc.nilEdges(o, true)...)
			return true
		})
	}
	return out
}

// nilOnlyBehind: every return of h whose idx-th result is (or may be) nil is
// unreachable without crossing a guard edge of h.
func (c *Ctx) nilOnlyBehind(h *types.Func, idx int, guardOf func(fc *FCFG) []cfgEdge) bool {
	fd := c.declOf[h]
	if fd == nil || fd.Body == nil {
		return false
	}
	pkg := c.pkgOf[fd]
	info := pkg.TypesInfo
	hfc := c.cfgOf(FuncUnit{h, fd, pkg}, nil)
	guards := guardOf(hfc)
	if len(guards) == 0 {
		return false
	}
	sig := h.Type().(*types.Signature)
	nret := 0
	for _, b := range hfc.G.Blocks {
		if !hfc.Live(b) {
			continue
		}
		for _, n := range b.Nodes {
			rs, ok := n.(*ast.ReturnStmt)
			if !ok {
				continue
			}
			nret++
			if len(rs.Results) != sig.Results().Len() || idx >= len(rs.Results) {
				return false
			}
			// a result that is certainly non-nil: a call to an error constructor / composite
			if ce, ok := ast.Unparen(rs.Results[idx]).(*ast.CallExpr); ok {
				if f := Callee(info, ce); f != nil {
					switch f.Name() {
					case "Errorf", "Error", "ErrorCondition", "ErrorConditionf", "New":
						continue
					}
				}
			}
			if ue, ok := ast.Unparen(rs.Results[idx]).(*ast.UnaryExpr); ok && ue.Op == token.AND {
				if _, isLit := ast.Unparen(ue.X).(*ast.CompositeLit); isLit {
					continue // &T{...} is never nil
				}
			}
			// a variable returned only where it was shown non-nil
			if o := identObj(info, rs.Results[idx]); o != nil {
				if nn := hfc.nilEdges(o, false); len(nn) > 0 && !hfc.reachableAvoiding(b, nn) {
					continue
				}
			}
			if hfc.reachableAvoiding(b, guards) {
				return false
			}
		}
	}
	return nret > 0
}

// reaches: h is target or has a chain of static calls inside target's package
// that ends in target.
func (c *Ctx) reaches(h, target *types.Func) bool {
	if h == target {
		return true
	}
	key := "reachAll:" + FuncName(target)
	reach, ok := c.memo[key].(map[*types.Func]bool)
	if !ok {
		pk := ""
		if target.Pkg() != nil {
			pk = target.Pkg().Path()
		}
		reach = c.staticReach(func(p string) bool { return p == pk }, target)
		c.memo[key] = reach
	}
	return reach[h]
}
