#!/bin/bash
# Entry point for every command registered in MANIFEST.json.
#   run.sh setup                 build the checker from files on disk (offline)
#   run.sh check <Cnn> [tier]    decide one property against /repo's working tree
#   run.sh replay <file>         re-evaluate one reported obligation
#   run.sh selftest [id...]      apply each seeded/selftest patch to a scratch copy and require a report
set -u
HERE="$(cd "$(dirname "${BASH_SOURCE[0]}")" && pwd)"
export VERIF_DIR="$HERE"
export GOFLAGS=-mod=mod GOPROXY=off GOSUMDB=off GOTOOLCHAIN=local GONOSUMDB='*' GONOSUMCHECK=1
export PATH=/opt/veriftools/go1.26.8/bin:$PATH
unset GOWORK
REPO="${VERIF_REPO:-/repo}"
# VERIF_BIN: run a given, already built checker binary as it is (used by the long self-test runs so
# that the checker sources can be edited meanwhile); never set by the registered commands
BIN="${VERIF_BIN:-$HERE/bin/elpscheck}"

build() {
  mkdir -p "$HERE/bin"
  (cd "$HERE/checker" && go build -o "$BIN" .) || { echo "CHECK-FAILED: cannot build checker"; exit 2; }
}

needs_build() {
  [ -n "${VERIF_BIN:-}" ] && return 1
  [ ! -x "$BIN" ] && return 0
  [ -n "$(find "$HERE/checker" -name '*.go' -newer "$BIN" -print -quit)" ] && return 0
  return 1
}

cmd="${1:-}"; shift || true
case "$cmd" in
  setup)
    build; echo "built $BIN";;
  check)
    id="$1"; tier="${2:-${VERIF_TIER:-quick}}"
    needs_build && build
    exec "$BIN" -repo "$REPO" -property "$id" -tier "$tier";;
  replay)
    needs_build && build
    exec "$BIN" -repo "$REPO" -replay "$1";;
  dump)
    needs_build && build
    exec "$BIN" -repo "$REPO" -property "$1" -tier "${2:-quick}" -dump;;
  selftest)
    needs_build && build
    exec "$HERE/selftest.sh" "$@";;
  *)
    echo "usage: run.sh setup|check <id> [tier]|replay <file>|dump <id>|selftest" >&2; exit 2;;
esac
